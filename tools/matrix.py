#!/venv/bin/python
"""Prints the detection matrix (markdown) from /verif/seeded/*/meta.json."""
import glob
import json
import os

rows = []
for d in sorted(glob.glob("/verif/seeded/*")):
    try:
        m = json.load(open(d + "/meta.json"))
    except Exception:
        continue
    v = m.get("verification", {})
    runs = v.get("checks_run", {})
    caught = v.get("caught_by", [])
    missed = sorted(c for c in runs if c not in caught)
    rows.append((os.path.basename(d), (m.get("summary") or "")[:110].replace("|", "/").replace("\n", " "),
                 ", ".join(caught) or "—", ", ".join(missed) or ""))
print("| seeded change | what it does | reported by | run but silent |")
print("|---|---|---|---|")
for r in rows:
    print("| `%s` | %s | %s | %s |" % r)
print()
print("%d seeded changes, %d reported by at least one check" % (len(rows), sum(1 for r in rows if r[2] != "—")))
