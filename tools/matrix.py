#!/venv/bin/python
"""Prints the detection matrix (markdown) from /verif/seeded/*/meta.json.

  tools/matrix.py            full table
  tools/matrix.py --summary  per-property counts only
"""
import glob
import json
import os
import sys

rows = []
for d in sorted(glob.glob("/verif/seeded/*")):
    try:
        m = json.load(open(d + "/meta.json"))
    except Exception:
        continue
    v = m.get("verification", {})
    runs = v.get("checks_run", {})
    caught = v.get("caught_by", [])
    missed = sorted(c for c in runs if c not in caught)
    rows.append((os.path.basename(d), m.get("property"), (m.get("summary") or "")[:110].replace("|", "/").replace("\n", " "),
                 caught, missed))

per = {}
for sid, prop, summ, caught, missed in rows:
    p = per.setdefault(prop, [0, 0, 0])
    p[0] += 1
    p[1] += 1 if caught else 0
    p[2] += 1 if prop in caught else 0

if "--summary" not in sys.argv:
    print("| seeded change | what it does | reported by | run but silent |")
    print("|---|---|---|---|")
    for sid, prop, summ, caught, missed in rows:
        print("| `%s` | %s | %s | %s |" % (sid, summ, ", ".join(caught) or "—", ", ".join(missed)))
    print()
print("| property | seeded changes | reported by some check | reported by the property's own check |")
print("|---|---|---|---|")
for prop in sorted(per):
    print("| %s | %d | %d | %d |" % ((prop,) + tuple(per[prop])))
print("| all | %d | %d | %d |" % (len(rows), sum(1 for r in rows if r[3]), sum(1 for r in rows if r[1] in r[3])))
