#!/bin/bash
# tools/seed_batch.sh <listfile> : each line "<PROP> <name> <checks>"; runs seed_eval for each, 2 at a time
list="$1"; log="${2:-/dev/shm/seed_batch.log}"
cat "$list" | xargs -P 2 -L 1 bash -c '/verif/tools/seed_eval.py /tmp/seed/$0/out/$1 $0-$1 $2 2>&1 | grep -v WARNING' >> "$log" 2>&1
echo BATCH-DONE >> "$log"
