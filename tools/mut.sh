#!/bin/bash
# tools/mut.sh <patch> [--tests] <CHECK-ID>...   : run checks against a scratch copy of /repo with the patch applied.
# The scratch copy lives under /dev/shm and is removed on exit.  Exit 0 iff every listed check reports a VIOLATION.
set -u
patch="$(realpath "$1")"; shift
runtests=0
if [ "${1:-}" = "--tests" ]; then runtests=1; shift; fi
scratch="$(mktemp -d /dev/shm/jsv-mut.XXXXXX)"
trap 'rm -rf "$scratch"' EXIT
rsync -a --exclude .git --exclude '*.pyc' --exclude __pycache__ /repo/ "$scratch/"
( cd "$scratch" && patch -p1 -s < "$patch" ) || { echo "PATCH FAILED: $patch"; exit 3; }
if [ $runtests = 1 ]; then
  ( cd "$scratch" && /venv/bin/python -m pytest -q -p no:cacheprovider -x -n 8 2>&1 | tail -2 )
fi
rc=0
for id in "$@"; do
  out="$(cd /verif && VERIF_REPO="$scratch" VERIF_NO_EVIDENCE=1 ./check "$id" --tier "${VERIF_TIER:-quick}" 2>&1)"; code=$?
  nv="$(echo "$out" | grep -c '^VIOLATION')"
  echo "== $(basename "$patch") $id: exit=$code VIOLATION-lines=$nv :: $(echo "$out" | grep -m1 'signature=' | cut -c1-220)"
  echo "$out" | tail -1
  if [ $code != 1 ] || [ "$nv" = 0 ]; then rc=1; fi
done
exit $rc
