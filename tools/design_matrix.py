#!/venv/bin/python
"""Rewrites DESIGN.md section 12.10 (final detection matrix) from seeded/*/meta.json."""
import glob
import json
import os
import re

rows = []
for d in sorted(glob.glob("/verif/seeded/*")):
    m = json.load(open(d + "/meta.json"))
    v = m.get("verification", {})
    rows.append((os.path.basename(d), m.get("property"), v.get("caught_by", []),
                 (m.get("summary") or "").replace("|", "/").replace("\n", " ")[:150]))
rounds = [("round 1", lambda s: not s.startswith("R")), ("round 2", lambda s: s.startswith("R2-"))] + \
         [("round %d" % i, (lambda i: lambda s: s.startswith("R%d-" % i))(i)) for i in range(3, 8)]
out = []
out.append("### 12.10 Final detection matrix\n")
out.append("All %d seeded changes kept in `seeded/` (each confirmed here: repository test suite green with the change,\n"
           "demonstration passes on the unchanged tree and fails with the change) were re-run against the quick tier of\n"
           "the check of the property they were written for, on the final state of the checks (`tools/seed_eval.py`,\n"
           "results in each `meta.json`).\n" % len(rows))
out.append("| round | seeded changes | reported by the property's own check | reported by some check |")
out.append("|---|---|---|---|")
for name, pred in rounds:
    rs = [r for r in rows if pred(r[0])]
    if rs:
        out.append("| %s | %d | %d | %d |" % (name, len(rs), sum(1 for r in rs if r[1] in r[2]), sum(1 for r in rs if r[2])))
out.append("| all | %d | %d | %d |" % (len(rows), sum(1 for r in rows if r[1] in r[2]), sum(1 for r in rows if r[2])))
out.append("")
per = {}
for sid, prop, caught, summ in rows:
    p = per.setdefault(prop, [0, 0])
    p[0] += 1
    p[1] += 1 if prop in caught else 0
out.append("| property | " + " | ".join(sorted(per)) + " |")
out.append("|---|" + "---|" * len(per))
out.append("| seeded | " + " | ".join(str(per[p][0]) for p in sorted(per)) + " |")
out.append("| own check reports | " + " | ".join(str(per[p][1]) for p in sorted(per)) + " |")
out.append("")
missed = [r for r in rows if r[1] not in r[2]]
if missed:
    out.append("Not reported by the own check:\n")
    for sid, prop, caught, summ in missed:
        out.append("* `%s` (%s; reported by %s): %s" % (sid, prop, ", ".join(caught) or "no check", summ))
    out.append("")
out.append("The per-seed table (what each change does, which checks report it) is printed by `tools/matrix.py`.\n")
text = "\n".join(out)
p = "/verif/DESIGN.md"
s = open(p).read()
if "### 12.10 Final detection matrix" in s:
    s = re.sub(r"### 12\.10 Final detection matrix\n.*?(?=\nNot claimed, by decision:)", text, s, flags=re.S)
else:
    s = s.replace("\nNot claimed, by decision:", "\n\n" + text + "\nNot claimed, by decision:", 1)
open(p, "w").write(s)
print(text[:1500])
