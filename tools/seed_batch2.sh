#!/bin/bash
# like seed_batch.sh but for a second seed root: tools/seed_batch2.sh <root> <prefix> <listfile> <log>
root="$1"; prefix="$2"; list="$3"; log="$4"
export SEED_ROOT="$root" SEED_PREFIX="$prefix"
cat "$list" | xargs -P 2 -L 1 bash -c '/verif/tools/seed_eval.py $SEED_ROOT/$0/out/$1 ${SEED_PREFIX}$0-$1 $2 2>&1 | grep -v WARNING' >> "$log" 2>&1
echo BATCH-DONE >> "$log"
