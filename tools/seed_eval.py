#!/venv/bin/python
"""tools/seed_eval.py <src-dir> <seed-id> <CHECK>[,<CHECK>...] [--no-tests]

Confirms one seeded change (src-dir holds patch.diff, demo.py, meta.json written
by an independent agent) and runs checks against it:
  1. scratch copy of /repo under /dev/shm, demo on the unchanged copy must PASS
  2. apply the patch, run the repository's test suite (must be all green)
  3. demo must FAIL with the patch
  4. each listed check (quick tier, VERIF_REPO=scratch) -> VIOLATION or not
The scratch copy is removed.  With a confirmed change the files are stored in
/verif/seeded/<seed-id>/ and meta.json is extended with what was run here.
"""
import json
import os
import shutil
import subprocess
import sys
import tempfile
import time


def sh(cmd, cwd=None, env=None, timeout=3600):
    p = subprocess.run(cmd, shell=True, cwd=cwd, env=env, capture_output=True, text=True, timeout=timeout)
    return p.returncode, (p.stdout + p.stderr)


def main():
    src, sid, checks = sys.argv[1], sys.argv[2], [c for c in sys.argv[3].split(",") if c]
    run_tests = "--no-tests" not in sys.argv
    tier = os.environ.get("VERIF_TIER", "quick")
    scratch = tempfile.mkdtemp(prefix="jsv-seed.", dir="/dev/shm")
    out = {"seed": sid, "source": src, "checks": {}, "tier": tier}
    try:
        sh("rsync -a --exclude .git --exclude '*.pyc' --exclude __pycache__ --exclude out /repo/ %s/" % scratch)
        os.makedirs(scratch + "/out/x")
        shutil.copy(src + "/demo.py", scratch + "/out/x/demo.py")
        env = dict(os.environ, PYTHONDONTWRITEBYTECODE="1", PYTHONHASHSEED="0")
        rc, o = sh("/venv/bin/python out/x/demo.py", cwd=scratch, env=env, timeout=600)
        out["demo_on_unchanged"] = {"exit": rc, "tail": o[-300:]}
        rc, o = sh("patch -p1 -s < %s/patch.diff" % os.path.abspath(src), cwd=scratch)
        out["patch_applies"] = rc == 0
        if rc != 0:
            out["patch_error"] = o[-500:]
            print(json.dumps(out, indent=1))
            return 2
        if not run_tests:
            try:
                out["tests"] = json.load(open(src + "/meta.json")).get("verification", {}).get("tests")
            except Exception:
                pass
        if run_tests:
            rc, o = sh("/venv/bin/python -m pytest -q -p no:cacheprovider --timeout=900 -n 8 2>&1 | tail -3", cwd=scratch, env=env)
            out["tests"] = o.strip().splitlines()[-1] if o.strip() else ""
        rc, o = sh("/venv/bin/python out/x/demo.py", cwd=scratch, env=env, timeout=600)
        out["demo_with_change"] = {"exit": rc, "tail": o[-300:]}
        for cid in checks:
            t0 = time.time()
            env2 = dict(env, VERIF_REPO=scratch, VERIF_NO_EVIDENCE="1", VERIF_VIOLATIONS_DIR=scratch + "/viol")
            rc, o = sh("./check %s --tier %s" % (cid, tier), cwd="/verif", env=env2, timeout=7200)
            sigs = [l.strip() for l in o.splitlines() if l.strip().startswith("signature=")]
            out["checks"][cid] = {"exit": rc, "violation_lines": sum(1 for l in o.splitlines() if l.startswith("VIOLATION")),
                                  "first_signatures": [s[:200] for s in sigs[:3]], "wall_s": round(time.time() - t0, 1),
                                  "last": o.strip().splitlines()[-1][:200] if o.strip() else ""}
    finally:
        shutil.rmtree(scratch, ignore_errors=True)
    confirmed = (out.get("demo_on_unchanged", {}).get("exit") == 0 and out.get("demo_with_change", {}).get("exit") not in (0, None)
                 and (not run_tests or ("passed" in out.get("tests", "") and "failed" not in out.get("tests", ""))))
    out["confirmed"] = confirmed
    out["caught_by"] = [c for c, r in out["checks"].items() if r["exit"] == 1 and r["violation_lines"] > 0]
    dst = "/verif/seeded/" + sid
    if confirmed:
        os.makedirs(dst, exist_ok=True)
        if os.path.realpath(src) != os.path.realpath(dst):
            shutil.copy(src + "/patch.diff", dst + "/patch.diff")
            shutil.copy(src + "/demo.py", dst + "/demo.py")
        meta = {}
        try:
            meta = json.load(open(src + "/meta.json"))
        except Exception:
            pass
        prev = {}
        if os.path.exists(dst + "/meta.json"):
            try:
                prev = json.load(open(dst + "/meta.json")).get("verification", {})
            except Exception:
                prev = {}
        ver = {"confirmed": True, "tests": out.get("tests"), "demo_on_unchanged_exit": out["demo_on_unchanged"]["exit"],
               "demo_with_change_exit": out["demo_with_change"]["exit"],
               "checks_run": dict(prev.get("checks_run", {}), **{c: {"exit": r["exit"], "violation_lines": r["violation_lines"],
                                                                      "first_signatures": r["first_signatures"], "tier": tier}
                                                                  for c, r in out["checks"].items()})}
        ver["caught_by"] = sorted(c for c, r in ver["checks_run"].items() if r["exit"] == 1 and r["violation_lines"] > 0)
        meta["verification"] = ver
        with open(dst + "/meta.json", "w") as f:
            json.dump(meta, f, indent=1)
    print(json.dumps({k: out[k] for k in ("seed", "confirmed", "tests", "caught_by") if k in out}))
    for c, r in out["checks"].items():
        print("  %s exit=%s viol=%s %s | %s" % (c, r["exit"], r["violation_lines"], r["first_signatures"][:1], r["last"]))
    if not confirmed:
        print(json.dumps(out, indent=1)[:1500])
    return 0


if __name__ == "__main__":
    sys.exit(main())
