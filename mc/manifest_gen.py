"""Regenerates /verif/MANIFEST.json from the table below (python -m mc.manifest_gen)."""
import json
import os

VERIF = os.path.dirname(os.path.dirname(os.path.abspath(__file__)))

E1 = "bounded-exhaustive small-scope enumeration of the real code against a reference model (engine E1)"
E2 = "explicit-state exploration of operation histories on live objects (engine E2)"

CHECKS = [
    # id, level, technique, text, note, design section
    ("C01", "exploration", "exhaustive enumeration of schemas x instances vs. an independent reference evaluator",
     "No (schema, instance, draft) within the stated grammar and universe bounds gets a verdict different from the "
     "specification as written down in mc/ref/spec.py: all single keywords, ALL ordered keyword pairs, sibling-group "
     "products, nesting depth 2 and arity 3, against every JSON type.  A bounded-exhaustive statement, not a sample.",
     "trusts the reference evaluator (validated against the official suite in selftest) and the small-scope hypothesis; "
     "regexes limited to a predicate table; float multipleOf only on exact operands", "5 C01"),
    ("C05", "exploration", "exhaustive enumeration; per-keyword decomposition (implementation vs itself) + location-multiset comparison with the reference evaluator",
     "For every schema of the grammar with its instance universe, the errors attributed to each keyword equal the errors the "
     "keyword yields alone with its consulted siblings (full identity incl. message, paths, values, context), and the "
     "multiset of error locations equals the reference's one-error-per-violation expectation.",
     "decomposition needs no oracle; counting trusts mc/ref/spec.py; bounded grammar and universe", "5 C05"),
    ("C06", "exploration", "exhaustive enumeration; per-error invariants (paths, keyword, value, parent, json_path) and reference locations",
     "Every error and context error produced over G x U_d satisfies the location invariants: the instance path reaches the "
     "recorded instance, the schema path (hopping through references) reaches the recorded keyword value inside the recorded "
     "schema, absolute = parent + relative, json_path renders the path; locations equal the reference evaluator's.",
     "documented exceptions (draft 3 required, propertyNames, false schema) modelled explicitly; bounded grammar", "5 C06"),
]


def build():
    checks = []
    for cid, level, tech, text, note, ref in CHECKS:
        checks.append({
            "property_id": cid,
            "quick_cmd": "./check %s --tier quick" % cid,
            "thorough_cmd": "./check %s --tier thorough" % cid,
            "evidence_file": "/verif/evidence/%s.json" % cid,
            "replay_cmd_template": "./check %s --replay {path}" % cid,
            "engine": "mc",
            "level_claimed": {"category": level, "text": text, "design_ref": "DESIGN.md §" + ref},
            "level_note": note,
            "technique": tech,
        })
    claimed = {c[0] for c in CHECKS}
    props = [json.loads(l)["id"] for l in open(os.path.join(VERIF, "properties.jsonl"))]
    na = [{"property_id": p, "reason": NOT_YET.get(p, "check not built yet in this revision of /verif (planned, see DESIGN.md §5)")}
          for p in props if p not in claimed]
    return {
        "version": 1,
        "setup_cmd": "cd /verif && /venv/bin/python -m compileall -q mc >/dev/null && ./selftest/run.sh",
        "hooks": {
            "guard": "JSONSCHEMA_VERIF",
            "enable": "no source hooks are needed: every seam is public (resolver, store, handlers, cache functions, "
                      "format checker, cli.run streams) or patchable from outside (validators.urlopen, sys.settrace); "
                      "checks import /repo's working tree directly",
            "baseline_off_cmd": "cd /repo && /venv/bin/python -m pytest -ra -q -p no:cacheprovider --timeout=900 "
                                "--continue-on-collection-errors",
            "source_commits": [],
            "add_only": True,
        },
        "engines": [
            {"name": "mc", "path": "/verif/mc", "serves_properties": sorted(claimed),
             "kind_free_text": "hand-written bounded-exhaustive explorer for Python: E1 enumerates programs/inputs/"
                               "configurations against reference models; E2 explores operation histories, fault "
                               "sequences and schedules on live objects by replay-from-scratch"},
        ],
        "checks": checks,
        "notes": "All checks run the real code in /repo (VERIF_REPO overrides) under /venv/bin/python with PYTHONHASHSEED=0. "
                 "known_findings.json lists repaired defects (status fixed) and open findings.",
        "not_applicable": na,
    }


NOT_YET = {}

if __name__ == "__main__":
    m = build()
    with open(os.path.join(VERIF, "MANIFEST.json"), "w") as f:
        json.dump(m, f, indent=1)
    print("wrote MANIFEST.json with", len(m["checks"]), "checks;", len(m["not_applicable"]), "not yet claimed")
