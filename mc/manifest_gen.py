"""Regenerates /verif/MANIFEST.json from the table below (python -m mc.manifest_gen)."""
import json
import os

VERIF = os.path.dirname(os.path.dirname(os.path.abspath(__file__)))

E1 = "bounded-exhaustive small-scope enumeration of the real code against a reference model (engine E1)"
E2 = "explicit-state exploration of operation histories on live objects (engine E2)"

CHECKS = [
    # id, level, technique, text, note, design section
    ("C01", "exploration", "exhaustive enumeration of schemas x instances (incl. integers beyond the double range) vs. an independent reference evaluator",
     "No (schema, instance, draft) within the stated grammar and universe bounds gets a verdict different from the "
     "specification as written down in mc/ref/spec.py: all single keywords, ALL ordered keyword pairs, sibling-group "
     "products, nesting depth 2 and arity 3, against every JSON type.  A bounded-exhaustive statement, not a sample.",
     "trusts the reference evaluator (validated against the official suite in selftest) and the small-scope hypothesis; "
     "regexes limited to a predicate table; float multipleOf only on exact operands", "5 C01"),
    ("C05", "exploration", "exhaustive enumeration (reference-free grammar, and sibling slots whose subschemas are $refs into the same / a store document); per-keyword decomposition (implementation vs itself) + location-multiset comparison with the reference evaluator",
     "For every schema of the grammar with its instance universe, the errors attributed to each keyword equal the errors the "
     "keyword yields alone with its consulted siblings (full identity incl. message, paths, values, context), and the "
     "multiset of error locations equals the reference's one-error-per-violation expectation.",
     "decomposition needs no oracle; counting trusts mc/ref/spec.py; bounded grammar and universe", "5 C05"),
    ("C06", "exploration", "exhaustive enumeration; per-error invariants (paths, keyword, value, parent, json_path) and reference locations, re-checked on context errors and the best_match error after their parents were dropped",
     "Every error and context error produced over G x U_d satisfies the location invariants: the instance path reaches the "
     "recorded instance, the schema path (hopping through references) reaches the recorded keyword value inside the recorded "
     "schema, absolute = parent + relative, json_path renders the path; locations equal the reference evaluator's.",
     "documented exceptions (draft 3 required, propertyNames, false schema) modelled explicitly; bounded grammar", "5 C06"),
    ("C03", "exploration", "exhaustive enumeration of metaschema-accepted hostile schemas x instances x entry points, all call sequences (depth 2-3) on one reused validator, 30-deep applicator chains; oracle = set of exception types allowed to escape, 5 s watchdog",
     "Every {keyword: w} over a 60-value hostile universe (anything the metaschema might let through) and the sibling-group "
     "products, alone and at every subschema position, that the real check_schema accepts, validated against a hostile "
     "instance universe through all four entry points: nothing but ValidationError / RefResolutionError / (Draft 3) "
     "UnknownType escapes and nothing runs longer than the watchdog.",
     "5 s watchdog stands for non-termination; instance nesting kept below the interpreter's recursion limit; one open known finding (in-place reference cycles)", "5 C03"),
    ("C04", "exploration", "exhaustive enumeration; metamorphic relations between the implementation's own entry points, every order of entry-point calls (sessions, depth 2-3) on one validator object vs. a new object, rejected schemas after the same object was accepted elsewhere / edited in place",
     "On every enumerated (schema, instance, draft, class selection, format checker) the four entry points agree as the "
     "property states, validate() raises the first error, module validate() raises best_match (a top-level or context-free "
     "descendant error), invalid schemas raise the metaschema's first violation as SchemaError before the instance is "
     "touched (trip-wire instance), and repeating any call gives identical results.",
     "relations between runs of the implementation: no external oracle; bounded grammar", "5 C04"),
    ("C08", "exploration", "exhaustive enumeration of ordered value pairs and arrays (plain, OrderedDict-loaded, through one long-lived validator with a new schema object per call) vs. a canonical-form equality model + three-way agreement",
     "All ordered pairs of a 736-value JSON universe (depth <= 2) through const / enum / uniqueItems in every draft, and all "
     "length-3 arrays over a 40-value mixed universe, agree with exact JSON equality and with each other.",
     "type-tagged canonical form with Fractions as the model; strings limited to four atoms", "5 C08"),
    ("C09", "exploration", "exhaustive enumeration of ordered number pairs (incl. the 1024-bit band around the float rounding midpoint) x every numeric keyword form vs. exact rational arithmetic",
     "All ordered pairs (instance, bound/divisor) of a 137-number universe spanning the whole float exponent range and "
     "integers up to thousands of digits, for every numeric keyword form of every draft: bounds always equal the Fraction "
     "verdict; multipleOf equals it on the exact sub-domain the property defines; nothing raises.",
     "integers beyond CPython's 4300-digit str limit are outside the bound (their repr in an error message raises)", "5 C09"),
    ("C11", "exploration", "exhaustive enumeration of candidate schemas (hostile values, non-finite numbers, must-be-unique unions, type confusions) vs. the reference evaluator applied to the metaschema file; explicit exploration of dialect-registration histories and of preemption-bounded thread schedules of concurrent check_schema calls",
     "check_schema of each draft class returns exactly when an independent evaluator says the candidate satisfies the "
     "bundled metaschema file, and raises only SchemaError, over every hostile {keyword: value} at every subschema position "
     "(55k candidates per draft in the quick tier); each metaschema is accepted by its own class.",
     "trusts mc/ref/spec.py; format inert", "5 C11"),
    ("C02", "exploration", "exhaustive enumeration of reference placements/names/base arrangements x 8 document environments (store, handler, failing-once handler, late store, decoy resolvers sharing the store object, legacy resolver interface, resolver with another base) vs. a designation model + inlining (metamorphic: inlined schema validated by the implementation)",
     "For every enumerated placement of references (every applicator position incl. abandoning ones, hostile names, 14 "
     "spellings / target locations, ids on the evaluation path, recursion, store- and handler-served documents) the schema "
     "with references gives the same verdict and the same (instance path, keyword) multiset as the reference-free schema "
     "obtained by writing the designated schema in place of each reference.",
     "urljoin/urldefrag trusted as RFC 3986; own RFC 6901 decoder; issue-371 targets excluded as the property states; one open known finding (id next to $ref)", "5 C02"),
    ("C10", "exploration", "exhaustive enumeration of foreign-keyword insertions (every position incl. empty subschemas, reference targets and store documents, many at once, through the library and the command line) after exhaustive pre-histories by other drafts' classes and class-table edits; metamorphic before/after comparison",
     "Inserting any name outside the draft's vocabulary (from an independent vocabulary table), with hostile and "
     "would-fail-if-active values, at every subschema position of every base schema leaves the error identities unchanged; "
     "likewise any keyword next to a $ref and the other draft's id spelling above a relative reference.",
     "vocabulary table written from the specifications; messages that embed the edited subschema are not compared; one open known finding (own id next to $ref)", "5 C10"),
    ("C07", "model_checking", "explicit-state exploration of operation histories on one live validator (replay-from-scratch, 4 driver schemas), deviation-bounded handler faults, differential against a fresh validator; exhaustive purity sweep (schema / store document / instance before vs. after) over the grammar",
     "Every operation history on one validator object (is_valid / exhaust / validate / take-k-then-close / take-k-then-drop / "
     "resolve / resolving / in_scope / handler toggles) over three driver schemas per draft: un-merged to depth 3 (4 "
     "thorough), merged by canonical state to depth 5 (7), with at most 2 handler-failure deviations; each transition "
     "equals a fresh validator doing only that operation, and the scope stack, schema, store documents and instance are "
     "unchanged afterwards.",
     "relies on CPython reference counting for dropped iterators (the property's premise); canonical state argued in DESIGN 3.4; re-entrancy while an iterator is suspended is not claimed", "5 C07"),
    ("C12", "exploration", "exhaustive enumeration of the finite product names x instances (JSON and non-JSON Python values) x checker configurations (75 exception classes, overridden checker objects) x drafts vs. a model of the documented semantics; all depth-3 operation histories on one checker and interleavings over several checkers, each in an isolated process",
     "The complete product of format names, instances of every JSON type, 230 checker configurations (none, default, "
     "subsets, draft checkers, custom functions returning every truthiness / raising listed, sub-classed and unlisted "
     "exceptions) and four drafts behaves as the 15-line model of the documented format semantics, including cause identity.",
     "custom checkers registered on fresh instances only; class-wide registry asserted unchanged", "5 C12"),
    ("C13", "exploration", "exhaustive enumeration of all short strings and all single edits of seeds per format (str and str-subclass) vs. hand-written recognisers; all depth-3 interleavings over lax / strict custom and stock checker objects",
     "Every string up to length 4-7 over a per-format alphabet, a full date grid and every single edit of ~20 seeds per format "
     "(600k strings, 6.8M observations): ipv4 / ipv6 / date / email agree with hand-written recognisers, regex agrees with "
     "re.compile, and for every registered format conforms() returns a bool and check() raises only FormatError.",
     "recognisers in mc/ref/formats.py written from the RFCs (own selftest); idn-hostname and draft-3 time never-raises only; one open known finding (year 0000)", "5 C13"),
    ("C15", "model_checking", "explicit-state exploration of resolution/validation histories x cache configurations x handler faults vs. a fetch-count/availability model (result and exact handler call log); exhaustive base-URI x reference x subschema-id product under 10 cache configurations (all must agree)",
     "Every history (un-merged depth 3/4, merged by canonical state to 4/6, <= 2 handler-failure deviations) of validations "
     "and direct resolutions on one resolver, for each of {cache_remote on, off} x {default lru, pass-through, lru_cache(1)}: "
     "the result and the exact handler call log equal the model's prediction; at most one successful fetch per document "
     "with caching on; the store never grows with caching off; failures surface as RefResolutionError only; metaschema and "
     "store documents never cause a retrieval; urlopen/requests are never touched.",
     "evaluation order of references inside a validation is taken from a traced all-available run; model mirrors the documented cache semantics", "5 C15"),
    ("C16", "model_checking", "explicit-state exploration of derivation histories, each in a pristine forked process (order of first use is part of the history); every live object re-probed against a persistent-map model / the reference evaluator applied to the edited metaschema",
     "All sequences (depth 3 / 4) of 24 derivation operations on type checkers, validator classes and format checkers; after "
     "each history every object in existence (14 initial + derived) shows exactly the probe vector predicted at its "
     "creation (extend(cls) == cls incl. id lookup; an overridden/added keyword changes only its own probes; class-wide "
     "format registration affects only later FormatChecker objects); global registries restored and re-verified.",
     "probe battery is finite (is_type 9x12, 10 validation probes, conforms 10x6)", "5 C16"),
    ("C18", "model_checking", "all interleavings of iterator steps (stateless enumeration; validators colliding on every cache key, python-equal twins, shared schema / instance objects, related classes, metaschema-id copies) + preemption-bounded DFS over real threads under a sys.settrace baton scheduler with stall detection, incl. cold-start schedules on a freshly imported package",
     "Validators colliding on base URI, reference strings, remote URLs (store- and handler-served), regexes and format "
     "names: every interleaving of next()/close() steps of 2-3 iterators, and every schedule with <= 2 preemptions of 2-3 "
     "validating threads (call granularity; line granularity bound 1), gives each consumer exactly the errors of the "
     "reference-free equivalent schema and leaves its resolver's scope untouched.",
     "preemption at Python call/line boundaries only; GIL-atomic container operations assumed", "5 C18"),
    ("C14", "exploration", "exhaustive enumeration of documents x every path x both fragment spellings (positive) and of every non-addressing token per container (negative) vs. an independent RFC 6901/3986 codec; whole documents of every JSON type through every route; all ordered pairs of resolutions on one resolver",
     "For every document built from a 23-key hostile alphabet (nesting depth <= 2-3, arrays of length 0-3, distinct marker "
     "leaves) and EVERY path into it, in the minimal and the fully percent-encoded spelling, resolve_fragment returns the "
     "identical object and a validator with that $ref behaves as the marker schema; every token that addresses nothing "
     "(missing key, index = len, -, -1, 01, +1, ' 1', 1_0, 1.0, non-ASCII digits, any token on scalars and strings) raises "
     "RefResolutionError and nothing else.",
     "mc/ref/pointer.py written from the RFCs; documents deeper than 3 outside the bound", "5 C14"),
    ("C17", "exploration", "exhaustive enumeration of error collections in every arrival order vs. an independent path trie; every sequence of <= 2 lookups at every node followed by membership / iteration / totals",
     "For every error collection produced by singles + all ordered pairs (+ sibling groups) x U_d x 4 drafts, in EVERY arrival "
     "order (<= 5 errors; rotations + reversal above), ErrorTree construction does not raise, every error is found where its "
     "path says, membership/iteration/total_errors/len agree with a path trie, and indexing an existing error-free element "
     "of a fresh tree gives an empty tree.",
     "cap on permutations above 5 errors reported in the evidence; one open known finding (node instance after a propertyNames error)", "5 C17"),
    ("C19", "model_checking", "exhaustive enumeration of CLI configurations (instance lists as folded histories; schema / instance / stdin text shapes, file-name styles, error formats, validator and base-uri options) vs. a fold model; real subprocesses for a covering array",
     "Every combination of schema-file state x instance lists of length 0-3 (stdin for length 0) x output mode x error format "
     "x --validator x --base-uri (22.7k configurations through cli.run, 323 real `python -m jsonschema` processes as a "
     "strength-2 covering array) matches a fold over the list using the library's own iter_errors: exit status, stderr "
     "markers in order, one diagnostic per bad file, stdout success headers, every instance processed.",
     "wording of built-in templates is not pinned (markers and counts only); subprocess half is a covering array in the quick tier", "5 C19"),
    ("C20", "model_checking", "exhaustive enumeration of $schema spellings x bodies x entry points vs. a dict model; explicit-state exploration of registration / lookup histories (every route to validates(), re-registration of ids), each in a pristine process",
     "55 $schema spellings x 21 draft-discriminating bodies x 11 instances through validator_for / validate / cli.run follow the "
     "documented selection rule (registered id with or without '#', absent or boolean -> default, unknown -> latest + "
     "DeprecationWarning; explicit class wins; validate == best_match of the selected class); all registration histories to "
     "depth 3 (585) keep the whole $schema table consistent with a last-registration-wins dict model; registries restored.",
     "spellings that urlsplit normalises beyond the property's words (trailing '?', upper-case host) are kept out of the alphabet; one open known finding (whitespace/control characters)", "5 C20"),
]


def build():
    checks = []
    for cid, level, tech, text, note, ref in CHECKS:
        checks.append({
            "property_id": cid,
            "quick_cmd": "./check %s --tier quick" % cid,
            "thorough_cmd": "./check %s --tier thorough" % cid,
            "evidence_file": "/verif/evidence/%s.json" % cid,
            "replay_cmd_template": "./check %s --replay {path}" % cid,
            "engine": "mc",
            "level_claimed": {"category": level, "text": text, "design_ref": "DESIGN.md §" + ref},
            "level_note": note,
            "technique": tech,
        })
    claimed = {c[0] for c in CHECKS}
    props = [json.loads(l)["id"] for l in open(os.path.join(VERIF, "properties.jsonl"))]
    na = [{"property_id": p, "reason": NOT_YET.get(p, "check not built yet in this revision of /verif (planned, see DESIGN.md §5)")}
          for p in props if p not in claimed]
    return {
        "version": 1,
        "setup_cmd": "cd /verif && /venv/bin/python -m compileall -q mc >/dev/null && ./selftest/run.sh",
        "hooks": {
            "guard": "JSONSCHEMA_VERIF",
            "enable": "no source hooks are needed: every seam is public (resolver, store, handlers, cache functions, "
                      "format checker, cli.run streams) or patchable from outside (validators.urlopen, sys.settrace); "
                      "checks import /repo's working tree directly",
            "baseline_off_cmd": "cd /repo && /venv/bin/python -m pytest -ra -q -p no:cacheprovider --timeout=900 "
                                "--continue-on-collection-errors",
            "source_commits": [],
            "add_only": True,
        },
        "engines": [
            {"name": "mc", "path": "/verif/mc", "serves_properties": sorted(claimed),
             "kind_free_text": "hand-written bounded-exhaustive explorer for Python: E1 enumerates programs/inputs/"
                               "configurations against reference models; E2 explores operation histories, fault "
                               "sequences and schedules on live objects by replay-from-scratch"},
        ],
        "checks": checks,
        "notes": "All checks run the real code in /repo (VERIF_REPO overrides) under /venv/bin/python with PYTHONHASHSEED=0. "
                 "known_findings.json lists repaired defects (status fixed) and open findings.",
        "not_applicable": na,
    }


NOT_YET = {}

if __name__ == "__main__":
    m = build()
    with open(os.path.join(VERIF, "MANIFEST.json"), "w") as f:
        json.dump(m, f, indent=1)
    print("wrote MANIFEST.json with", len(m["checks"]), "checks;", len(m["not_applicable"]), "not yet claimed")
