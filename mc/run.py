"""./check <ID> [--tier quick|thorough] [--replay FILE] [--workers N]"""
import argparse
import importlib
import json
import os
import sys
import warnings


def main(argv=None):
    ap = argparse.ArgumentParser()
    ap.add_argument("id")
    ap.add_argument("--tier", default=os.environ.get("VERIF_TIER") or "quick",
                    choices=["quick", "thorough"])
    ap.add_argument("--replay")
    ap.add_argument("--workers", type=int,
                    default=int(os.environ.get("VERIF_WORKERS") or (os.cpu_count() or 4)))
    args = ap.parse_args(argv)
    if os.environ.get("PYTHONHASHSEED") != "0":
        os.environ["PYTHONHASHSEED"] = "0"
        os.execv(sys.executable, [sys.executable, "-m", "mc.run"] + (argv or sys.argv[1:]))

    from mc.core import harness
    repo = harness.bind_repo()
    warnings.simplefilter("ignore")
    seed = int(os.environ.get("VERIF_SEED") or 0)
    ctx = harness.Ctx(args.tier, seed, args.workers, repo)
    mod = importlib.import_module("mc.props." + args.id.lower())
    if args.replay:
        with open(args.replay) as f:
            body = json.load(f)
        if isinstance(body.get("case"), dict) and "crashed_unit" in body["case"]:
            if body["case"]["crashed_unit"] == "plan":
                try:
                    ctx.tier = body["case"].get("tier", ctx.tier)
                    mod.plan(ctx)
                    res = {"reproduced": False}
                except BaseException as e:
                    res = {"reproduced": True, "exception": "%s: %s" % (type(e).__name__, str(e)[:200])}
            else:
                res = harness.replay_crashed_unit(mod, ctx, body["case"])
        else:
            res = mod.replay(body["case"], ctx)
        print(harness.jdump(res, indent=1))
        print("REPRODUCED" if res.get("reproduced") else "NOT-REPRODUCED")
        return 1 if res.get("reproduced") else 0
    return harness.run_check(mod, ctx)


if __name__ == "__main__":
    sys.exit(main())
