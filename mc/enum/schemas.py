"""Per-draft schema grammars G(draft) (DESIGN §4): singles, ordered pairs,
sibling groups, nesting.  Everything is later filtered through the real
check_schema of the draft, so a list here may contain shapes a draft rejects.
"""
import itertools
import json

DRAFTS = (3, 4, 6, 7)

TYPES = ["null", "boolean", "integer", "number", "string", "array", "object"]
PATTERNS = ["a", "^a", "a$", "^a$", "b+", "^$", "a|b", "."]


def leaf(d, size="full"):
    """Leaf subschemas used to fill applicator slots (accept-all, reject-all,
    a type, a bound, an enum/const, a length, a required, a negation)."""
    L = [{}, {"type": "integer"}, {"type": "string"}, {"minimum": 1}, {"enum": [0]},
         {"maxLength": 1}, {"minItems": 1}]
    if d >= 6:
        L += [True, False, {"const": "a"}, {"required": ["a"]}]
    elif d == 4:
        L += [{"not": {}}, {"required": ["a"]}]
    else:
        L += [{"disallow": "any"}, {"properties": {"a": {"required": True}}}]
    if size == "small":
        return L[:4]
    return L


def singles(d, tier="quick"):
    """All (keyword, value) pairs of the single-keyword alphabet of draft d."""
    L = leaf(d)
    L3 = L[:4]
    out = []

    def add(k, vals):
        seen = set()
        for v in vals:
            key = json.dumps(v)
            if key not in seen:
                seen.add(key)
                out.append((k, v))

    types = TYPES + (["any"] if d == 3 else [])
    add("type", types + [["integer", "string"], ["number", "null"]] + (
        [[{"type": "string"}, "null"], [{"minimum": 1}, {"type": "string"}],
         ["null", {"minimum": 1}], ["string", {"type": "integer"}, "null", {"maxItems": 1}]] if d == 3 else []))
    add("enum", [[0], [1, "a"], [True], [None, []], [{}], [[0]], [{"a": 1}], [1.0], [False, "b"]])
    if d >= 6:
        add("const", [0, 1, True, False, "a", [], {}, None, [1], {"a": 1}, 1.0])
    add("minimum", [0, 1, 1.5, -1])
    add("maximum", [0, 1, 1.5, -1])
    if d >= 6:
        add("exclusiveMinimum", [0, 1, 1.5])
        add("exclusiveMaximum", [0, 1, 1.5])
    else:
        add("exclusiveMinimum", [True, False])
        add("exclusiveMaximum", [True, False])
    add("multipleOf" if d >= 4 else "divisibleBy", [1, 2, 0.5, 1.5])
    for k in ("minLength", "maxLength", "minItems", "maxItems"):
        add(k, [0, 1, 2])
    if d >= 4:
        for k in ("minProperties", "maxProperties"):
            add(k, [0, 1, 2])
        add("required", [["a"], ["a", "b"], ["b", "ab", "a"]] + ([[]] if d >= 6 else []))
    add("pattern", PATTERNS)
    add("uniqueItems", [True, False])
    add("properties", [{"a": s} for s in L] + [{"a": s1, "b": s2} for s1 in L3 for s2 in L3] + [{}])
    add("patternProperties", [{"a": s} for s in L] + [{"^a": s1, "b": s2} for s1 in L3 for s2 in L3] +
        [{"(b)c": {}, "(a)\\1": {}}, {"a$": {"type": "integer"}, "^a": {"minimum": 1}},
         {"b": {}}, {"b": {"type": "integer"}}, {"a$": {}}, {"b$": {"type": "string"}}])
    add("additionalProperties", [s for s in L if isinstance(s, dict)] + [True, False])
    add("items", [s for s in L if isinstance(s, dict) or d >= 6] + [[s] for s in L3] +
        [[s1, s2] for s1 in L3 for s2 in L3] + [[]] +
        [[{"type": "integer"}, {"type": "string"}, {"minimum": 1}]])
    add("additionalItems", [s for s in L if isinstance(s, dict)] + [True, False])
    if d >= 6:
        add("contains", L)
        add("propertyNames", [{"maxLength": 1}, {"pattern": "^a"}, True, False, {"const": "a"}, {}])
    add("dependencies", [{"a": ["b"]}, {"a": ["b", "ab"]}, {"a": ["b"], "b": ["ab"]}] +
        [{"a": s} for s in L if isinstance(s, dict) or d >= 6] +
        ([{"a": "b"}] if d == 3 else []) + ([{"a": []}] if d >= 6 else []))
    if d >= 4:
        for k in ("allOf", "anyOf", "oneOf"):
            add(k, [[s] for s in L] + [[s1, s2] for s1 in L3 for s2 in L3] +
                [[L[1], L[3], L[2]], [L[0], L[0], L[1]], [L[2], L[1], L[3]]])
        add("not", L)
    if d == 7:
        add("if", L3)
        add("then", L3)
        add("else", L3)
    if d == 3:
        add("extends", L + [[s1, s2] for s1 in L3 for s2 in L3] +
            [[{}, {}, {"type": "string"}], [{"type": "integer"}, {"minimum": 1}, {"maximum": 0}], []])
        add("disallow", types + [["integer", "string"], [{"minimum": 1}, "null"], ["null", {"minimum": 1}]])
    add("format", ["ipv4", "nope"])
    add("title", ["x"])
    add("default", [0])
    return out


def ordered_pairs(sg):
    """Every ordered pair of singles with two different keywords."""
    for (k1, v1), (k2, v2) in itertools.permutations(sg, 2):
        if k1 != k2:
            yield {k1: v1, k2: v2}


def sibling_groups(d, tier="quick"):
    """Full products for the keywords that consult siblings (triples and more)."""
    L3 = leaf(d)[:4]
    L2 = [{}, {"type": "integer"}]
    fl = [False, True, {"type": "string"}]
    out = []
    # properties x patternProperties x additionalProperties, in the six key orders
    props = [{"a": s} for s in L2] + [{"a": {}, "b": {"minimum": 1}}]
    pats = [{"a": s} for s in L2] + [{"^b": {"type": "integer"}}, {"a$": {}, "^a": {"type": "string"}},
                                      {"(b)c": {}, "(a)\\1": {}}, {"b": {}}, {"b$": {"type": "integer"}}]
    for p, pp, ap in itertools.product(props, pats, fl):
        trip = [("properties", p), ("patternProperties", pp), ("additionalProperties", ap)]
        for perm in itertools.permutations(trip):
            out.append(dict(perm))
    # items x additionalItems x a length keyword
    items = [[], [{}], [{"type": "integer"}], [{"type": "integer"}, {"type": "string"}], {}, {"type": "integer"}]
    if d >= 6:
        items += [True, False]
    for it, ai, extra in itertools.product(items, fl, [None, ("maxItems", 1), ("minItems", 2)]):
        base = [("items", it), ("additionalItems", ai)]
        if extra:
            base.append(extra)
        for perm in itertools.permutations(base):
            out.append(dict(perm))
    # bounds x exclusive flags (3/4) / numeric exclusives (6/7)
    if d <= 4:
        for mn, mx, emn, emx in itertools.product([None, 0, 1], [None, 1, 2], [None, True, False], [None, True, False]):
            base = [(k, v) for k, v in (("minimum", mn), ("maximum", mx), ("exclusiveMinimum", emn),
                                        ("exclusiveMaximum", emx)) if v is not None]
            if len(base) >= 3:
                out.append(dict(base))
                out.append(dict(reversed(base)))
    else:
        for mn, mx, emn, emx in itertools.product([None, 0, 1], [None, 1, 2], [None, 0, 1], [None, 1, 2]):
            base = [(k, v) for k, v in (("minimum", mn), ("maximum", mx), ("exclusiveMinimum", emn),
                                        ("exclusiveMaximum", emx)) if v is not None]
            if len(base) >= 3:
                out.append(dict(base))
                out.append(dict(reversed(base)))
    if d >= 6:
        # a `false` subschema next to an ordinary failing one, at the same depth (keyword-less errors in company)
        for s2 in ({"type": "string"}, {"minimum": 1}, {}):
            for k in ("allOf", "anyOf", "oneOf"):
                out.append({k: [False, s2]})
                out.append({k: [s2, False]})
            out.append({"items": [False, s2]})
            out.append({"items": [s2, False]})
            out.append({"properties": {"a": False, "b": s2}})
            out.append({"properties": {"b": s2, "a": False}})
            out.append({"properties": {"a": False}, "patternProperties": {"^a": s2}})
            out.append({"items": False, "contains": s2})
            out.append({"propertyNames": False, "additionalProperties": s2})
            out.append({"not": s2, "additionalProperties": False, "items": False})
            out.append({"dependencies": {"a": False, "b": s2}})
        if d == 7:
            out.append({"if": {}, "then": False, "else": {"type": "string"}})
            out.append({"if": False, "then": {"type": "string"}, "else": False})
    if d == 7:
        for i, t, e in itertools.product(L3, L3, L3):
            for perm in itertools.permutations([("if", i), ("then", t), ("else", e)]):
                out.append(dict(perm))
    if d == 3:
        for r1, r2 in itertools.product([True, False, None], repeat=2):
            pa = {"type": "integer"}
            pb = {}
            if r1 is not None:
                pa = dict(pa, required=r1)
            if r2 is not None:
                pb = dict(pb, required=r2)
            for ap in fl:
                out.append({"properties": {"a": pa, "b": pb}, "additionalProperties": ap})
                out.append({"additionalProperties": ap, "properties": {"b": pb, "a": pa}})
    return out


APPLICATOR_SLOTS = {
    # keyword -> function(list of subschemas) -> keyword value ; arity
    "properties": (lambda s: {"a": s[0]}, 1),
    "patternProperties": (lambda s: {"^a": s[0]}, 1),
    "additionalProperties": (lambda s: s[0], 1),
    "items": (lambda s: s[0], 1),
    "contains": (lambda s: s[0], 1),
    "propertyNames": (lambda s: s[0], 1),
    "not": (lambda s: s[0], 1),
    "dependencies": (lambda s: {"a": s[0]}, 1),
    "extends": (lambda s: s[0], 1),
}
LIST_APPLICATORS = ["allOf", "anyOf", "oneOf", "items", "extends", "type", "disallow"]


def has_kw(d, k):
    if k in ("allOf", "anyOf", "oneOf", "not"):
        return d >= 4
    if k in ("contains", "propertyNames"):
        return d >= 6
    if k in ("extends", "disallow"):
        return d == 3
    return True


def nested(d, tier="quick"):
    """Applicator in applicator (depth 2) and arity-3 list applicators."""
    L = leaf(d)
    inner_leaves = L if tier == "thorough" else L[:6]
    out = []
    # depth 1 singles produced here again only for arity 3 (singles() covers arity 1-2)
    L3 = L[:4]
    for k in LIST_APPLICATORS:
        if not has_kw(d, k):
            continue
        if k in ("type", "disallow") and d != 3:
            continue
        for trio in itertools.product(L3, repeat=3):
            if k in ("type", "disallow"):
                trio = [t for t in trio if isinstance(t, dict)]
                if len(trio) < 3:
                    continue
            out.append({k: list(trio)})
    # depth 2: every unary applicator around every depth-1 applicator schema
    inner = []
    for k, (mk, ar) in APPLICATOR_SLOTS.items():
        if has_kw(d, k):
            for s in inner_leaves:
                if k in ("items", "additionalProperties", "extends", "dependencies") and not isinstance(s, dict) and d < 6:
                    continue
                inner.append({k: mk([s])})
    for k in ("allOf", "anyOf", "oneOf"):
        if has_kw(d, k):
            for s1, s2 in itertools.product(L3, repeat=2):
                inner.append({k: [s1, s2]})
    if d == 7:
        for i, t in itertools.product(L3, repeat=2):
            inner.append({"if": i, "then": t})
            inner.append({"if": i, "else": t})
    for k, (mk, ar) in APPLICATOR_SLOTS.items():
        if not has_kw(d, k):
            continue
        for s in inner:
            out.append({k: mk([s])})
    for k in ("allOf", "anyOf", "oneOf"):
        if has_kw(d, k):
            for s in inner:
                out.append({k: [s, L[1]]})
                out.append({k: [L[2], s]})
    return out
