"""Bounded JSON value universes (DESIGN §4).  Ordered simplest-first."""
import itertools
import json


def dedup(values):
    seen = set()
    out = []
    for v in values:
        k = json.dumps(v, sort_keys=False)  # 1 and 1.0 and true stay distinct; key order kept
        if k not in seen:
            seen.add(k)
            out.append(v)
    return out


ATOMS = [None, True, False, 0, 1, -1, 2, 3, 1.0, 1.5, 0.5, "", "a", "b", "ab", "ba", "aa", "bc"]
ATOMS_T = ATOMS + ["é", "\U0001F600", "aab", 2.0, -0.0, 10, 0.25]

EXTRA = [
    {"a": None}, {"a": None, "b": 0}, [None], [0, None], [[2], [1]], [[1, "b"], [1, "a"]],
    {"ba": 0, "ab": "a"}, {"a": {"a": 0}}, {"a": [0, "a"]}, [[0], [0]], [[1], [1.0]],
    [{"a": 1}, {"a": 1.0}], {"aa": 0, "bc": 1}, [0, 1, 2], ["a", "a", "b"],
    [0, [0, "a"]], {"a": {"b": "a"}, "b": 1}, [{"a": 0}], [["a"]],
]


def arrays(elems, maxlen):
    for n in range(0, maxlen + 1):
        for t in itertools.product(elems, repeat=n):
            yield list(t)


def objects(keysets, vals):
    for ks in keysets:
        for vs in itertools.product(vals, repeat=len(ks)):
            yield dict(zip(ks, vs))


KEYSETS = [(), ("a",), ("b",), ("ab",), ("a", "b"), ("a", "ab"), ("b", "ab")]


def universe(tier):
    """U: every JSON type, every array length / key count in the bound."""
    if tier == "quick":
        u = list(ATOMS)
        u += list(arrays([0, 1, True, "a", []], 2))
        u += list(objects(KEYSETS, [0, 1, "a"]))
        u += EXTRA
    else:
        u = list(ATOMS_T)
        u += list(arrays([0, 1, True, "a", None, [], {}], 2))
        u += list(arrays([0, 1, "a"], 3))
        u += list(objects(KEYSETS + [("b", "a"), ("a", "b", "ab")], [0, 1, "a", [], {}]))
        u += EXTRA
        u += [[x] for x in EXTRA] + [{"a": x} for x in EXTRA] + [[0, x] for x in EXTRA]
    return dedup(u)


def universe_pairs_quick():
    u = [None, True, False, 0, 1, -1, 2, 1.0, 1.5, 0.5, "", "a", "b", "ab", "aa", "bc"]
    u += list(arrays([0, 1, "a"], 2))
    u += [[True], [[]], [0, []], [{}]]
    u += list(objects([(), ("a",), ("b",), ("a", "b"), ("b", "ab")], [0, "a"]))
    u += [{"a": None}, {"a": None, "b": 0}, [None], [[2], [1]],
          {"ba": 0, "ab": "a"}, {"a": 1, "b": 1}, {"a": {"a": 0}}, {"a": [0, "a"]}, [[0], [0]], {"aa": 0, "bc": 1},
          [0, 1, 2], ["a", "a", "b"], [{"a": 0}]]
    return dedup(u)


def universe_small():
    """~25 instances: every JSON type, most of them with several violations available."""
    return [None, True, 0, 1, 1.5, -1, "", "a", "ab", "aa", [], [0], [0, "a"], ["a", "a"], [1, 1.0],
            [0, 1, 2], [[0], [0]], {}, {"a": 0}, {"b": "a"}, {"a": "a", "b": 0}, {"b": 0, "ab": 0},
            {"aa": 0, "bc": 1}, {"a": {"a": 0}}, {"a": [0, "a"]}, {"ba": 0, "ab": "a"}, {"a": None, "b": 0},
            [[2], [1]], [None, 0]]


def universe_distinct_leaves():
    """U_d: pairwise distinct leaves so that a mis-located error is observable."""
    return [
        [10, 11, 12], {"a": 10, "b": [11, {"a": 12}]}, {"a": {"a": 10}, "b": 11},
        [[10, "x"], {"a": 11}], {"b": 1}, {"a": "s", "ab": 2, "ba": 3}, "s", 5,
        [1, 1, "a"], {"a": [10, "x", None], "b": {"a": "y", "b": 2.5}}, [["p", 7], ["q", 8]],
        {"ab": {"a": 1, "b": "t"}, "a": 0}, [{"a": 1, "b": 2}, {"a": "u"}, 3],
        {"0": "s", "12": [10, {"7": None}], "a": {"0": 1.5}},      # property names made of digits only
        {"a": None, "b": [None, [12, 11]]},                         # null members; an unsorted array of arrays
        # names whose rendering collides with a nested location ($.a.b, $.c[0])
        {"a.b": 1, "a": {"b": "s"}, "c[0]": None, "c": [2.5, "t"]},
    ]


# hostile keyword-value universe W (C03, C10, C11)
W = [
    None, True, False, 0, 1, -1, 2, 1.5, 0.5, 1.0, 1e308, 10 ** 400, "", "a", "integer", "any",
    "#", "#/definitions/a",
    [], [""], ["a"], ["a", "a"], ["a", "b"], [1], [{}], [{}, {}], [True], [False], [[]],
    ["integer", "null"], ["integer", "integer"], ["integer", {}], ["foo"],
    {}, {"a": {}}, {"a": []}, {"a": ["b"]}, {"a": ["b", "b"]}, {"a": "b"}, {"a": True},
    {"a": False}, {"a": 1}, {"a": {"required": True}}, {"": {}}, {"a": {"type": "integer"}},
    {"a": {"type": "foo"}}, {"type": 1},
]
