"""N — the number universe of C09 (DESIGN §5 C09), ordered simplest-first.

Every member is a finite Python int or float (never a bool).  1 and 1.0, 0.0
and -0.0 are distinct members: the implementation takes different paths for
ints and floats.  All integers stay below 4300 decimal digits (CPython's
int<->str limit, which also bounds what json.loads can produce).
"""
import math
import sys

MAXF = sys.float_info.max            # (2 - 2**-52) * 2**1023
MINSUB = math.ldexp(1.0, -1074)      # smallest subnormal
MINNORM = math.ldexp(1.0, -1022)
B53 = 2 ** 53
INF = float("inf")


def p2(k):
    return math.ldexp(1.0, k)


def neighbours(x):
    """x and the floats just below and above it (finite ones)."""
    out = [x]
    for y in (math.nextafter(x, -INF), math.nextafter(x, INF)):
        if not math.isinf(y):
            out.append(y)
    return out


def dedup(nums):
    seen, out = set(), []
    for x in nums:
        assert isinstance(x, (int, float)) and not isinstance(x, bool)
        assert isinstance(x, int) or math.isfinite(x)
        k = (type(x).__name__, repr(x))
        if k not in seen:
            seen.add(k)
            out.append(x)
    return out


BIG2000 = 10 ** 1999 + 7             # a 2000-digit integer (odd, not a power of ten)


def universe(tier):
    ints = [0, 1, -1, 2, -2, 3, 4, 6, 7, 10, 12,
            2 ** 26 - 1, 2 ** 26, B53 - 1, B53, B53 + 1, B53 + 2, -B53, -(B53 + 1),
            2 ** 64, 10 ** 22, 10 ** 23, 10 ** 308, 10 ** 309,
            2 ** 1023, int(MAXF), int(MAXF) + 1, 2 ** 1024,
            10 ** 400, -10 ** 400, BIG2000, -BIG2000, 2 * BIG2000]
    floats = [0.0, -0.0, 0.1, 0.3, 0.5, 0.75, 1.0, 1.5, 2.0, 2.5, 3.0, 0.25, -0.5, -1.0, -1.5, -2.0, 4.5, 6.0]
    ints += [5, 8, 9, 100, -3, -7, 2 ** 52, 2 ** 1024 + 1, 3 * 2 ** 1024, -(2 ** 64), -(10 ** 22)]
    # the band of 1024-bit integers: up to the rounding midpoint 2**1024 - 2**969 they convert to MAXF, from
    # it on float() overflows although the bit length is the same
    mid = 2 ** 1024 - 2 ** 969
    ints += [mid - 1, mid, mid + 1, 2 ** 1024 - 1, -(mid), -(2 ** 1024 - 1), 3 * 2 ** 1022]
    floats += [0.2, 0.7, 0.01, 0.0075, 0.0001, 1.1, 1e16, 1e17, -0.1, -0.75, 7.0, 7.5, 0.125, 123456789.125,
               4503599627370495.5, -3.0]
    powers = [-1074, -1022, -1000, -52, -26, -1, 26, 52, 53, 64, 1000, 1023]
    for k in powers:
        floats += neighbours(p2(k))
    floats += neighbours(1.0) + neighbours(2.0) + neighbours(0.5)
    floats += neighbours(1e22) + neighbours(1e23) + neighbours(float(2 ** 64)) + neighbours(1e308)
    floats += [MAXF, math.nextafter(MAXF, 0.0), -MAXF, MINSUB, 2 * MINSUB, 3 * MINSUB, -MINSUB,
               float(B53) + 2.0, -float(B53), -p2(1023), 3 * p2(-1022), 3 * p2(1000), 3 * p2(-1000),
               float(2 ** 26), float(2 ** 26 - 1), (2 ** 26 - 1) * p2(-26), (2 ** 26 + 1) * p2(-26)]
    if tier == "thorough":
        ks = [-1074, -1073, -1072, -1024, -1023, -1022, -1021, -1000, -538, -537, -100, -54, -53, -52, -51,
              -27, -26, -25, -3, -2, -1, 0, 1, 2, 3, 25, 26, 27, 51, 52, 53, 54, 63, 64, 65, 100, 511, 512,
              537, 538, 970, 971, 1000, 1021, 1022, 1023]
        for k in ks:
            floats += neighbours(p2(k)) + [3 * p2(k) if k < 1022 else p2(k), -p2(k), 5 * p2(k) if k < 1021 else p2(k)]
            if k >= 0:
                ints += [2 ** k, 2 ** k + 1, 2 ** k - 1, 3 * 2 ** k, -(2 ** k)]
        ints += [2 ** 1024 + 1, 2 ** 1025, 2 ** 2000, 3 * 2 ** 1024, 5, 8, 9, 15, 16, 100, 1000, -3, -7, -10]
        for e in list(range(1, 24)) + [100, 307, 308, 309, 400, 1000, 4000]:
            ints += [10 ** e, 10 ** e + 1, -(10 ** e)]
            if e <= 308:
                floats += neighbours(float(10 ** e))
                floats += [float("1e-%d" % e)]
        floats += [0.2, 0.7, 0.01, 0.0075, 0.0001, 1.1, 2.2, 3.3, 1e-5, 123456789.125, 0.125, 0.375, 7.0, 7.5,
                   -0.1, -0.75, -2.5, 1e16, 1e17, 9007199254740993.0, 4503599627370495.5, 4503599627370496.5]
        ints += [3 * BIG2000, BIG2000 + 1, 10 ** 4000 + 1]
    return dedup(ints + floats)
