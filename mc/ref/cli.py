"""Fold model of the ``jsonschema`` command line (DESIGN §5 C19; reused by C20).

The model knows nothing about jsonschema/cli.py.  It is a left fold over the
instance list whose state is one bit (the exit status so far) plus the output
produced so far:

    schema unreadable / unparsable       -> one diagnostic, status non-zero, stop
    the library cannot say which class the loaded value selects (raises X)
                                         -> non-zero (the command may die with X), no instance touched, stop
    selected class rejects the schema    -> that SchemaError through the format, non-zero, stop
    for each instance, in order:
        unreadable / unparsable          -> one diagnostic, status := non-zero, continue
        library reports errors e1..ek    -> e1..ek through the format, status := non-zero, continue
        library reports none             -> one success notice on stdout (pretty only), continue
        library raises X                 -> the command must not report success (it may
                                            die with X); nothing is claimed afterwards

"the library" = a *fresh* validator of the class the command line has to
select, built exactly as a user would build it (``cls(schema)`` or, with
--base-uri, ``cls(schema, resolver=RefResolver(base_uri, schema))``).

Whether the *text* of a file (or of stdin) "loads" is decided by the ``json``
module itself: a description with state ``"text"`` carries the characters the
command line will read, and the model calls ``json.loads`` on them (so empty
files, white space, trailing data after a complete value, a byte order mark ...
are whatever the standard library says they are).

``compare`` checks an observation against the fold without pinning the
wording of any built-in template: exact text is compared only where the
caller supplied the format string (the marker format).
"""

import json

UNREADABLE = ("missing", "notjson")


def class_of(e):
    return type(e).__name__


def load(desc):
    """desc: dict(token, state, value | text) -> (loads?, value).
    state: missing | notjson (never loads), json (``value`` given), text (``json.loads`` decides)."""
    if desc["state"] in UNREADABLE:
        return False, None
    if desc["state"] == "text":
        try:
            return True, json.loads(desc["text"])
        except ValueError:
            return False, None
    return True, desc["value"]


def expect(jsonschema, cls, schema, instances, base_uri=None, memo=None, select=None):
    """schema: dict(token, state in missing|notjson|json|text, value or text)
    instances: list of dict(token, state, value or text).
    cls: the class the command line has to use; or, with ``select``, a function
    loaded schema value -> class that is asked once the schema has loaded (it
    may raise: the library has no answer).
    memo: optional dict, private to one (jsonschema, cls/select, schema, base_uri):
    every step of the fold is a pure function of the file it looks at (a fresh
    validator per instance), so its result is kept under the file's ``key``
    (a hashable name of its content, given by the caller; never "schema").
    Returns dict(schema_failure, items, nonzero)."""
    if memo is None:
        memo = {}
    if "schema" not in memo:
        memo["schema"] = _schema_step(jsonschema, cls, schema, select)
    failure, value, cls = memo["schema"]
    if failure is not None:
        return {"schema_failure": failure, "items": [], "nonzero": True}
    items, nonzero = [], False
    for inst in instances:
        key = inst.get("key")       # names the file's content; without one the step is not kept
        if key is None:
            item = _instance_step(jsonschema, cls, value, inst, base_uri)
        else:
            if key not in memo:
                memo[key] = _instance_step(jsonschema, cls, value, inst, base_uri)
            item = memo[key]
        items.append(item)
        if item[0] != "ok":
            nonzero = True
        if item[0] == "crash":      # the library itself has no answer for this instance
            break
    return {"schema_failure": None, "items": items, "nonzero": nonzero}


def _schema_step(jsonschema, cls, schema, select):
    ok, value = load(schema)
    if not ok:
        return ("diag", schema["token"]), None, None
    if select is not None:
        try:
            cls = select(value)
        except Exception as e:
            return ("crash", class_of(e)), None, None
    try:
        cls.check_schema(value)
    except jsonschema.exceptions.SchemaError as e:
        return ("err", e), None, None
    return None, value, cls


def _instance_step(jsonschema, cls, schema_value, inst, base_uri):
    ok, value = load(inst)
    if not ok:
        return ("diag", inst["token"])
    if base_uri is None:
        v = cls(schema_value)
    else:
        v = cls(schema_value, resolver=jsonschema.RefResolver(base_uri=base_uri, referrer=schema_value))
    try:
        errors = list(v.iter_errors(value))
    except Exception as e:
        return ("crash", class_of(e), inst["token"])
    if errors:
        return ("errs", errors, inst["token"])
    return ("ok", inst["token"])


def coarse(exp):
    """Coarse description of the expected fold, used for signatures and outcome classes."""
    if exp["schema_failure"] is not None:
        return "schema-" + {"diag": "unreadable", "err": "rejected", "crash": "library-raises"}[exp["schema_failure"][0]]
    names = {"diag": "unreadable", "errs": "invalid", "ok": "valid", "crash": "library-raises"}
    return ",".join(names[i[0]] for i in exp["items"]) or "empty"


def _occurrences(text, tokens):
    """All occurrences of any of the tokens in text, in order of position."""
    found = []
    for t in set(tokens):
        start = 0
        while True:
            i = text.find(t, start)
            if i < 0:
                break
            found.append((i, t))
            start = i + len(t)
    return [t for _, t in sorted(found)]


def _collapse(seq):
    out = []
    for t in seq:
        if not out or out[-1] != t:
            out.append(t)
    return out


def compare(exp, obs, out, fmt, all_tokens):
    """obs: dict(status=int or None, raised=type name or None, stdout, stderr).
    out: 'plain' | 'pretty'; fmt: the marker format string or None.
    all_tokens: every file token of the configuration (schema + instances),
    pairwise not substrings of one another.
    Returns None or (kind, detail)."""
    crash = [i for i in exp["items"] if i[0] == "crash"]
    if exp["schema_failure"] is not None and exp["schema_failure"][0] == "crash":
        crash = [exp["schema_failure"]]
    # ---- status -------------------------------------------------------------
    if obs["raised"] is not None:
        if not crash:
            return ("exception-" + obs["raised"], {"expected": coarse(exp)})
        status_nonzero = True
    else:
        status_nonzero = obs["status"] != 0
    if obs["status"] is not None and not isinstance(obs["status"], int):
        return ("status-not-int", {"status": repr(obs["status"])})
    if status_nonzero != exp["nonzero"]:
        return ("status", {"expected_nonzero": exp["nonzero"], "observed_status": obs["status"],
                           "expected_fold": coarse(exp)})
    stdout, stderr = obs["stdout"], obs["stderr"]
    inst_tokens = [t for t in all_tokens if t != all_tokens[0]]

    # ---- schema failure: exactly one diagnostic, no instance touched ---------
    if exp["schema_failure"] is not None:
        kind, what = exp["schema_failure"]
        if stdout != "":
            return ("schema-failure-stdout", {"stdout": stdout[:300]})
        touched = _occurrences(stderr, inst_tokens)
        if touched:
            return ("schema-failure-instance-processed", {"mentioned": touched, "stderr": stderr[:300]})
        if kind == "crash":
            pass        # a traceback may or may not be written; nothing more is claimed
        elif kind == "diag":
            n = stderr.count(what)
            if n < 1 or (out == "plain" and n != 1):
                return ("schema-failure-diagnostic", {"schema_file_mentions": n, "stderr": stderr[:300]})
        else:
            if fmt is not None:
                want = fmt.format(error=what)
                if stderr != want:
                    return ("schema-failure-marker", {"expected": want, "stderr": stderr[:300]})
            elif stderr.count(what.message) != 1:
                return ("schema-failure-error-count", {"message": what.message, "stderr": stderr[:300]})
        return None

    # ---- stdout --------------------------------------------------------------
    valid_tokens = [i[1] for i in exp["items"] if i[0] == "ok"]
    if out == "plain":
        if stdout != "":
            return ("stdout-not-empty-in-plain", {"stdout": stdout[:300]})
    elif not crash:
        seen = _occurrences(stdout, all_tokens)
        if seen != valid_tokens:
            return ("stdout-success-headers", {"expected_headers_for": valid_tokens, "files_mentioned": seen})
    else:   # library raised: only the prefix is claimed
        seen = _occurrences(stdout, all_tokens)
        if seen[:len(valid_tokens)] != valid_tokens:
            return ("stdout-success-headers", {"expected_prefix": valid_tokens, "files_mentioned": seen})

    # ---- stderr --------------------------------------------------------------
    if fmt is not None:
        # exact: markers compared literally; between markers only diagnostics,
        # one per unreadable file, mentioning that file exactly once, in order
        marker_open = fmt.split("{", 1)[0]
        pos = 0
        i = 0
        items = exp["items"]
        while i < len(items):
            it = items[i]
            if it[0] == "errs":
                for e in it[1]:
                    want = fmt.format(error=e)
                    if not stderr.startswith(want, pos):
                        return ("stderr-marker", {"at": pos, "expected_next": want,
                                                  "observed_next": stderr[pos:pos + len(want) + 40],
                                                  "expected_fold": coarse(exp)})
                    pos += len(want)
                i += 1
            elif it[0] == "ok":
                i += 1
            elif it[0] == "crash":
                break       # a traceback may or may not follow; nothing claimed
            else:
                run = []
                while i < len(items) and items[i][0] in ("diag", "ok"):
                    if items[i][0] == "diag":
                        run.append(items[i][1])
                    i += 1
                nxt = stderr.find(marker_open, pos)
                if i < len(items) and items[i][0] == "crash":
                    seg_end = nxt if nxt >= 0 else len(stderr)
                    seg = stderr[pos:seg_end]
                    seen = _occurrences(seg, all_tokens)
                    if seen[:len(run)] != run:
                        return ("stderr-diagnostics", {"expected_files": run, "files_mentioned": seen})
                    pos = seg_end
                    continue
                seg_end = nxt if nxt >= 0 else len(stderr)
                seg = stderr[pos:seg_end]
                seen = _occurrences(seg, all_tokens)
                if seen != run:
                    return ("stderr-diagnostics", {"expected_one_diagnostic_each_for": run,
                                                   "files_mentioned": seen, "segment": seg[:300],
                                                   "expected_fold": coarse(exp)})
                pos = seg_end
        if not crash and pos != len(stderr):
            return ("stderr-extra-output", {"extra": stderr[pos:pos + 300], "expected_fold": coarse(exp)})
        return None

    # built-in templates: wording not pinned.  Every expected error message
    # and every unreadable file must show up, in order; counts must match.
    pos = 0
    need = {}
    for it in exp["items"]:
        if it[0] == "errs":
            for e in it[1]:
                j = stderr.find(e.message, pos)
                if j < 0:
                    return ("stderr-error-missing-or-out-of-order", {"message": e.message, "file": it[2],
                                                                      "expected_fold": coarse(exp)})
                pos = j + len(e.message)
                need[e.message] = need.get(e.message, 0) + 1
        elif it[0] == "diag":
            j = stderr.find(it[1], pos)
            if j < 0:
                return ("stderr-diagnostic-missing-or-out-of-order", {"file": it[1], "expected_fold": coarse(exp)})
            pos = j + len(it[1])
        elif it[0] == "crash":
            return None
    msgs = sorted(need)
    overlap = any(a != b and a in b for a in msgs for b in msgs)
    if not overlap:
        for m, n in need.items():
            if stderr.count(m) != n:
                return ("stderr-error-count", {"message": m, "expected": n, "observed": stderr.count(m)})
    mentioned = set(_occurrences(stderr, all_tokens))
    unread = [i[1] for i in exp["items"] if i[0] == "diag"]
    # a valid instance must not be mentioned on stderr at all; an unreadable
    # one must be (how often its diagnostic names it is template wording)
    for t in valid_tokens:
        if t in mentioned:
            return ("stderr-mentions-valid-instance", {"file": t, "stderr": stderr[:300]})
    if not need and not unread and stderr != "":
        return ("stderr-extra-output", {"extra": stderr[:300]})
    return None
