"""Fold model of the ``jsonschema`` command line (DESIGN §5 C19; reused by C20).

The model knows nothing about jsonschema/cli.py.  It is a left fold over the
instance list whose state is one bit (the exit status so far) plus the output
produced so far:

    schema unreadable / unparsable       -> one diagnostic, status non-zero, stop
    the library cannot say which class the loaded value selects (raises X)
                                         -> non-zero (the command may die with X), no instance touched, stop
    selected class rejects the schema    -> that SchemaError through the format, non-zero, stop
    for each instance, in order:
        unreadable / unparsable          -> one diagnostic, status := non-zero, continue
        library reports errors e1..ek    -> e1..ek through the format, status := non-zero, continue
        library reports none             -> one success notice on stdout (pretty only), continue
        library raises X                 -> the command must not report success (it may
                                            die with X); nothing is claimed afterwards

"the library" = a *fresh* validator of the class the command line has to
select, built exactly as a user would build it (``cls(schema)`` or, with
--base-uri, ``cls(schema, resolver=RefResolver(base_uri, schema))``).

Whether the *text* of a file (or of stdin) "loads" is decided by the ``json``
module itself: a description with state ``"text"`` carries the characters the
command line will read, and the model calls ``json.loads`` on them (so empty
files, white space, trailing data after a complete value, a byte order mark ...
are whatever the standard library says they are).

``compare`` checks an observation against the fold without pinning the
wording of any built-in template: exact text is compared only where the
caller supplied the format string (any string: a marker format, the empty
string, a format without placeholders ...).
"""

import json

UNREADABLE = ("missing", "notjson")


def class_of(e):
    return type(e).__name__


def load(desc):
    """desc: dict(token, state, value | text) -> (loads?, value).
    state: missing | notjson (never loads), json (``value`` given), text (``json.loads`` decides)."""
    if desc["state"] in UNREADABLE:
        return False, None
    if desc["state"] == "text":
        try:
            return True, json.loads(desc["text"])
        except ValueError:
            return False, None
    return True, desc["value"]


def expect(jsonschema, cls, schema, instances, base_uri=None, memo=None, select=None):
    """schema: dict(token, state in missing|notjson|json|text, value or text)
    instances: list of dict(token, state, value or text).
    cls: the class the command line has to use; or, with ``select``, a function
    loaded schema value -> class that is asked once the schema has loaded (it
    may raise: the library has no answer).
    memo: optional dict, private to one (jsonschema, cls/select, schema, base_uri):
    every step of the fold is a pure function of the file it looks at (a fresh
    validator per instance), so its result is kept under the file's ``key``
    (a hashable name of its content, given by the caller; never "schema").
    Returns dict(schema_failure, items, nonzero)."""
    if memo is None:
        memo = {}
    if "schema" not in memo:
        memo["schema"] = _schema_step(jsonschema, cls, schema, select)
    failure, value, cls = memo["schema"]
    if failure is not None:
        return {"schema_failure": failure, "items": [], "nonzero": True}
    items, nonzero = [], False
    for inst in instances:
        key = inst.get("key")       # names the file's content; without one the step is not kept
        if key is None:
            item = _instance_step(jsonschema, cls, value, inst, base_uri)
        else:
            if key not in memo:
                memo[key] = _instance_step(jsonschema, cls, value, inst, base_uri)
            item = memo[key]
        items.append(item)
        if item[0] != "ok":
            nonzero = True
        if item[0] == "crash":      # the library itself has no answer for this instance
            break
    return {"schema_failure": None, "items": items, "nonzero": nonzero}


def _schema_step(jsonschema, cls, schema, select):
    ok, value = load(schema)
    if not ok:
        return ("diag", schema["token"]), None, None
    if select is not None:
        try:
            cls = select(value)
        except Exception as e:
            return ("crash", class_of(e)), None, None
    try:
        cls.check_schema(value)
    except jsonschema.exceptions.SchemaError as e:
        return ("err", e), None, None
    return None, value, cls


def _instance_step(jsonschema, cls, schema_value, inst, base_uri):
    ok, value = load(inst)
    if not ok:
        return ("diag", inst["token"])
    if base_uri is None:
        v = cls(schema_value)
    else:
        v = cls(schema_value, resolver=jsonschema.RefResolver(base_uri=base_uri, referrer=schema_value))
    try:
        errors = list(v.iter_errors(value))
    except Exception as e:
        return ("crash", class_of(e), inst["token"])
    if errors:
        return ("errs", errors, inst["token"])
    return ("ok", inst["token"])


def coarse(exp):
    """Coarse description of the expected fold, used for signatures and outcome classes."""
    if exp["schema_failure"] is not None:
        return "schema-" + {"diag": "unreadable", "err": "rejected", "crash": "library-raises"}[exp["schema_failure"][0]]
    names = {"diag": "unreadable", "errs": "invalid", "ok": "valid", "crash": "library-raises"}
    return ",".join(names[i[0]] for i in exp["items"]) or "empty"


def _occurrences(text, tokens):
    """All occurrences of any of the tokens in text, in order of position."""
    found = []
    for t in set(tokens):
        start = 0
        while True:
            i = text.find(t, start)
            if i < 0:
                break
            found.append((i, t))
            start = i + len(t)
    return [t for _, t in sorted(found)]


def _collapse(seq):
    out = []
    for t in seq:
        if not out or out[-1] != t:
            out.append(t)
    return out


def _all_finds(text, what, start):
    out = []
    i = text.find(what, start)
    while i >= 0:
        out.append(i)
        i = text.find(what, i + 1)
    return out


def _match_exact(exp, stderr, fmt, all_tokens):
    """The caller supplied the format (any string, the empty one included), so stderr is known
    exactly except for the wording of the diagnostics: it has to be, in order, ``fmt`` applied to
    every error the library reports, and between those, for every run of unreadable files, a
    stretch of text that mentions exactly those files, each once, in order (and no other file).
    After an instance on which the library raises nothing is claimed.
    The stretch for a run ends where the next expected text begins; where that is ambiguous
    (a format like "0" may also occur inside a diagnostic) every possibility is tried."""
    parts = []          # ("lit", text) | ("gap", [tokens]) | ("any",)
    for it in exp["items"]:
        if it[0] == "errs":
            text = "".join(fmt.format(error=e) for e in it[1])
            if text:
                if parts and parts[-1][0] == "lit":
                    parts[-1] = ("lit", parts[-1][1] + text)
                else:
                    parts.append(("lit", text))
        elif it[0] == "diag":
            if parts and parts[-1][0] == "gap":
                parts[-1][1].append(it[1])
            else:
                parts.append(("gap", [it[1]]))
        elif it[0] == "crash":
            parts.append(("any",))
            break
    best = [0, 0]       # furthest part reached, and where
    memo = {}

    def go(i, pos):
        key = (i, pos)
        if key in memo:
            return memo[key]
        if [i, pos] > best:
            best[:] = [i, pos]
        if i == len(parts):
            ok = pos == len(stderr)
        elif parts[i][0] == "any":
            ok = True
        elif parts[i][0] == "lit":
            ok = stderr.startswith(parts[i][1], pos) and go(i + 1, pos + len(parts[i][1]))
        else:
            run = parts[i][1]
            if i + 1 < len(parts) and parts[i + 1][0] == "any":     # a traceback may follow and mention more files
                ok = _occurrences(stderr[pos:], all_tokens)[:len(run)] == run
            else:
                ends = [len(stderr)] if i + 1 == len(parts) else _all_finds(stderr, parts[i + 1][1], pos)
                ok = any(_occurrences(stderr[pos:e], all_tokens) == run and go(i + 1, e) for e in ends)
        memo[key] = ok
        return ok

    if go(0, 0):
        return None
    i, pos = best
    if i >= len(parts):
        return ("stderr-extra-output", {"extra": stderr[pos:pos + 300], "expected_fold": coarse(exp)})
    if parts[i][0] == "lit":
        return ("stderr-marker", {"at": pos, "expected_next": parts[i][1][:300],
                                  "observed_next": stderr[pos:pos + len(parts[i][1]) + 40][:400],
                                  "expected_fold": coarse(exp)})
    return ("stderr-diagnostics", {"expected_one_diagnostic_each_for": parts[i][1],
                                   "files_mentioned": _occurrences(stderr[pos:], all_tokens),
                                   "segment": stderr[pos:pos + 300], "expected_fold": coarse(exp)})


def compare(exp, obs, out, fmt, all_tokens):
    """obs: dict(status=int or None, raised=type name or None, stdout, stderr).
    out: 'plain' | 'pretty'; fmt: the marker format string or None.
    all_tokens: every file token of the configuration (schema + instances),
    pairwise not substrings of one another.
    Returns None or (kind, detail)."""
    crash = [i for i in exp["items"] if i[0] == "crash"]
    if exp["schema_failure"] is not None and exp["schema_failure"][0] == "crash":
        crash = [exp["schema_failure"]]
    # ---- status -------------------------------------------------------------
    if obs["raised"] is not None:
        if not crash:
            return ("exception-" + obs["raised"], {"expected": coarse(exp)})
        status_nonzero = True
    else:
        status_nonzero = obs["status"] != 0
    if obs["status"] is not None and not isinstance(obs["status"], int):
        return ("status-not-int", {"status": repr(obs["status"])})
    if status_nonzero != exp["nonzero"]:
        return ("status", {"expected_nonzero": exp["nonzero"], "observed_status": obs["status"],
                           "expected_fold": coarse(exp)})
    stdout, stderr = obs["stdout"], obs["stderr"]
    inst_tokens = [t for t in all_tokens if t != all_tokens[0]]

    # ---- schema failure: exactly one diagnostic, no instance touched ---------
    if exp["schema_failure"] is not None:
        kind, what = exp["schema_failure"]
        if stdout != "":
            return ("schema-failure-stdout", {"stdout": stdout[:300]})
        touched = _occurrences(stderr, inst_tokens)
        if touched:
            return ("schema-failure-instance-processed", {"mentioned": touched, "stderr": stderr[:300]})
        if kind == "crash":
            pass        # a traceback may or may not be written; nothing more is claimed
        elif kind == "diag":
            n = stderr.count(what)
            if n < 1 or (out == "plain" and n != 1):
                return ("schema-failure-diagnostic", {"schema_file_mentions": n, "stderr": stderr[:300]})
        else:
            if fmt is not None:
                want = fmt.format(error=what)
                if stderr != want:
                    return ("schema-failure-marker", {"expected": want, "stderr": stderr[:300]})
            elif stderr.count(what.message) != 1:
                return ("schema-failure-error-count", {"message": what.message, "stderr": stderr[:300]})
        return None

    # ---- stdout --------------------------------------------------------------
    valid_tokens = [i[1] for i in exp["items"] if i[0] == "ok"]
    if out == "plain":
        if stdout != "":
            return ("stdout-not-empty-in-plain", {"stdout": stdout[:300]})
    elif not crash:
        seen = _occurrences(stdout, all_tokens)
        if seen != valid_tokens:
            return ("stdout-success-headers", {"expected_headers_for": valid_tokens, "files_mentioned": seen})
    else:   # library raised: only the prefix is claimed
        seen = _occurrences(stdout, all_tokens)
        if seen[:len(valid_tokens)] != valid_tokens:
            return ("stdout-success-headers", {"expected_prefix": valid_tokens, "files_mentioned": seen})

    # ---- stderr --------------------------------------------------------------
    if fmt is not None:
        return _match_exact(exp, stderr, fmt, all_tokens)

    # built-in templates: wording not pinned.  Every expected error message
    # and every unreadable file must show up, in order; counts must match.
    pos = 0
    need = {}
    for it in exp["items"]:
        if it[0] == "errs":
            for e in it[1]:
                j = stderr.find(e.message, pos)
                if j < 0:
                    return ("stderr-error-missing-or-out-of-order", {"message": e.message, "file": it[2],
                                                                      "expected_fold": coarse(exp)})
                pos = j + len(e.message)
                need[e.message] = need.get(e.message, 0) + 1
        elif it[0] == "diag":
            j = stderr.find(it[1], pos)
            if j < 0:
                return ("stderr-diagnostic-missing-or-out-of-order", {"file": it[1], "expected_fold": coarse(exp)})
            pos = j + len(it[1])
        elif it[0] == "crash":
            return None
    msgs = sorted(need)
    overlap = any(a != b and a in b for a in msgs for b in msgs)
    if not overlap:
        for m, n in need.items():
            if stderr.count(m) != n:
                return ("stderr-error-count", {"message": m, "expected": n, "observed": stderr.count(m)})
    mentioned = set(_occurrences(stderr, all_tokens))
    unread = [i[1] for i in exp["items"] if i[0] == "diag"]
    # a valid instance must not be mentioned on stderr at all; an unreadable
    # one must be (how often its diagnostic names it is template wording)
    for t in valid_tokens:
        if t in mentioned:
            return ("stderr-mentions-valid-instance", {"file": t, "stderr": stderr[:300]})
    if not need and not unread and stderr != "":
        return ("stderr-extra-output", {"extra": stderr[:300]})
    return None
