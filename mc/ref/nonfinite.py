"""The reference evaluator (mc/ref/spec.py) over the extended reals.

`json.loads` turns the number literals 1e999 / -1e999 (and the non-standard
Infinity / -Infinity / NaN tokens) into the floats inf / -inf / nan, so they
reach check_schema as part of ordinary documents.  spec.py does all numeric
work with `Fraction`, which has no such values.  This module is a *second
instance of the very same evaluator source* in which the two numeric entry
points it uses are replaced:

  Fraction(x)    -> an extended real for inf / -inf (ordered below / above every
                    finite number, equal to itself), `Fraction(x)` otherwise;
  math.floor(x)  -> "no integer" for a non-finite x (so that
                    `x == math.floor(x)`, the draft 6+ integer test, is false).

What JSON Schema means by comparing or equating NaN is not defined by anything.
`verdict` therefore evaluates the schema under *every* assignment of answers
to the NaN comparisons / equality tests it meets (a depth-first enumeration of
the answer strings; the k-th such operation of a run gets the k-th answer): if
all runs agree the verdict is definite (e.g. {"minLength": NaN} is refused by
"type": "integer" whatever `NaN < 0` is taken to mean), otherwise `Ambiguous`
(a subclass of spec.Unsupported) is raised and the caller demands only that no
exception other than SchemaError escapes.  Dividing by / into a non-finite
number (multipleOf) is ambiguous as well; the bundled metaschemas never do it.
"type" is never ambiguous: inf, -inf and nan are numbers and are not integers.
"""
import inspect
import math
import types
from fractions import Fraction

from mc.ref import spec


class Ambiguous(spec.Unsupported):
    """The verdict depends on an operation on NaN (or arithmetic on an infinity)."""


def nonfinite(x):
    return isinstance(x, float) and (x != x or x in (float("inf"), float("-inf")))


def contains_nonfinite(x):
    if isinstance(x, float):
        return nonfinite(x)
    if isinstance(x, list):
        return any(contains_nonfinite(e) for e in x)
    if isinstance(x, dict):
        return any(contains_nonfinite(e) for e in x.values())
    return False


_answers = []      # answers given to the NaN operations of the current run, in order
_asked = [0]


def _ask():
    i = _asked[0]
    _asked[0] += 1
    if i == len(_answers):
        _answers.append(False)
    return _answers[i]


class XReal(object):
    """+inf (sign 1), -inf (sign -1) or NaN (sign 0) next to Fractions."""
    __slots__ = ("sign",)

    def __init__(self, sign):
        self.sign = sign

    def _other(self, other):
        # -> the sign of an infinity / 0 for a finite rational / None for anything that is not a number
        if isinstance(other, XReal):
            return other.sign
        if isinstance(other, (int, Fraction)) and not isinstance(other, bool):
            return 0
        return None

    def _cmp(self, other, op):
        o = self._other(other)
        if o is None:
            return NotImplemented
        if self.sign == 0 or (isinstance(other, XReal) and other.sign == 0):
            return _ask()
        c = (self.sign > o) - (self.sign < o)
        return {"eq": c == 0, "lt": c < 0, "le": c <= 0, "gt": c > 0, "ge": c >= 0}[op]

    def __eq__(self, other):
        return self._cmp(other, "eq")

    def __ne__(self, other):
        r = self.__eq__(other)
        return r if r is NotImplemented else not r

    def __hash__(self):
        return hash(("xreal", self.sign))

    def __lt__(self, other):
        return self._cmp(other, "lt")

    def __le__(self, other):
        return self._cmp(other, "le")

    def __gt__(self, other):
        return self._cmp(other, "gt")

    def __ge__(self, other):
        return self._cmp(other, "ge")

    def _arith(self, other):
        raise Ambiguous("arithmetic on a non-finite number")

    __truediv__ = __rtruediv__ = __mul__ = __rmul__ = __add__ = __radd__ = __sub__ = __rsub__ = _arith
    __mod__ = __rmod__ = __floordiv__ = __rfloordiv__ = _arith

    def __repr__(self):
        return {1: "XReal(+inf)", -1: "XReal(-inf)", 0: "XReal(nan)"}[self.sign]


def xfraction(x, *rest):
    if not rest and nonfinite(x):
        return XReal(0 if x != x else (1 if x > 0 else -1))
    return Fraction(x, *rest)


class _Math(object):
    def __getattr__(self, name):
        return getattr(math, name)

    @staticmethod
    def floor(x):
        if nonfinite(x):
            return None          # equal to no number: a non-finite number is not an integer
        return math.floor(x)


def _second_instance():
    mod = types.ModuleType("mc.ref.spec_over_extended_reals")
    mod.__file__ = spec.__file__
    exec(compile(inspect.getsource(spec), spec.__file__, "exec"), mod.__dict__)
    mod.Unsupported = spec.Unsupported
    mod.Fraction = xfraction
    mod.math = _Math()
    return mod


xspec = _second_instance()


def verdict(draft, S, x, max_runs=64):
    """True / False: x is valid / invalid under S whatever NaN comparisons mean; Ambiguous otherwise."""
    seen = set()
    prefix = []
    runs = 0
    while True:
        runs += 1
        if runs > max_runs:
            raise Ambiguous("more than %d assignments of NaN answers" % max_runs)
        _answers[:] = prefix
        _asked[0] = 0
        seen.add(not xspec.errs(draft, S, x))
        if len(seen) > 1:
            raise Ambiguous("the verdict depends on what a comparison with NaN means")
        # next answer string in depth-first order: flip the last False that was actually used
        used = _answers[:_asked[0]]
        while used and used[-1] is True:
            used.pop()
        if not used:
            return seen.pop()
        used[-1] = True
        prefix = used
