"""Designation model for `$ref` (C02, C06): which schema does a reference designate?

base URI  = RFC 3986 join (urllib.parse.urljoin, trusted) of the ids met
            lexically on the evaluation path, starting from the root's id;
document  = the root document or the store / handler document whose
            (defragmented, scheme-lower-cased) URL equals the reference's;
target    = RFC 6901 walk with mc/ref/pointer.py.
After a hop the base is the resolved URL of the reference (base changes that
lie off the evaluation path are outside the property, upstream issue 371).

inline() rewrites a schema into a reference-free one by writing the designated
schema in place of every reference, unrolling recursion to a given depth.
"""
from urllib.parse import urldefrag, urljoin

from mc.ref import pointer

IDK = {3: "id", 4: "id", 6: "$id", 7: "$id"}

MAP_KW = ("properties", "patternProperties", "definitions")          # name -> schema
SCHEMA_KW = {
    3: ("additionalProperties", "additionalItems", "items", "extends"),
    4: ("additionalProperties", "additionalItems", "items", "not"),
    6: ("additionalProperties", "additionalItems", "items", "not", "contains", "propertyNames"),
    7: ("additionalProperties", "additionalItems", "items", "not", "contains", "propertyNames", "if", "then", "else"),
}
LIST_KW = {
    3: ("items", "extends", "type", "disallow"),
    4: ("items", "allOf", "anyOf", "oneOf"),
    6: ("items", "allOf", "anyOf", "oneOf"),
    7: ("items", "allOf", "anyOf", "oneOf"),
}


class Unresolvable(Exception):
    pass


def dockey(url):
    u, _ = urldefrag(url)
    i = u.find(":")
    if i > 0:
        u = u[:i].lower() + u[i:]
    return u


class World(object):
    """Root document + the documents reachable by URL (store and handler-served alike)."""

    def __init__(self, draft, root, docs=None):
        self.draft = draft
        self.root = root
        self.idk = IDK[draft]
        rid = root.get(self.idk, "") if isinstance(root, dict) else ""
        self.base0 = rid if isinstance(rid, str) else ""
        self.docs = {}
        for k, v in (docs or {}).items():
            self.docs[dockey(k)] = v
        self.docs[dockey(self.base0)] = root

    def id_of(self, node):
        if isinstance(node, dict):
            v = node.get(self.idk, "")
            return v if isinstance(v, str) else ""
        return ""

    def resolve(self, base, ref):
        url = urljoin(base, ref)
        du, frag = urldefrag(url)
        doc = self.docs.get(dockey(url))
        if doc is None:
            raise Unresolvable("no document %r" % du)
        try:
            return url, pointer.resolve(doc, frag)
        except (pointer.PointerError, UnicodeDecodeError) as e:
            raise Unresolvable(str(e))

    def hop(self, node, base):
        """For the C06 walker: (target, new base) of a reference object."""
        url, target = self.resolve(base, node["$ref"])
        return target, url


def inline(world, node, base=None, depth=6, top=True):
    """Reference-free equivalent of `node` (siblings of $ref are dropped, as drafts <= 7 prescribe)."""
    d = world.draft
    if base is None:
        base = world.base0
    if not isinstance(node, dict):
        return node
    if "$ref" in node:
        if depth <= 0:
            return {}
        url, target = world.resolve(base, node["$ref"])
        return inline(world, target, url, depth - 1, False)
    nid = world.id_of(node)
    if nid and not top:
        base = urljoin(base, nid)
    out = {}
    for k, v in node.items():
        if k == world.idk or k == "definitions":
            continue        # ids are meaningless without references; definitions are never evaluated
        if k in MAP_KW and isinstance(v, dict):
            out[k] = {name: inline(world, s, base, depth, False) for name, s in v.items()}
        elif k == "dependencies" and isinstance(v, dict):
            out[k] = {name: (inline(world, s, base, depth, False) if isinstance(s, dict) else s)
                      for name, s in v.items()}
        elif k in LIST_KW[d] and isinstance(v, list):
            out[k] = [inline(world, s, base, depth, False) if isinstance(s, dict) else s for s in v]
        elif k in SCHEMA_KW[d] and isinstance(v, dict):
            out[k] = inline(world, v, base, depth, False)
        else:
            out[k] = v
    return out


def depth_of(x):
    if isinstance(x, list):
        return 1 + max([depth_of(e) for e in x] or [0])
    if isinstance(x, dict):
        return 1 + max([depth_of(e) for e in x.values()] or [0])
    return 0
