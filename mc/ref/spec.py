"""Reference evaluator for JSON Schema drafts 3, 4, 6, 7.

Written from the specifications (and DESIGN.md Appendix A for the reporting
convention).  Deliberately boring: one recursive function, Fractions for all
arithmetic, a tagged canonical form for equality, a table of hand-written
predicates instead of a regex engine, no caching, no generators, and no code
shared with the implementation under test.

errs(draft, schema, instance) -> list of (instance_path, schema_path) tuples,
one per expected error ("one error per violation"); valid iff the list is empty.
"""
from fractions import Fraction

from mc.ref import numbers as _numbers
from urllib.parse import unquote
import math


class Unsupported(Exception):
    """The case lies outside the domain on which this oracle is exact."""


def _has(sub):
    return lambda s: sub in s


PAT = {
    # pattern -> predicate with *unanchored search* semantics (ECMA 262 == re here)
    "a": _has("a"),
    "b": _has("b"),
    "^a": lambda s: s.startswith("a"),
    "^b": lambda s: s.startswith("b"),
    "a$": lambda s: s.endswith("a"),
    "b$": lambda s: s.endswith("b"),
    "^a$": lambda s: s == "a",
    "^ab$": lambda s: s == "ab",
    "b+": _has("b"),
    "^$": lambda s: s == "",
    "a|b": lambda s: "a" in s or "b" in s,
    "[0-9]": lambda s: any(c in "0123456789" for c in s),
    ".": lambda s: len(s) > 0,
    "(a)\\1": _has("aa"),
    "(b)c": _has("bc"),
    "^.*$": lambda s: True,
    "^x": lambda s: s.startswith("x"),
    "x": _has("x"),
    "": lambda s: True,
    "ab": _has("ab"),
    "^[a-b]+$": lambda s: s != "" and all(c in "ab" for c in s),
    "a{2}": _has("aa"),
    "^(a|b)$": lambda s: s in ("a", "b"),
}


def match(p, s):
    f = PAT.get(p)
    if f is None:
        raise Unsupported("pattern %r" % (p,))
    if any(c in s for c in "\n\r\u2028\u2029"):
        raise Unsupported("line terminator in subject")
    return f(s)


def jtype(x):
    if x is None:
        return "null"
    if x is True or x is False:
        return "boolean"
    if isinstance(x, (int, float)):
        return "number"
    if isinstance(x, str):
        return "string"
    if isinstance(x, list):
        return "array"
    if isinstance(x, dict):
        return "object"
    raise TypeError(repr(x))


def canon(x):
    """Type-tagged canonical form: equal canon <=> equal as JSON data."""
    t = jtype(x)
    if t == "number":
        return ("n", Fraction(x))
    if t == "array":
        return ("a", tuple(canon(e) for e in x))
    if t == "object":
        return ("o", frozenset((k, canon(v)) for k, v in x.items()))
    return (t, x)


def jeq(a, b):
    return canon(a) == canon(b)


SIMPLE = ("null", "boolean", "number", "string", "array", "object")


def is_type(draft, x, name):
    t = jtype(x)
    if name == "any" and draft == 3:
        return True
    if name == "integer":
        if t != "number":
            return False
        if isinstance(x, int):
            return True
        return draft >= 6 and x == math.floor(x)
    if name in SIMPLE:
        return t == name
    # Draft 3 lets any string through its metaschema; the implementation
    # documents UnknownType for those.  Not part of the verdict domain.
    raise Unsupported("type name %r" % (name,))


def _aslist(v):
    return [v] if isinstance(v, str) else v


def resolve_local(root, ref):
    if not isinstance(ref, str) or not ref.startswith("#"):
        raise Unsupported("non-local $ref %r" % (ref,))
    T = root
    frag = ref[1:]
    if frag:
        if not frag.startswith("/"):
            raise Unsupported("non-pointer fragment")
        for tok in unquote(frag)[1:].split("/"):
            tok = tok.replace("~1", "/").replace("~0", "~")
            T = T[int(tok)] if isinstance(T, list) else T[tok]
    return T


def errs(draft, S, x, P=(), Q=(), root=None, depth=0):
    if root is None:
        root = S
    if depth > 60:
        raise Unsupported("too deep")
    if S is True or S is False:
        if draft < 6:
            raise Unsupported("boolean schema in draft %d" % draft)
        return [] if S else [(P, Q)]
    if not isinstance(S, dict):
        raise Unsupported("schema is %s" % type(S).__name__)
    if "$ref" in S:
        return errs(draft, resolve_local(root, S["$ref"]), x, P, Q, root, depth + 1)

    out = []
    t = jtype(x)

    def sub(S2, x2, P2, Q2):
        return errs(draft, S2, x2, P2, Q2, root, depth + 1)

    def ok(S2, x2):
        return not errs(draft, S2, x2, (), (), root, depth + 1)

    for k, v in S.items():
        q = Q + (k,)
        if k == "type":
            names = _aslist(v)
            if draft == 3:
                good = False
                for el in names:
                    if isinstance(el, dict):
                        if ok(el, x):
                            good = True
                    elif is_type(draft, x, el):
                        good = True
                if not good:
                    out.append((P, q))
            else:
                if not any(is_type(draft, x, n) for n in names):
                    out.append((P, q))
        elif k == "disallow" and draft == 3:
            for el in _aslist(v):
                if (ok(el, x) if isinstance(el, dict) else is_type(draft, x, el)):
                    out.append((P, q))
        elif k == "extends" and draft == 3:
            if isinstance(v, dict):
                out += sub(v, x, P, q)
            else:
                for i, s2 in enumerate(v):
                    out += sub(s2, x, P, q + (i,))
        elif k == "enum":
            if not any(jeq(x, e) for e in v):
                out.append((P, q))
        elif k == "const" and draft >= 6:
            if not jeq(x, v):
                out.append((P, q))
        elif k in ("minimum", "maximum"):
            if t != "number":
                continue
            fx, fv = Fraction(x), Fraction(v)
            excl = draft <= 4 and S.get("exclusive" + k.capitalize(), False) is True
            if k == "minimum":
                bad = fx <= fv if excl else fx < fv
            else:
                bad = fx >= fv if excl else fx > fv
            if bad:
                out.append((P, q))
        elif k in ("exclusiveMinimum", "exclusiveMaximum"):
            if draft <= 4 or t != "number":
                continue
            fx, fv = Fraction(x), Fraction(v)
            if (fx <= fv) if k == "exclusiveMinimum" else (fx >= fv):
                out.append((P, q))
        elif (k == "multipleOf" and draft >= 4) or (k == "divisibleBy" and draft == 3):
            if t != "number":
                continue
            if (isinstance(x, float) or isinstance(v, float)) and _numbers.claim(x, v) is None:
                # outside the sub-domain where dividing the operands as binary floats is exact (the property
                # that words float multipleOf, C09, claims exception-freedom only there)
                raise Unsupported("float multipleOf outside the exact sub-domain")
            if (Fraction(x) / Fraction(v)).denominator != 1:
                out.append((P, q))
        elif k == "minLength":
            if t == "string" and len(x) < v:
                out.append((P, q))
        elif k == "maxLength":
            if t == "string" and len(x) > v:
                out.append((P, q))
        elif k == "pattern":
            if t == "string" and not match(v, x):
                out.append((P, q))
        elif k == "minItems":
            if t == "array" and len(x) < v:
                out.append((P, q))
        elif k == "maxItems":
            if t == "array" and len(x) > v:
                out.append((P, q))
        elif k == "uniqueItems":
            if v is True and t == "array" and len({canon(e) for e in x}) != len(x):
                out.append((P, q))
        elif k == "minProperties" and draft >= 4:
            if t == "object" and len(x) < v:
                out.append((P, q))
        elif k == "maxProperties" and draft >= 4:
            if t == "object" and len(x) > v:
                out.append((P, q))
        elif k == "required" and draft >= 4:
            if t == "object":
                for name in v:
                    if name not in x:
                        out.append((P, q))
        elif k == "properties":
            if t != "object":
                continue
            for name, s2 in v.items():
                if name in x:
                    out += sub(s2, x[name], P + (name,), q + (name,))
                elif draft == 3 and isinstance(s2, dict) and s2.get("required", False) is True:
                    out.append((P + (name,), q + (name, "required")))
        elif k == "patternProperties":
            if t != "object":
                continue
            for pat, s2 in v.items():
                for key, val in x.items():
                    if match(pat, key):
                        out += sub(s2, val, P + (key,), q + (pat,))
        elif k == "additionalProperties":
            if t != "object":
                continue
            props = S.get("properties", {})
            pats = S.get("patternProperties", {})
            extras = [key for key in x
                      if key not in props and not any(match(p, key) for p in pats)]
            if isinstance(v, dict):
                for key in extras:
                    out += sub(v, x[key], P + (key,), q)
            elif v is False and extras:
                out.append((P, q))
        elif k == "items":
            if t != "array":
                continue
            if isinstance(v, list):
                for i, (el, s2) in enumerate(zip(x, v)):
                    out += sub(s2, el, P + (i,), q + (i,))
            else:
                for i, el in enumerate(x):
                    out += sub(v, el, P + (i,), q)
        elif k == "additionalItems":
            if t != "array":
                continue
            it = S.get("items", {})
            if not isinstance(it, list):
                continue
            n = len(it)
            if isinstance(v, dict):
                for i in range(n, len(x)):
                    out += sub(v, x[i], P + (i,), q)
            elif v is False and len(x) > n:
                out.append((P, q))
        elif k == "contains" and draft >= 6:
            if t == "array" and not any(ok(v, el) for el in x):
                out.append((P, q))
        elif k == "propertyNames" and draft >= 6:
            if t == "object":
                for key in x:
                    out += sub(v, key, P, q)
        elif k == "dependencies":
            if t != "object":
                continue
            for trig, dep in v.items():
                if trig not in x:
                    continue
                if isinstance(dep, list):
                    for name in dep:
                        if name not in x:
                            out.append((P, q))
                elif isinstance(dep, str) and draft == 3:
                    if dep not in x:
                        out.append((P, q))
                else:
                    out += sub(dep, x, P, q + (trig,))
        elif k == "allOf" and draft >= 4:
            for i, s2 in enumerate(v):
                out += sub(s2, x, P, q + (i,))
        elif k == "anyOf" and draft >= 4:
            if not any(ok(s2, x) for s2 in v):
                out.append((P, q))
        elif k == "oneOf" and draft >= 4:
            if sum(1 for s2 in v if ok(s2, x)) != 1:
                out.append((P, q))
        elif k == "not" and draft >= 4:
            if ok(v, x):
                out.append((P, q))
        elif k == "if" and draft >= 7:
            if ok(v, x):
                if "then" in S:
                    out += sub(S["then"], x, P, Q + ("then",))
            elif "else" in S:
                out += sub(S["else"], x, P, Q + ("else",))
        # everything else (annotations, format, other drafts' keywords): inert
    return out


def valid(draft, S, x):
    return not errs(draft, S, x)
