"""Exact oracle for the numeric keywords (C09).

Bounds: always decided on exact rationals (fractions.Fraction of an int or of a
finite float is exact), for every finite operand.

multipleOf / divisibleBy: the mathematical answer is `Fraction(i) / Fraction(d)`
is an integer; C09 *claims* that answer only on the sub-domain its quantifier
text defines, transcribed clause by clause in claim() below.  Outside it only
"no exception escapes" is claimed.

No code is shared with the implementation under test.
"""
from fractions import Fraction

B53 = 2 ** 53
SMALL = 2 ** 26
MINNORMAL = Fraction(1, 2 ** 1022)


def is_int(x):
    return isinstance(x, int) and not isinstance(x, bool)


def is_float(x):
    return isinstance(x, float)


def is_pow2(fr):
    """fr is a positive power of two, 2**k for some integer k (either sign of k)."""
    if fr <= 0:
        return False
    n, m = fr.numerator, fr.denominator
    if m == 1:
        return n & (n - 1) == 0
    if n == 1:
        return m & (m - 1) == 0
    return False


def small_dyadic(fr):
    m = fr.denominator
    return abs(fr.numerator) < SMALL and m & (m - 1) == 0 and m <= SMALL


def is_multiple(i, d):
    return (Fraction(i) / Fraction(d)).denominator == 1


def claim(i, d):
    """Name of the clause under which C09 claims the exact verdict for
    `i multipleOf d`, or None (then only exception-freedom is claimed).

    Property text (quantifier):
      - statement: "exact for integer operands of any size"             -> int-int
      - "For multipleOf with at least one float operand the verdict is
        claimed on the exact sub-domain only: integer operands taking part
        have magnitude at most 2**53 (so their float conversion is exact),
        and either
          the divisor is a power of two and the quotient does not underflow,
                                                                        -> pow2-divisor
          or the divisor is an integer and the instance a float
          (exact remainder),                                            -> float-mod-int
          or both operands are dyadic rationals with small numerators." -> small-dyadic

    Conservative readings (they only shrink the claimed domain):
      * "does not underflow": the exact quotient is zero or at least the
        smallest *normal* float in magnitude (subnormal quotients, even exactly
        representable ones, are left out);
      * "dyadic rationals with small numerators": numerator below 2**26 AND
        denominator at most 2**26.  The text bounds only the numerators; with
        unbounded exponents (3*2**100 against 7*2**-100) the float quotient is
        a huge float, hence integral, although the true quotient is not an
        integer, and the statement restricts the claim to "wherever converting
        the operands to binary floating point and dividing them is exact".  With
        both bounds the exact quotient N/D has |N| < 2**52, so a non-integral
        quotient is farther than half an ulp from every integer and an integral
        one is representable: the correctly rounded float quotient is integral
        iff the exact one is.
    """
    if is_int(i) and is_int(d):
        return "int-int"
    for x in (i, d):
        if is_int(x) and abs(x) > B53:
            return None
    fi, fd = Fraction(i), Fraction(d)
    if is_pow2(fd):
        q = fi / fd
        if q == 0 or abs(q) >= MINNORMAL:
            return "pow2-divisor"
    if is_int(d) and is_float(i):
        return "float-mod-int"
    if small_dyadic(fi) and small_dyadic(fd):
        return "small-dyadic"
    return None


MULT = {3: "divisibleBy", 4: "multipleOf", 6: "multipleOf", 7: "multipleOf"}


def failing_keywords(draft, schema, i):
    """(set of keywords of `schema` that the number i violates, claimed?)

    `schema` holds only minimum / maximum / exclusiveMinimum / exclusiveMaximum /
    multipleOf / divisibleBy.  claimed is False when a multipleOf verdict lies
    outside the exact sub-domain (the returned set is then the mathematical
    answer, for information only)."""
    fi = Fraction(i)
    bad = set()
    claimed = True
    for k, v in schema.items():
        if k == "minimum":
            b = Fraction(v)
            excl = draft <= 4 and schema.get("exclusiveMinimum", False) is True
            if fi < b or (excl and fi == b):
                bad.add(k)
        elif k == "maximum":
            b = Fraction(v)
            excl = draft <= 4 and schema.get("exclusiveMaximum", False) is True
            if fi > b or (excl and fi == b):
                bad.add(k)
        elif k == "exclusiveMinimum":
            if draft >= 6:
                if not fi > Fraction(v):
                    bad.add(k)
            elif v is not True and v is not False:
                raise ValueError("draft %d exclusiveMinimum must be boolean" % draft)
        elif k == "exclusiveMaximum":
            if draft >= 6:
                if not fi < Fraction(v):
                    bad.add(k)
            elif v is not True and v is not False:
                raise ValueError("draft %d exclusiveMaximum must be boolean" % draft)
        elif k == MULT[draft]:
            if not is_multiple(i, v):
                bad.add(k)
            if claim(i, v) is None:
                claimed = False
        else:
            raise ValueError("keyword outside the C09 oracle: %r (draft %d)" % (k, draft))
    return bad, claimed
