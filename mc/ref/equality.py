"""JSON equality oracle for C08 (enum / const / uniqueItems).

Two independently written deciders of "equal as JSON data" and one tiny
evaluator of the three keywords.  Nothing here shares code with the
implementation under test or with mc/ref/spec.py (C08's plan() cross-checks the
three deciders against each other on the whole universe before any worker runs).

* key(x)   type-tagged canonical form.  Booleans are tagged with the *strings*
           "T"/"F" (never with True/False: ("b", True) == ("b", 1) in Python),
           numbers are exact rationals (numerator, denominator) taken from
           fractions.Fraction, so 1 == 1.0 == Fraction(1), 2**53 != 2**53 + 1,
           -0.0 == 0; object members are sorted by key (key order is irrelevant),
           array elements keep their order.
* jeq(a,b) direct structural recursion, no canonical form.
"""
from fractions import Fraction


def jtype(x):
    if x is None:
        return "null"
    if x is True or x is False:
        return "boolean"
    if isinstance(x, (int, float)):
        return "number"
    if isinstance(x, str):
        return "string"
    if isinstance(x, list):
        return "array"
    if isinstance(x, dict):
        return "object"
    raise TypeError("not a JSON value: %r" % (x,))


def key(x):
    t = jtype(x)
    if t == "null":
        return ("z",)
    if t == "boolean":
        return ("b", "T" if x else "F")
    if t == "number":
        f = Fraction(x)
        return ("n", f.numerator, f.denominator)
    if t == "string":
        return ("s", x)
    if t == "array":
        return ("a",) + tuple(key(e) for e in x)
    return ("o",) + tuple((k, key(x[k])) for k in sorted(x))


def jeq(a, b):
    ta, tb = jtype(a), jtype(b)
    if ta != tb:
        return False
    if ta == "null":
        return True
    if ta == "boolean":
        return (a is True) == (b is True)
    if ta == "number":
        return Fraction(a) == Fraction(b)
    if ta == "string":
        return len(a) == len(b) and all(ord(p) == ord(q) for p, q in zip(a, b))
    if ta == "array":
        if len(a) != len(b):
            return False
        for p, q in zip(a, b):
            if not jeq(p, q):
                return False
        return True
    if len(a) != len(b):
        return False
    for k in a:
        if k not in b or not jeq(a[k], b[k]):
            return False
    return True


def all_distinct(arr):
    ks = [key(e) for e in arr]
    return len(set(ks)) == len(ks)


def expected_valid(schema, instance):
    """Verdict of a schema made only of const / enum / uniqueItems (conjunction)."""
    ok = True
    for k, v in schema.items():
        if k == "const":
            ok = ok and jeq(instance, v)
        elif k == "enum":
            ok = ok and any(jeq(instance, e) for e in v)
        elif k == "uniqueItems":
            if v is True and jtype(instance) == "array":
                ok = ok and all_distinct(instance)
        else:
            raise ValueError("keyword outside the C08 oracle: %r" % (k,))
    return ok
