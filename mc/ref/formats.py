"""Hand-written recognisers for the crisp format grammars (oracle of C13, labels of C12).

Deliberately boring: character loops over explicit ASCII tables, no `re`, no
`ipaddress`, no `datetime`, no `str.isdigit()` / `int()` (both of which accept
non-ASCII digits, underscores, signs or surrounding white space).  Nothing is
shared with jsonschema/_format.py.

  ipv4   four decimal octets 0-255, no leading zeros, ASCII digits, three dots
  ipv6   RFC 4291 section 2.2 text forms 1-3: eight groups of 1-4 hex digits;
         one `::` standing for one or more zero groups; the low 32 bits may be a
         dotted quad (same grammar as ipv4).  No zone id, no prefix length.
  date   RFC 3339 full-date: DDDD-DD-DD, ASCII digits, month 01-12, day 01-last
         day of that month, leap years by the Gregorian rule (years 0000-9999,
         the range RFC 3339 section 1 states).
  email  contains U+0040
"""

DIGITS = "0123456789"
HEX = "0123456789abcdefABCDEF"

# name -> family; the names are those of the JSON Schema specifications
# (Draft 3 calls the dotted quad "ip-address").
FAMILY = {
    "ipv4": "ipv4", "ip-address": "ipv4",
    "ipv6": "ipv6",
    "date": "date",
    "email": "email",
    "idn-email": "idn-email",
    "regex": "regex",
}


def _num(s):
    n = 0
    for c in s:
        n = n * 10 + DIGITS.index(c)
    return n


def _all_in(s, table):
    for c in s:
        if c not in table:
            return False
    return True


def is_ipv4(s):
    parts = s.split(".")
    if len(parts) != 4:
        return False
    for p in parts:
        if not 1 <= len(p) <= 3 or not _all_in(p, DIGITS):
            return False
        if len(p) > 1 and p[0] == "0":
            return False
        if _num(p) > 255:
            return False
    return True


def _hexgroup(g):
    return 1 <= len(g) <= 4 and _all_in(g, HEX)


def _groups16(fields, may_end_in_quad):
    """Number of 16-bit pieces spelled by the colon-separated fields, or None."""
    n = 0
    for i, f in enumerate(fields):
        if may_end_in_quad and i == len(fields) - 1 and "." in f:
            if not is_ipv4(f):
                return None
            n += 2
        elif _hexgroup(f):
            n += 1
        else:
            return None
    return n


def is_ipv6(s):
    i = s.find("::")
    if i < 0:
        return _groups16(s.split(":"), True) == 8
    head, tail = s[:i], s[i + 2:]
    if "::" in tail:
        return False
    hf = head.split(":") if head else []
    tf = tail.split(":") if tail else []
    a = _groups16(hf, False)
    b = _groups16(tf, True)
    if a is None or b is None:
        return False
    return a + b <= 7      # `::` stands for at least one group


def is_leap(y):
    return y % 4 == 0 and (y % 100 != 0 or y % 400 == 0)


def days_in_month(y, m):
    if m == 2:
        return 29 if is_leap(y) else 28
    return 30 if m in (4, 6, 9, 11) else 31


def is_date(s):
    if len(s) != 10 or s[4] != "-" or s[7] != "-":
        return False
    ys, ms, ds = s[0:4], s[5:7], s[8:10]
    if not (_all_in(ys, DIGITS) and _all_in(ms, DIGITS) and _all_in(ds, DIGITS)):
        return False
    y, m, d = _num(ys), _num(ms), _num(ds)
    return 1 <= m <= 12 and 1 <= d <= days_in_month(y, m)


def is_email(s):
    return "@" in s


RECOGNISERS = {"ipv4": is_ipv4, "ipv6": is_ipv6, "date": is_date, "email": is_email}


def selftest():
    """Ground truth taken from the RFC texts themselves (4291 section 2.2, 3339 5.8 / appendix C)."""
    yes6 = ["ABCD:EF01:2345:6789:ABCD:EF01:2345:6789", "2001:DB8:0:0:8:800:200C:417A",
            "2001:DB8::8:800:200C:417A", "FF01::101", "::1", "::", "0:0:0:0:0:0:13.1.68.3",
            "0:0:0:0:0:FFFF:129.144.52.38", "::13.1.68.3", "::FFFF:129.144.52.38", "1::",
            "1:2:3:4:5:6:7::", "::2:3:4:5:6:7:8", "1:2:3:4:5:6::8"]
    no6 = ["", ":", ":::", "1", "1:2:3:4:5:6:7", "1:2:3:4:5:6:7:8:9", "1::2:3:4:5:6:7:8", "::1::",
           "12345::", "g::", "1:2:3:4:5:6:7:1.2.3.4", "1.2.3.4::", "::1.2.3", "::1.2.3.256", "fe80::1%eth0",
           "::1/128", ":1:2:3:4:5:6:7", "1:2:3:4:5:6:7:", "::01.2.3.4", " ::1", "::1\n"]
    yes4 = ["0.0.0.0", "255.255.255.255", "127.0.0.1", "10.20.30.40"]
    no4 = ["", "1.1.1", "1.1.1.1.1", "256.1.1.1", "01.1.1.1", "1.1.1.1 ", "1..1.1", "1.1.1.-1", "1.1.1.+1",
           "１.1.1.1", "٣.1.1.1", "1.1.1.1\n", "0x1.1.1.1", "1.1.1.1000"]
    yesd = ["2020-02-29", "2000-02-29", "1985-04-12", "1996-12-19", "9999-12-31", "0000-01-01", "2019-12-31"]
    nod = ["2019-02-29", "1900-02-29", "2100-02-29", "2020-00-10", "2020-13-01", "2020-04-31", "2020-01-00",
           "20200101", "2020-W01-1", "2020-001", "2020-1-1", " 2020-01-01", "2020-01-01\n", "2020/01/01",
           "２020-01-01", "2020-01-01T00:00:00Z", ""]
    for f, ys, ns in ((is_ipv6, yes6, no6), (is_ipv4, yes4, no4), (is_date, yesd, nod)):
        for s in ys:
            assert f(s) is True, (f.__name__, s)
        for s in ns:
            assert f(s) is False, (f.__name__, s)
    return len(yes6) + len(no6) + len(yes4) + len(no4) + len(yesd) + len(nod)
