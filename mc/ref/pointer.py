"""Independent RFC 6901 (JSON Pointer) + RFC 3986 (fragment) encoder/decoder.

Written from the RFCs; shares nothing with jsonschema.  Percent-decoding is
done by hand (UTF-8), so that urllib's behaviour is not part of the oracle.
"""

UNRESERVED = set("ABCDEFGHIJKLMNOPQRSTUVWXYZabcdefghijklmnopqrstuvwxyz0123456789-._~")
# characters allowed verbatim in a URI fragment (RFC 3986 §3.5): pchar / "/" / "?"
FRAGMENT_SAFE = UNRESERVED | set("!$&'()*+,;=:@/?")


class PointerError(Exception):
    pass


def escape_token(tok):
    return tok.replace("~", "~0").replace("/", "~1")


def unescape_token(tok):
    out = []
    i = 0
    while i < len(tok):
        c = tok[i]
        if c == "~":
            if i + 1 < len(tok) and tok[i + 1] == "0":
                out.append("~")
            elif i + 1 < len(tok) and tok[i + 1] == "1":
                out.append("/")
            else:
                raise PointerError("bad escape in %r" % tok)
            i += 2
        else:
            out.append(c)
            i += 1
    return "".join(out)


def pct_encode(s, safe=FRAGMENT_SAFE):
    out = []
    for ch in s:
        if ch in safe:
            out.append(ch)
        else:
            out.extend("%%%02X" % b for b in ch.encode("utf-8"))
    return "".join(out)


def pct_decode(s):
    bs = bytearray()
    i = 0
    while i < len(s):
        c = s[i]
        if c == "%" and i + 2 < len(s) + 0 and _ishex(s[i + 1:i + 3]):
            bs.append(int(s[i + 1:i + 3], 16))
            i += 3
        else:
            bs.extend(c.encode("utf-8"))
            i += 1
    return bs.decode("utf-8")


def _ishex(h):
    return len(h) == 2 and all(c in "0123456789abcdefABCDEF" for c in h)


def pointer(path):
    """JSON Pointer string for a list of keys / indices."""
    return "".join("/" + escape_token(str(t)) for t in path)


def fragment(path, full=False):
    """URI fragment (without '#') for a path; full=True percent-encodes every
    character that is not unreserved (both spellings designate the same value)."""
    p = pointer(path)
    if full:
        return pct_encode(p, safe=UNRESERVED | {"/"})
    return pct_encode(p)


def tokens(frag):
    """Decode a URI fragment into reference tokens (RFC 3986 then RFC 6901)."""
    p = pct_decode(frag)
    if p == "":
        return []
    if not p.startswith("/"):
        raise PointerError("pointer must start with '/': %r" % p)
    return [unescape_token(t) for t in p[1:].split("/")]


def _index(tok, n):
    if tok == "0":
        if n > 0:
            return 0
        raise PointerError("index 0 into an empty array")
    if tok and tok[0] in "123456789" and all(c in "0123456789" for c in tok):
        # a canonical index longer than 18 digits is past the end of any array that fits in memory
        # (and int() refuses digit strings beyond the interpreter's conversion limit)
        if len(tok) <= 18 and int(tok) < n:
            return int(tok)
    raise PointerError("not an index into an array of %d: %r" % (n, tok))


def walk(doc, toks):
    for t in toks:
        if isinstance(doc, list):
            doc = doc[_index(t, len(doc))]
        elif isinstance(doc, dict):
            if t not in doc:
                raise PointerError("no member %r" % t)
            doc = doc[t]
        else:
            raise PointerError("token %r applied to a %s" % (t, type(doc).__name__))
    return doc


def resolve(doc, frag):
    return walk(doc, tokens(frag))
