"""Runner core: sharding over forked workers, merging, known-findings, evidence.

A property module (mc/props/cNN.py) provides

    ID, LEVEL
    plan(ctx)      -> dict(units=[...], rule=str, bounds={...}, assumptions=[...])
                      (called once in the parent, before the fork; whatever it
                      builds at module level is shared with the workers)
    run_unit(unit, ctx) -> dict(evaluations=int, nontrivial=int, violations=[...],
                      samples=[...], outcomes={str:int}, counters={str:int})
    replay(case, ctx)   -> dict(reproduced=bool, detail=...)   re-executes one case

A violation is dict(signature=str, case=JSON-able, detail=JSON-able, size=int).
"""
import hashlib
import json
import multiprocessing
import os
import random
import signal
import subprocess
import sys
import time
import traceback

VERIF = os.path.dirname(os.path.dirname(os.path.dirname(os.path.abspath(__file__))))


class Ctx(object):
    def __init__(self, tier, seed, workers, repo):
        self.tier = tier
        self.seed = seed
        self.workers = workers
        self.repo = repo

    @property
    def thorough(self):
        return self.tier == "thorough"


def bind_repo():
    """Put the repository under test first on sys.path and prove we import it."""
    repo = os.path.realpath(os.environ.get("VERIF_REPO", "/repo"))
    sys.path.insert(0, repo)
    import jsonschema
    here = os.path.realpath(jsonschema.__file__)
    if not here.startswith(repo + os.sep):
        sys.stderr.write(
            "harness error: jsonschema imported from %s, not from %s\n" % (here, repo))
        sys.exit(2)
    return repo


def jdump(obj, **kw):
    return json.dumps(obj, ensure_ascii=False, default=_default, **kw)


def _default(o):
    if isinstance(o, (set, frozenset)):
        return sorted(o, key=repr)
    if isinstance(o, tuple):
        return list(o)
    return repr(o)


def digest(obj):
    return hashlib.sha1(jdump(obj, sort_keys=True).encode("utf-8", "surrogatepass")).hexdigest()[:16]


_MOD = None
_CTX = None


def _worker(unit):
    try:
        t0 = time.time()
        res = _MOD.run_unit(unit, _CTX)
        res["_wall"] = time.time() - t0
        return res
    except BaseException as e:
        v = crash_violation(e, unit, _MOD, _CTX)
        if v is not None:
            return {"evaluations": 0, "nontrivial": 0, "violations": [v], "samples": [],
                    "outcomes": {"exception-escaped-from-code-under-test": 1}, "counters": {}}
        # a harness bug, never a verdict
        return {"_crash": traceback.format_exc(), "_unit": repr(unit)[:300]}


def crash_violation(e, unit, mod, ctx):
    """An exception that escaped from the package under test into a check that does not expect one at that
    point (every check passes on the unchanged tree, so the change under test made it escape): a violation
    with the work unit as its replayable case.  Exceptions with no frame inside the package stay harness errors."""
    if isinstance(e, (KeyboardInterrupt, SystemExit, MemoryError)):
        return None
    pkg = os.path.join(ctx.repo, "jsonschema") + os.sep
    tb = traceback.extract_tb(e.__traceback__)
    inside = [fr for fr in tb if os.path.realpath(fr.filename).startswith(pkg)]
    if not inside:
        return None
    try:
        json.dumps(unit)
    except Exception:
        return None
    return {"signature": "%s|exception-escaped-into-the-check|%s|%s" % (mod.ID, type(e).__name__, inside[-1].name),
            "size": 0, "case": {"crashed_unit": unit, "tier": ctx.tier},
            "detail": {"exception": "%s: %s" % (type(e).__name__, str(e)[:200]),
                       "innermost_frames": ["%s:%d %s" % (os.path.basename(fr.filename), fr.lineno, fr.name) for fr in tb[-6:]]}}


def as_tuples(x):
    return tuple(as_tuples(e) for e in x) if isinstance(x, list) else x


def replay_crashed_unit(mod, ctx, case):
    """Re-run the work unit named by a crash violation; reproduced iff an exception escapes again."""
    ctx.tier = case.get("tier", ctx.tier)
    try:
        mod.plan(ctx)
        mod.run_unit(as_tuples(case["crashed_unit"]), ctx)
    except BaseException as e:
        return {"reproduced": True, "exception": "%s: %s" % (type(e).__name__, str(e)[:200])}
    return {"reproduced": False}


def _init_worker():
    signal.signal(signal.SIGINT, signal.SIG_IGN)


def load_known():
    path = os.path.join(VERIF, "known_findings.json")
    if not os.path.exists(path):
        return []
    with open(path) as f:
        return json.load(f)["findings"]


def run_check(mod, ctx):
    global _MOD, _CTX
    _MOD, _CTX = mod, ctx
    t0 = time.time()
    try:
        plan = mod.plan(ctx)
    except BaseException as e:
        v = crash_violation(e, "plan", mod, ctx)
        if v is None:
            raise
        vdir = os.path.join(os.environ.get("VERIF_VIOLATIONS_DIR") or os.path.join(VERIF, "violations"), mod.ID)
        os.makedirs(vdir, exist_ok=True)
        path = os.path.join(vdir, digest([v["signature"], "plan"]) + ".json")
        with open(path, "w") as f:
            f.write(jdump({"property": mod.ID, "signature": v["signature"], "case": v["case"], "detail": v["detail"],
                           "tier": ctx.tier, "seed": ctx.seed}, indent=1))
        print("VIOLATION property=%s replay=%s" % (mod.ID, path))
        print("  signature=%s (while enumerating the cases)" % v["signature"])
        print("  detail=%s" % jdump(v["detail"])[:600])
        return 1
    t_plan = time.time() - t0
    units = list(plan["units"])
    # VERIF_SEED only rotates the order in which units are handed out and
    # which samples are kept; the set of units is independent of it.
    rnd = random.Random(ctx.seed)
    order = list(range(len(units)))
    rnd.shuffle(order)
    units = [units[i] for i in order]

    merged = {
        "evaluations": 0, "nontrivial": 0, "violations": [], "samples": [],
        "outcomes": {}, "counters": {}, "units": len(units),
    }
    crashes = []
    walls = []
    sigcount = {}

    def absorb(res):
        if "_crash" in res:
            crashes.append(res)
            return
        walls.append(res.get("_wall", 0.0))
        merged["evaluations"] += res.get("evaluations", 0)
        merged["nontrivial"] += res.get("nontrivial", 0)
        for v in res.get("violations", ()):
            n = sigcount[v["signature"]] = sigcount.get(v["signature"], 0) + 1
            if n <= 300:          # keep the evidence small; every violation is still counted
                merged["violations"].append(v)
        for s in res.get("samples", ()):
            if len(merged["samples"]) < 400:
                merged["samples"].append(s)
        for k, v in res.get("outcomes", {}).items():
            merged["outcomes"][k] = merged["outcomes"].get(k, 0) + v
        for k, v in res.get("counters", {}).items():
            if k.startswith("max_") and isinstance(v, (int, float)):
                merged["counters"][k] = max(merged["counters"].get(k, 0), v)
            elif isinstance(v, (int, float)):
                merged["counters"][k] = merged["counters"].get(k, 0) + v
            else:   # max-merge for non-additive facts
                merged["counters"][k] = v

    if ctx.workers <= 1 or len(units) <= 1:
        for u in units:
            absorb(_worker(u))
    else:
        # A wall-clock deadline for the whole exploration (default: 20 min quick, 5 h thorough; the unchanged
        # tree needs about a minute / a quarter of an hour).  Code under test that makes the exploration crawl
        # must not keep the violations already found from being reported: at the deadline the remaining units
        # are abandoned, what was found is reported, and the evidence says `cap_hit` / exhaustive=false.
        deadline = t0 + float(os.environ.get("VERIF_DEADLINE_S") or (1200 if ctx.tier == "quick" else 18000))
        mp = multiprocessing.get_context("fork")
        pool = mp.Pool(min(ctx.workers, len(units)), initializer=_init_worker)
        done = 0
        try:
            it = pool.imap_unordered(_worker, units, chunksize=1)
            while True:
                try:
                    res = it.next(timeout=max(0.1, deadline - time.time()))
                except StopIteration:
                    break
                except multiprocessing.TimeoutError:
                    plan["cap_hit"] = {"wall_deadline_s": round(deadline - t0), "units_finished": done,
                                       "units_total": len(units)}
                    plan["exhaustive"] = False
                    sys.stderr.write("deadline: %d of %d units finished within %d s; reporting what was found\n" % (
                        done, len(units), round(deadline - t0)))
                    break
                done += 1
                absorb(res)
        finally:
            pool.terminate()
            pool.join()

    if crashes:
        sys.stderr.write("harness error: %d unit(s) crashed\n%s\n" % (
            len(crashes), crashes[0]["_crash"]))
        sys.stderr.write("unit: %s\n" % crashes[0]["_unit"])
        return 2

    merged["counters"]["unit_wall_max_s"] = round(max(walls or [0]), 2)
    merged["counters"]["unit_wall_sum_s"] = round(sum(walls), 1)
    merged["counters"]["plan_s"] = round(t_plan, 2)
    if hasattr(mod, "finish"):
        mod.finish(merged, plan, ctx)

    # ---- classify violations -------------------------------------------
    known = [k for k in load_known() if k["property"] == mod.ID]
    open_by_sig = {k["signature"]: k for k in known if k.get("status") == "open"}
    groups = {}
    for v in merged["violations"]:
        groups.setdefault(v["signature"], []).append(v)
    new_sigs = sorted(s for s in groups if s not in open_by_sig)
    exit_code = 0
    lines = []
    reported = 0
    for sig in sorted(groups):
        vs = sorted(groups[sig], key=lambda v: (v.get("size", 0), jdump(v["case"], sort_keys=True)))
        if sig in open_by_sig:
            k = open_by_sig[sig]
            lines.append("KNOWN-FINDING: property=%s %s [%s; %d case(s) in this run, e.g. %s]" % (
                mod.ID, k["what"], k["id"], sigcount.get(sig, len(vs)), jdump(vs[0]["case"])[:200]))
            continue
        exit_code = 1
        vdir = os.path.join(os.environ.get("VERIF_VIOLATIONS_DIR") or os.path.join(VERIF, "violations"), mod.ID)
        os.makedirs(vdir, exist_ok=True)
        reported += 1
        if reported > 12:
            if reported == 13:
                lines.append("  (further unlisted signatures are only listed, not written out)")
            lines.append("  also: signature=%s cases=%d e.g. %s" % (sig, len(vs), jdump(vs[0]["case"])[:300]))
            continue
        uniq, seen_cases = [], set()
        for v in vs:
            dg = digest([sig, v["case"]])
            if dg not in seen_cases:
                seen_cases.add(dg)
                uniq.append(v)
            if len(uniq) >= 2:
                break
        for v in uniq:
            body = {"property": mod.ID, "signature": sig, "case": v["case"],
                    "detail": v.get("detail"), "cases_with_this_signature": len(vs),
                    "tier": ctx.tier, "seed": ctx.seed}
            path = os.path.join(vdir, digest([sig, v["case"]]) + ".json")
            with open(path, "w") as f:
                f.write(jdump(body, indent=1))
            conf = confirm(mod.ID, path)
            body["confirmed_in_fresh_process"] = conf
            with open(path, "w") as f:
                f.write(jdump(body, indent=1))
            lines.append("VIOLATION property=%s replay=%s" % (mod.ID, path))
            lines.append("  signature=%s cases=%d fresh-process-replay=%s" % (sig, sigcount.get(sig, len(vs)), conf))
            lines.append("  case=%s" % jdump(v["case"])[:600])
            lines.append("  detail=%s" % jdump(v.get("detail"))[:600])
    # an open known finding that no longer shows is only reported as a note
    for sig, k in sorted(open_by_sig.items()):
        if sig not in groups and k.get("tiers", ["quick", "thorough"]).count(ctx.tier):
            lines.append("note: known finding %s (%s) did not occur in this run" % (k["id"], sig))

    wall = time.time() - t0
    write_evidence(mod, ctx, plan, merged, groups, open_by_sig, wall, rnd, sigcount)
    for l in lines:
        print(l)
    print("%s %s: units=%d evaluations=%d nontrivial=%d violations=%d (unlisted signatures=%d) wall=%.1fs" % (
        mod.ID, ctx.tier, len(units), merged["evaluations"], merged["nontrivial"],
        sum(sigcount.values()), len(new_sigs), wall))
    return exit_code


def confirm(pid, path):
    """Replay one case in a fresh interpreter; report whether it reproduces."""
    try:
        out = subprocess.run(
            [sys.executable, "-m", "mc.run", pid, "--replay", path],
            cwd=VERIF, capture_output=True, text=True, timeout=120,
            env=dict(os.environ, PYTHONHASHSEED="0"))
    except subprocess.TimeoutExpired:
        return "timeout"
    if "REPRODUCED" in out.stdout and "NOT-REPRODUCED" not in out.stdout:
        return True
    if "NOT-REPRODUCED" in out.stdout:
        return False
    return "error: " + (out.stderr or out.stdout)[-300:]


def write_evidence(mod, ctx, plan, merged, groups, open_by_sig, wall, rnd, sigcount):
    samples = merged["samples"]
    if len(samples) > 8:
        samples = rnd.sample(samples, 8)
    cov = {
        "evaluations": merged["evaluations"],
        "distinct_nontrivial": merged["nontrivial"],
        "rule": plan["rule"],
        "samples": samples,
        "exhaustive": plan.get("exhaustive", True),
        "bounds": plan.get("bounds", {}),
        "units": merged["units"],
        "distinct_outcomes": len(merged["outcomes"]),
        "outcomes_top": dict(sorted(merged["outcomes"].items(), key=lambda kv: -kv[1])[:25]),
        "cap_hit": plan.get("cap_hit", False),
        "workers": ctx.workers,
    }
    cov.update(merged["counters"])
    if mod.LEVEL == "model_checking":
        cov.setdefault("states", merged["counters"].get("states", merged["nontrivial"]))
        cov.setdefault("transitions", merged["counters"].get("transitions", merged["evaluations"]))
        cov.setdefault("traces_validated_against_impl",
                       merged["counters"].get("traces_validated_against_impl", merged["evaluations"]))
    ev = {
        "property_id": mod.ID,
        "tier": ctx.tier,
        "seed": ctx.seed,
        "level": mod.LEVEL,
        "coverage": cov,
        "assumptions": plan.get("assumptions", []),
        "wall_s": round(wall, 2),
        "violations": sum(sigcount.get(s, len(v)) for s, v in groups.items() if s not in open_by_sig),
        "known_findings_seen": {s: sigcount.get(s, len(v)) for s, v in groups.items() if s in open_by_sig},
    }
    if os.environ.get("VERIF_NO_EVIDENCE"):
        return
    os.makedirs(os.path.join(VERIF, "evidence"), exist_ok=True)
    path = os.path.join(VERIF, "evidence", mod.ID + ".json")
    tmp = path + ".tmp"
    with open(tmp, "w") as f:
        f.write(jdump(ev, indent=1))
    os.replace(tmp, path)
