"""Baton scheduler for real threads (C18 part B).

Every `call` (or `line`) event inside the package under test is a scheduling
point.  One semaphore per thread; exactly one thread runs at a time.  A
schedule is the list of choices taken at the scheduling points: choice 0 =
"keep the running thread" (canonical order: running thread first, then
ascending ids), choice k>0 = switch to the k-th other enabled thread (a
preemption).  A finished thread hands the baton on at no cost.
"""
import sys
import threading


class Deadlock(Exception):
    pass


import os
import time

STALL_S = 0.25          # base interval; see Sched.run: a stall needs NO scheduling point AND NO cpu time of the holder
HORIZON_S = 60.0
NCPU = os.cpu_count() or 1


def _thread_cpu(thread):
    """CPU seconds consumed by one thread (Linux: per-thread CPU-time clock); None where unavailable."""
    try:
        return time.clock_gettime(time.pthread_getcpuclockid(thread.ident))
    except Exception:
        return None


def _stall_interval():
    """Wall-clock interval without progress after which the holder is examined.  It grows with the machine's
    load so that a runnable thread that is merely waiting for a core is given many scheduler periods."""
    try:
        load = os.getloadavg()[0]
    except OSError:
        load = 0.0
    return STALL_S * max(1.0, 2.0 * load / NCPU)


class Sched(object):
    def __init__(self, bodies, choices, pkg, gran="call"):
        self.bodies = bodies
        self.n = len(bodies)
        self.choices = list(choices)
        self.pkg = pkg
        self.gran = gran
        self.sem = [threading.Semaphore(0) for _ in bodies]
        self.done = [False] * self.n
        self.points = []          # (running, enabled tuple, choice, cost)
        self.results = [None] * self.n
        self.step = 0
        self.fin = threading.Event()
        self.current = 0          # who holds the baton
        self.blocked = set()      # threads found waiting on a real primitive (lock, future, event) of the code under test
        self.guard = threading.Lock()
        self.stalls = 0
        self.error = None

    def pick(self, running, finished=False):
        enabled = [i for i in range(self.n) if not self.done[i]]
        if not enabled:
            return None
        if running in enabled:
            enabled = [running] + [i for i in enabled if i != running]
        if self.step < len(self.choices):
            k = self.choices[self.step]
            if k >= len(enabled):
                # the execution no longer follows the recorded one (possible only below a run in which a
                # stalled holder was passed over); never raised into the traced code: the run is marked and
                # explore() leaves it unjudged
                self.error = "prefix out of range at step %d" % self.step
                k = 0
        else:
            k = 0
        cost = 1 if (k > 0 and not finished) else 0
        self.points.append((running, tuple(enabled), k, cost))
        self.step += 1
        return enabled[k]

    def point(self, me):
        with self.guard:
            if self.current != me:
                # the baton was taken away while this thread sat in a real wait; it is runnable again
                self.blocked.discard(me)
                nxt = None
            else:
                nxt = self.pick(me)
                if nxt != me:
                    self.current = nxt
        if nxt is None:
            self.sem[me].acquire()
        elif nxt != me:
            self.sem[nxt].release()
            self.sem[me].acquire()

    def tracer(self, me):
        gran = self.gran
        pkg = self.pkg

        def local(frame, event, arg):
            if event == "line":
                self.point(me)
            return local

        def glob(frame, event, arg):
            if event == "call" and frame.f_code.co_filename.startswith(pkg):
                if gran == "call":
                    self.point(me)
                    return None
                return local
            return None
        return glob

    def run_thread(self, me):
        self.sem[me].acquire()
        sys.settrace(self.tracer(me))
        try:
            self.results[me] = self.bodies[me]()
        except BaseException as e:
            self.results[me] = ("EXC", type(e).__name__, str(e)[:200])
        finally:
            sys.settrace(None)
            with self.guard:
                self.done[me] = True
                self.blocked.discard(me)
                mine = self.current == me
                nxt = None
                if mine:
                    try:
                        nxt = self.pick(me, finished=True)
                    except IndexError:
                        nxt = None
                        self.error = "prefix out of range"
                    if nxt is not None:
                        self.current = nxt
                alldone = all(self.done)
            if nxt is not None:
                self.sem[nxt].release()
            elif alldone:
                self.fin.set()

    def run(self):
        ts = [threading.Thread(target=self.run_thread, args=(i,), daemon=True) for i in range(self.n)]
        for t in ts:
            t.start()
        self.sem[0].release()
        # The main thread watches for a baton holder that stops reaching scheduling points: it sits in a real
        # wait (a lock, future or event the code under test uses).  The baton then goes to the lowest-numbered
        # thread that is neither finished nor known to be blocked; if there is none, that is a deadlock.
        # "Stops" means: no scheduling point reached AND no CPU time consumed by the holder over the interval (a
        # runnable thread that only waits for a core on a busy machine does consume CPU time over the
        # load-scaled interval; a thread in a wait consumes none), so machine load cannot fake a stall.
        t0 = time.time()
        last = (-1, -1)
        since = time.time()
        cpu0 = None
        need = _stall_interval()
        while not self.fin.wait(0.05):
            now = time.time()
            if now - t0 > HORIZON_S:
                raise Deadlock("execution did not finish within %.0f s" % HORIZON_S)
            with self.guard:
                seen = (self.step, self.current)
                if seen != last:
                    last, since = seen, now
                    cpu0 = _thread_cpu(ts[self.current])
                    need = _stall_interval()
                    continue
                if now - since < need:
                    continue
                cur = self.current
                if self.done[cur]:
                    continue
                cpu1 = _thread_cpu(ts[cur])
                if cpu0 is None or cpu1 is None or cpu1 - cpu0 > 0.0005:
                    # the holder is (slowly) running, or we cannot tell: not a stall; look again later
                    since, cpu0 = now, cpu1
                    need = _stall_interval()
                    continue
                self.blocked.add(cur)
                self.stalls += 1
                others = [i for i in range(self.n) if not self.done[i] and i not in self.blocked]
                if not others:
                    raise Deadlock("every unfinished thread waits for another one (threads %s)" % sorted(self.blocked))
                self.current = others[0]
                self.points.append((cur, tuple([cur] + others), 1, 0))
                last, since = (self.step, self.current), now
                nxt = others[0]
                cpu0 = _thread_cpu(ts[nxt])
            self.sem[nxt].release()
        for t in ts:
            t.join(5)
        return self.results, self.points


def explore(make_bodies, check, pkg, gran, bound, first_range=None, max_schedules=None):
    """Iterative context bounding, stateless: every schedule with at most `bound` preemptions.

    make_bodies() -> list of fresh thread bodies; check(results) -> None or problem.
    first_range=(lo, hi): only schedules whose first deviation lies at a point index in [lo, hi)
    (plus the deviation-free schedule when lo == 0).
    Returns dict(schedules, steps, problems[(choices, problem)], by_preemptions, points_root)."""
    out = {"schedules": 0, "steps": 0, "problems": [], "by_preemptions": {}, "points_root": 0, "capped": False}

    def run(prefix):
        s = Sched(make_bodies(), prefix, pkg, gran)
        try:
            results, points = s.run()
        except Deadlock as e:
            out["schedules"] += 1
            out["problems"].append((list(prefix), {"deadlock": str(e)}))
            return s.points
        if s.error:
            out["diverged"] = out.get("diverged", 0) + 1
            return points
        out["schedules"] += 1
        out["steps"] += len(points)
        p = sum(pt[3] for pt in points)
        out["by_preemptions"][p] = out["by_preemptions"].get(p, 0) + 1
        bad = check(results)
        if bad is not None:
            ch = [pt[2] for pt in points]
            while ch and ch[-1] == 0:
                ch.pop()
            out["problems"].append((ch, bad))
        return points

    def rec(prefix, points, start):
        used = 0
        for i, (running, enabled, k, cost) in enumerate(points):
            if i >= start:
                for alt in range(1, len(enabled)):
                    finished = running not in enabled
                    c = used + (0 if finished else 1)
                    if c > bound:
                        continue
                    if max_schedules and out["schedules"] >= max_schedules:
                        out["capped"] = True
                        return
                    pre = [pt[2] for pt in points[:i]] + [alt]
                    pts = run(pre)
                    rec(pre, pts, i + 1)
            used += cost

    root_prefix = []
    s = Sched(make_bodies(), root_prefix, pkg, gran)
    try:
        results, points = s.run()
    except Deadlock as e:
        out["schedules"] += 1
        out["problems"].append(([], {"deadlock": str(e)}))
        return out
    out["points_root"] = len(points)
    lo, hi = first_range if first_range else (0, len(points))
    if lo == 0:
        out["schedules"] += 1
        out["steps"] += len(points)
        out["by_preemptions"][0] = 1
        bad = check(results)
        if bad is not None:
            out["problems"].append(([], bad))
    # first deviation restricted to [lo, hi)
    used = 0
    for i, (running, enabled, k, cost) in enumerate(points):
        if lo <= i < hi:
            for alt in range(1, len(enabled)):
                finished = running not in enabled
                c = used + (0 if finished else 1)
                if c > bound:
                    continue
                pre = [pt[2] for pt in points[:i]] + [alt]
                pts = run(pre)
                rec(pre, pts, i + 1)
        used += cost
    return out
