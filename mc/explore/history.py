"""E2 — explicit-state exploration of operation histories on live objects.

A state *is* the history that reaches it: live objects here cannot be copied
(generators, lru_cache wrappers), so every transition is executed by building
a fresh world, replaying the history, and applying one more operation.

Two regimes (DESIGN §3.4):
  un-merged: every history up to depth D0, no de-duplication at all;
  merged:    beyond D0 up to D1, one representative history per canonical
             state is extended (canon() must contain every field the code reads
             when computing a future answer).

model:
  model.new_world()               -> fresh world
  model.ops(world)                -> list of operations enabled (small tuples)
  model.apply(world, op)          -> observation (JSON-able)
  model.check(world, hist, op, obs) -> None or (signature_tail, detail)
  model.canon(world)              -> hashable canonical state
  model.deviation(op)             -> cost (0/1) of the op as an environment deviation
"""
import collections


class Divergence(Exception):
    """Replaying a prefix did not reproduce the recorded observations: harness nondeterminism."""


def rebuild(model, hist, expect=None):
    w = model.new_world()
    for i, op in enumerate(hist):
        obs = model.apply(w, op)
        if expect is not None and expect[i] != obs:
            raise Divergence("prefix %r diverged at step %d: %r != %r" % (hist, i, obs, expect[i]))
    return w


def explore(model, first_ops, D0, D1, dev_bound, second_ops=None):
    """Explore all histories that start with one of `first_ops`.

    Returns dict(transitions, states(set of canon), violations, outcomes, max_depth,
    unmerged_histories, merged_representatives, samples)."""
    res = {"transitions": 0, "states": set(), "violations": [], "outcomes": collections.Counter(),
           "max_depth": 0, "unmerged_histories": 0, "merged_expansions": 0, "samples": [],
           "by_deviations": collections.Counter()}

    def devs(hist):
        return sum(model.deviation(op) for op in hist)

    def step(hist, op, obs_prefix):
        """Execute hist+op on a fresh world; returns (world, obs) after checking."""
        try:
            w = rebuild(model, hist, obs_prefix)
        except Divergence as dv:
            # Identically built fresh worlds replaying the same prefix gave different observations: the code
            # under test keeps state outside the objects the world owns.  Reported, then explored without the
            # prefix check so that the run completes.
            res["violations"].append((hist, ("fresh-world-replay-diverged", {"divergence": str(dv)[:400]})))
            w = rebuild(model, hist, None)
        obs = model.apply(w, op)
        res["transitions"] += 1
        res["outcomes"][model.outcome_class(op, obs)] += 1
        res["by_deviations"][devs(hist + (op,))] += 1
        bad = model.check(w, hist, op, obs)
        if bad is not None:
            res["violations"].append((hist + (op,), bad))
        res["states"].add(model.canon(w))
        res["max_depth"] = max(res["max_depth"], len(hist) + 1)
        return w, obs

    # ---- un-merged: DFS over all histories to depth D0
    frontier = []           # (hist, observations) at depth D0 for the merged regime

    def dfs(hist, obs_list):
        w0 = rebuild(model, hist, None)
        ops = model.ops(w0)
        del w0
        for op in ops:
            if not hist and op not in first_ops:
                continue
            if len(hist) == 1 and second_ops is not None and op not in second_ops:
                continue
            if devs(hist + (op,)) > dev_bound:
                continue
            w, obs = step(hist, op, obs_list)
            res["unmerged_histories"] += 1
            h2, o2 = hist + (op,), obs_list + (obs,)
            if len(res["samples"]) < 2 and len(h2) == D0 and res["unmerged_histories"] % 977 == 5:
                res["samples"].append({"history": [list(o) for o in h2], "observations": list(o2)})
            if len(h2) < D0:
                del w
                dfs(h2, o2)
            else:
                frontier.append((h2, o2, model.canon(w)))
                del w

    dfs((), ())

    # ---- merged: BFS from one representative per canonical state
    seen = {}
    level = []
    for h, o, c in frontier:
        key = (c, devs(h))
        if key not in seen:
            seen[key] = h
            level.append((h, o))
    depth = D0
    while level and depth < D1:
        nxt = []
        for hist, obs_list in level:
            w0 = rebuild(model, hist, None)
            ops = model.ops(w0)
            del w0
            for op in ops:
                if devs(hist + (op,)) > dev_bound:
                    continue
                w, obs = step(hist, op, obs_list)
                res["merged_expansions"] += 1
                key = (model.canon(w), devs(hist + (op,)))
                del w
                if key not in seen:
                    seen[key] = hist + (op,)
                    nxt.append((hist + (op,), obs_list + (obs,)))
        level = nxt
        depth += 1
    res["merged_states"] = len(seen)
    return res
