"""Operation histories executed in pristine processes.

Some state the code under test might keep lives outside every object a history
creates (a class attribute, a module-level table).  Objects built fresh for each
history do not reset such state, and a forked pool worker has already executed
thousands of other cases.  So a group of histories is handed to one *fresh
interpreter* (the "nursery": it imports the package under test and the property
module, and executes nothing else), and the nursery forks one child per
history.  Every history therefore starts from exactly the state a fresh process
has after the imports -- the same state `./check <ID> --replay` starts from --
and nothing a history does can reach another history.

parent side   run(module, function, arg)  -> the JSON-able value function(arg) returned in the nursery
nursery side  fork_each(items, fn)        -> [fn(item) for item in items], each call in its own forked child
              explore(leaves, run_leaf)   -> every leaf history in its own child, merged per distinct prefix
"""
import importlib
import json
import os
import subprocess
import sys

VERIF = os.path.dirname(os.path.dirname(os.path.dirname(os.path.abspath(__file__))))


class NurseryError(Exception):
    """The nursery itself failed (never a verdict)."""


def run(module, function, arg, timeout=3600):
    env = dict(os.environ, PYTHONHASHSEED="0", PYTHONDONTWRITEBYTECODE="1")
    p = subprocess.run([sys.executable, "-m", "mc.explore.isolated", module, function], cwd=VERIF, env=env,
                       input=json.dumps(arg), capture_output=True, text=True, timeout=timeout)
    if p.returncode != 0 or not p.stdout.startswith("RESULT "):
        raise NurseryError("nursery %s.%s exit=%s\n%s\n%s" % (module, function, p.returncode, p.stdout[-2000:], p.stderr[-4000:]))
    return json.loads(p.stdout[len("RESULT "):])


def fork_each(items, fn):
    out = []
    for item in items:
        r, w = os.pipe()
        sys.stdout.flush()
        sys.stderr.flush()
        pid = os.fork()
        if pid == 0:
            code = 0
            try:
                os.close(r)
                try:
                    data = json.dumps(["ok", fn(item)])
                except BaseException as e:      # the child must never return into the nursery's loop
                    import traceback
                    data = json.dumps(["crash", "%s: %s\n%s" % (type(e).__name__, e, traceback.format_exc()[-3000:])])
                    code = 3
                with os.fdopen(w, "w") as f:
                    f.write(data)
            finally:
                os._exit(code)
        os.close(w)
        with os.fdopen(r, "r") as f:
            data = f.read()
        os.waitpid(pid, 0)
        if not data:
            raise NurseryError("child for %r died without an answer" % (item,))
        tag, val = json.loads(data)
        if tag != "ok":
            raise NurseryError("child for %r crashed: %s" % (item, val))
        out.append(val)
    return out


def explore(leaves, run_leaf):
    """Nursery side.  `leaves` are operation lists; run_leaf(leaf) executes one on a fresh world (in its own forked
    child) and returns, per step, [outcome class, observation, problem or None].  Every distinct prefix counts once
    (the first leaf that contains it); the same prefix must give the same observation in every leaf."""
    seen, viol, outcomes = {}, [], {}
    for leaf, steps in zip(leaves, fork_each(leaves, run_leaf)):
        for k, (oc, obs, bad) in enumerate(steps):
            key = json.dumps(leaf[:k + 1])
            if key in seen:
                if seen[key] != obs:
                    viol.append({"ops": leaf[:k + 1], "bad": ["same-history-different-observation",
                                                              {"first": seen[key], "now": obs}]})
                continue
            seen[key] = obs
            outcomes[oc] = outcomes.get(oc, 0) + 1
            if bad is not None:
                viol.append({"ops": leaf[:k + 1], "bad": bad})
    return {"histories": len(seen), "leaves": len(leaves), "violations": viol, "outcomes": outcomes}


def run_steps(build, ops, tag):
    """Child side: build the world, apply the operations; an exception that escapes from the code under test into
    the model's own code ends the history and is its problem (never a crash of the nursery)."""
    try:
        world = build()
    except BaseException as e:
        return [["crash", "crash", ["%s|exception-while-building-the-objects|%s" % (tag, type(e).__name__),
                                    {"exception": "%s: %s" % (type(e).__name__, str(e)[:200])}]]]
    out = []
    for op in ops:
        try:
            out.append(world.apply(op))
        except BaseException as e:
            out.append(["crash", "crash", ["%s|exception-escaped-into-the-check|%s" % (tag, type(e).__name__),
                                           {"exception": "%s: %s" % (type(e).__name__, str(e)[:200])}]])
            break
    return out


def main(argv):
    module, function = argv
    sys.path.insert(0, VERIF)
    from mc.core import harness
    harness.bind_repo()
    import warnings
    warnings.simplefilter("ignore")
    mod = importlib.import_module(module)
    arg = json.loads(sys.stdin.read())
    res = getattr(mod, function)(arg)
    sys.stdout.write("RESULT " + json.dumps(res))
    sys.stdout.flush()


if __name__ == "__main__":
    main(sys.argv[1:])
