"""C17 — an ErrorTree can always be built and contains every error where its path says.

Error collections come from real validations: G(draft) (singles, all ordered
pairs, sibling groups[, nested]) x U_d, every collection with >= 1 error, in
every arrival order (all permutations up to 5 errors; rotations of the
collection and of its reversal above that).  The oracle is an independent
path trie over (tuple(error.path), error.validator).
"""
import itertools
import json

from jsonschema import RefResolver
from jsonschema.exceptions import ErrorTree

from mc.enum import jsonvals
from mc.props import _e1

ID = "C17"
LEVEL = "exploration"

PERM_LIMIT = {"quick": 5, "thorough": 6}

DEEP_LEAVES = [
    {"maximum": 10}, {"minimum": 12}, {"type": ["integer", "array", "object", "null"]}, {"maxLength": 0},
    {"enum": [10, 12, "x", 1]}, {"maximum": 10, "enum": [11, 1, 2]}, {"type": "string"}, {"maxItems": 1},
    {"type": "array"}, {"type": ["array", "object"], "enum": [[], {}]}, {"minItems": 3, "type": ["array", "integer"]},
    {"type": ["object", "string", "number"], "maxLength": 0},
]


def deep_schemas(d):
    """Schemas that apply a small constraint at every level of the instance (three levels of items /
    additionalProperties, no references), so that errors sit at paths of length 0-3 with errors above and
    below them; plus the draft's keywords whose errors have unusual paths at every level."""
    def nest(leaf, first):
        cur = dict(leaf)
        for _ in range(3):
            if first == "leaf":
                nxt = dict(leaf)
                nxt["items"] = cur
                nxt["additionalProperties"] = cur
            else:
                nxt = {"additionalProperties": cur, "items": cur}
                nxt.update(leaf)
            cur = nxt
        return cur
    extras = [{}]
    if d == 3:
        extras += [{"properties": {"q": {"required": True}}}, {"properties": {"a": {"required": True}, "q": {"required": True}}}]
    else:
        extras += [{"required": ["q"]}]
    if d >= 6:
        extras += [{"propertyNames": {"maxLength": 1}}, {"propertyNames": False}, {"propertyNames": {"pattern": "^b"}}]
    out = []
    for leaf in DEEP_LEAVES:
        for extra in extras:
            for first in ("leaf", "applicators"):
                out.append(nest(dict(leaf, **extra), first))
                if extra:
                    out.append(nest(dict(extra, **leaf), first))
    return [S for S in out if _e1.accepted(d, S)]


_deep = {}


def context_schemas(d):
    """Applicators whose errors carry `context`, below the root (so that the context errors' own paths are relative)."""
    a, b, c = {"type": "string"}, {"minimum": 50}, {"properties": {"b": {"type": "string"}}, "required": ["zz"]} if d >= 4 else \
        {"properties": {"b": {"type": "string"}, "zz": {"required": True}}}
    inner = [[a, b], [c, a], [b, c, {"items": a}], [{"items": [a, b]}, {"additionalProperties": a}]]
    out = []
    for members in inner:
        for kw in (("anyOf", "oneOf") if d >= 4 else ("type",)):
            app = {kw: members}
            out += [{"properties": {"a": app}}, {"items": app}, {"properties": {"a": {"items": app}}},
                    {"additionalProperties": app}, {"items": [{}, app]}]
            if d >= 4:
                out.append({"properties": {"a": {"allOf": [app, {"anyOf": members}]}}})
    return out


def big_collections(d):
    """(schema, instance) pairs that yield 30-80 errors whose locations recur in non-adjacent runs (A, B, A)."""
    two = ({"allOf": [{"items": {"properties": {"id": {"type": "integer"}}}}, {"items": {"required": ["name"]}}]}
           if d >= 4 else
           {"extends": [{"items": {"properties": {"id": {"type": "integer"}}}},
                        {"items": {"properties": {"name": {"required": True}}}}]})
    recs = lambda n: [{"id": "x%d" % i} for i in range(n)]
    out = [(two, recs(n)) for n in (15, 16, 17, 20, 40)]
    pp = {"properties": dict(("k%d" % i, {"type": "string"}) for i in range(40)),
          "patternProperties": {"^k": {"minimum": 5}}}
    out.append((pp, dict(("k%d" % i, i % 7) for i in range(40))))
    byid = {"additionalProperties": {"properties": {"age": {"type": "integer"}}}}
    out.append((byid, dict((str(1000 + i), {"age": "x"}) for i in range(20))))
    out.append((byid, {"7": {"age": "x"}, "1001": {"age": None}, "a": {"age": 1}}))
    return out


def get_deep(d):
    if d not in _deep:
        _deep[d] = deep_schemas(d) + context_schemas(d)       # built in plan(), shared with the forked workers
    return _deep[d]


ABSENT = ("zz", 7)          # indices that exist in none of the instances


def universe(tier, kind):
    ud = jsonvals.universe_distinct_leaves()
    if tier == "thorough":
        more = jsonvals.universe_pairs_quick() if kind == "pairs" else _e1.get_universe("quick")
        seen = set(json.dumps(x) for x in ud)
        ud = ud + [x for x in more if json.dumps(x) not in seen]
    return ud


def kinds(ctx):
    return ("singles", "pairs", "groups", "nested") if ctx.thorough else ("singles", "pairs", "groups")


def plan(ctx):
    units, sizes = _e1.make_units(ctx, kinds=kinds(ctx), pair_shards=32)
    for d in _e1.DRAFTS:
        units += [(d, "deep", i, 4) for i in range(4)]
        sizes["deep_d%d" % d] = len(get_deep(d))
    for d in _e1.DRAFTS:
        units.append(("big", d))
    for ci in range(len(THREAD_CASES)):
        units.append(("threads", ci, "line", 2 if ctx.thorough else 1))
        units.append(("threads", ci, "call", 2 if (ctx.thorough and ci != 1) else 1))
    return {
        "units": units,
        "rule": ("LARGE COLLECTIONS: 30-80 errors whose locations recur in non-adjacent runs (two item schemas over "
                 "15-40 records, 40 properties hit by properties and patternProperties, digit-only member names), in "
                 "rotations, reversed and sorted by location.  THREADS: 2-3 real threads ask one freshly built tree for len / total_errors / members / per-node "
                 "totals under the baton scheduler, every schedule with <= 1 (thorough 2) preemptions at line and "
                 "call granularity, 3 trees.  error collections = list(iter_errors(x)) for every check_schema-accepted schema of G(draft) "
                 "(singles, all ordered pairs, sibling groups%s, and the 'deep' schemas: a small constraint "
                 "applied at every level through three levels of items / additionalProperties, combined with "
                 "required / draft-3 required / propertyNames at every level; and context-bearing applicators below the "
                 "root, whose context errors also form collections of their own, filed by their relative paths) x U_d (instances with pairwise "
                 "distinct leaves%s) x 4 drafts with >= 1 error; each collection in EVERY arrival order when it has <= %d errors (n! "
                 "orders), otherwise in the n rotations of the collection and of its reversal (counted in "
                 "collections_above_permutation_limit). One evaluation = one arrival order: two ErrorTrees are built "
                 "from it (one for the non-inserting probes, a fresh one for indexing error-free elements) and "
                 "compared with a path trie over (path, keyword). Cases are distinct by construction (collections "
                 "are de-duplicated per unit on instance + ordered (path, keyword, schema path, error instance); "
                 "distinct orders of distinct error objects); non-trivial = the collection has >= 2 errors or an "
                 "error below the root" % (", nested" if ctx.thorough else "", " plus U" if ctx.thorough else "", PERM_LIMIT[ctx.tier])),
        "bounds": dict(sizes, universe=len(universe(ctx.tier, "singles")), universe_for_pairs=len(universe(ctx.tier, "pairs")),
                       permutation_limit=PERM_LIMIT[ctx.tier], tier=ctx.tier),
        "assumptions": ["within one work unit, two collections for the same instance whose errors agree pairwise and in "
                        "order on (path, keyword, schema path, instance) are the same collection and are explored once "
                        "(ErrorTree reads path, keyword and instance only)",
                        "errors are taken from real validations only (top-level errors of iter_errors)",
                        "lookup histories (every sequence of <= 2 lookups of an error-free / absent / error-bearing "
                        "element at every node, each on a freshly built tree, followed by membership, iteration and "
                        "totals) are explored for the first arrival order of every collection"],
    }


# ---------------------------------------------------------------- the oracle
def step_into(x, el):
    """Child of instance x at el, or raise LookupError/TypeError if there is none."""
    if isinstance(x, dict):
        return x[el]
    if isinstance(x, list) and isinstance(el, int) and not isinstance(el, bool) and 0 <= el < len(x):
        return x[el]
    raise LookupError(el)


def elements(x):
    if isinstance(x, dict):
        return list(x)
    if isinstance(x, list):
        return list(range(len(x)))
    return []


class Trie(object):
    """What the tree must say, from the multiset of (path, keyword) alone."""

    def __init__(self, errors, X):
        self.filed = {}       # path -> set of keywords
        self.children = {}    # prefix -> set of next elements
        self.instance = {}    # prefix -> (True, value) | (False, None)
        pairs = set()
        for e in errors:
            p = tuple(e.path)
            pairs.add((p, e.validator))
            self.filed.setdefault(p, set()).add(e.validator)
            for i in range(len(p) + 1):
                self.children.setdefault(p[:i], set())
                if i < len(p):
                    self.children[p[:i]].add(p[i])
        self.below = {pre: sum(1 for (p, k) in pairs if p[:len(pre)] == pre) for pre in self.children}
        for pre in self.children:
            x, ok = X, True
            for el in pre:
                try:
                    x = step_into(x, el)
                except (LookupError, TypeError):
                    ok = False
                    break
            self.instance[pre] = (ok, x if ok else None)
        self.prefixes = sorted(self.children, key=lambda p: (len(p), repr(p)))


def check_order(errors, trie, history=True):
    """Problems of ErrorTree(errors) against the trie: list of (kind, detail).  Stops at the first category."""
    try:
        tree = ErrorTree(errors)
    except Exception as ex:
        return [("construct|" + type(ex).__name__, {"trigger": None})]
    problems = []
    nodes = {(): tree}
    # following every error's path reaches a node holding it under its keyword
    for e in errors:
        node, p = tree, tuple(e.path)
        try:
            for i, el in enumerate(p):
                node = node[el]
                nodes[p[:i + 1]] = node
        except Exception as ex:
            problems.append(("walk|" + type(ex).__name__, {"error": brief(e)}))
            continue
        held = node.errors.get(e.validator) if hasattr(node.errors, "get") else None
        if held is None or tuple(held.path) != p or held.validator != e.validator:
            problems.append(("lookup|not-filed-at-its-path", {"error": brief(e)}))
    if problems:
        return problems
    # every node: keywords filed, membership, iteration, totals (nothing here inserts children)
    for pre in trie.prefixes:
        node = nodes[pre]
        want = trie.children[pre]
        if set(node.errors) != trie.filed.get(pre, set()):
            problems.append(("errors|keywords-at-node-differ", {"at": list(pre), "got": sorted(map(str, node.errors)),
                                                                "expected": sorted(map(str, trie.filed.get(pre, ())))}))
        it = list(iter(node))
        if len(it) != len(set(it)) or set(it) != want:
            problems.append(("children|iteration", {"at": list(pre), "got": it, "expected": sorted(want, key=repr)}))
        ok, x = trie.instance[pre]
        for el in want:
            if el not in node:
                problems.append(("children|contains-misses-element-with-errors", {"at": list(pre), "element": el}))
        for el in [c for c in (elements(x) if ok else [])] + list(ABSENT):
            if el not in want and el in node:
                problems.append(("children|contains-claims-error-free-element", {"at": list(pre), "element": el}))
        # membership is a read-only question: after asking it (also about error-free and absent elements)
        # iteration still reports exactly the elements with errors
        it2 = list(iter(node))
        if set(it2) != want or len(it2) != len(set(it2)):
            problems.append(("children|iteration-changed-by-membership-tests",
                             {"at": list(pre), "got": it2, "expected": sorted(want, key=repr)}))
        n = trie.below[pre]
        te = node.total_errors
        if te != n:
            problems.append(("total_errors|%s" % ("too-low" if te < n else "too-high"),
                             {"at": list(pre), "got": te, "expected": n}))
        if len(node) != n and (te == n or len(node) != te):
            problems.append(("len|differs-from-total_errors", {"at": list(pre), "got": len(node), "expected": n}))
    if problems:
        return problems
    # fresh tree: indexing an existing, error-free element gives an empty tree
    try:
        fresh = ErrorTree(errors)
    except Exception as ex:
        return [("construct-second-time|" + type(ex).__name__, {})]
    for pre in trie.prefixes:
        ok, x = trie.instance[pre]
        if not ok:
            continue
        free = [el for el in elements(x) if el not in trie.children[pre]]
        if not free:
            continue
        node = fresh
        for el in pre:
            node = node[el]
        for el in free:
            try:
                child = node[el]
            except Exception as ex:
                problems.append(("index-error-free|" + type(ex).__name__, {"at": list(pre), "element": el}))
                continue
            try:
                empty = child.total_errors == 0 and len(child) == 0 and not child.errors and list(child) == []
            except Exception as ex:
                empty = False
            if not empty:
                problems.append(("index-error-free|not-an-empty-tree", {"at": list(pre), "element": el}))
    if not problems and history:
        return check_history(errors, trie)
    return problems


def check_history(errors, trie):
    """Every sequence of <= 2 lookups at every node of a freshly built tree (an error-free element that exists,
    an element that neither the instance nor the tree has, an element with errors); lookups are questions:
    afterwards membership, iteration, total_errors and len() must still say exactly what the errors say."""
    problems = []
    for pre in trie.prefixes:
        ok, x = trie.instance[pre]
        want = trie.children[pre]
        here = elements(x) if ok else []
        free = [el for el in here if el not in want][:3]
        absent = [a for a in ABSENT if a not in want and a not in here]
        ops = [("error-free", el) for el in free] + [("absent", a) for a in absent] + \
              [("with-errors", el) for el in sorted(want, key=repr)[:2]]
        seqs = [(o,) for o in ops] + [(a, b) for a in ops for b in ops if (a[0], b[0]) != ("with-errors", "with-errors")]
        candidates = list(want) + free + absent
        for seq in seqs:
            try:
                tree = ErrorTree(errors)
                node = tree
                for el in pre:
                    node = node[el]
            except Exception:
                break       # construction / walking problems are reported by the earlier stages
            for kind, el in seq:
                try:
                    child = node[el]
                    if kind == "error-free" and (child.total_errors != 0 or child.errors or list(child)):
                        problems.append(("history|index-error-free|not-an-empty-tree", {"at": list(pre), "lookups": [list(o) for o in seq]}))
                except Exception as ex:
                    if kind != "absent":
                        problems.append(("history|index-%s|%s" % (kind, type(ex).__name__),
                                         {"at": list(pre), "lookups": [list(o) for o in seq]}))
            # what a lookup returned stays what it was: the (empty) tree for an error-free element still answers
            # for that element after other lookups happened -- elements that exist below it give empty trees
            if ok and seq[0][0] == "error-free":
                el0 = seq[0][1]
                try:
                    first = ErrorTree(errors)
                    n0 = first
                    for el in pre:
                        n0 = n0[el]
                    held = n0[el0]
                    for kind, el in seq[1:]:
                        try:
                            n0[el]
                        except Exception:
                            pass
                    for sub in elements(step_into(x, el0))[:3]:
                        deeper = held[sub]
                        if deeper.total_errors != 0 or deeper.errors or list(deeper):
                            problems.append(("history|below-error-free|not-an-empty-tree",
                                             {"at": list(pre) + [el0], "element": sub, "lookups": [list(o) for o in seq]}))
                except Exception as ex:
                    problems.append(("history|below-error-free|%s" % type(ex).__name__,
                                     {"at": list(pre) + [el0], "lookups": [list(o) for o in seq]}))
            # a tree handed out by a lookup belongs to that lookup: filing something into it through the public
            # __setitem__ changes neither what other error-free lookups return nor a tree built afterwards
            if ok and len(seq) == 1 and seq[0][0] == "error-free":
                el0 = seq[0][1]
                try:
                    t1 = ErrorTree(errors)
                    n1 = t1
                    for el in pre:
                        n1 = n1[el]
                    held = n1[el0]
                    held["filed-by-caller"] = ErrorTree(errors[:1])
                    t2 = ErrorTree(errors)
                    for tree_, label in ((t1, "same-tree"), (t2, "tree-built-afterwards")):
                        n2 = tree_
                        for el in pre:
                            n2 = n2[el]
                        for other in free:
                            if other == el0 and tree_ is t1:
                                continue
                            got = n2[other]
                            if got.total_errors != 0 or got.errors or list(got):
                                problems.append(("history|setitem-on-returned-tree|leaks-into-%s" % label,
                                                 {"at": list(pre), "filed_under": el0, "looked_up": other}))
                                break
                        if len(tree_) != trie.below[()] and tree_ is t2:
                            problems.append(("history|setitem-on-returned-tree|totals-of-tree-built-afterwards",
                                             {"at": list(pre), "filed_under": el0}))
                except Exception as ex:
                    problems.append(("history|setitem-on-returned-tree|%s" % type(ex).__name__, {"at": list(pre)}))
            # totals are a function of what the tree holds NOW: ask, file a subtree below this node through the public
            # __setitem__, ask again -- at this node and at the root
            if len(seq) == 1 and seq[0][0] == "with-errors" and errors:
                try:
                    t3 = ErrorTree(errors)
                    n3 = t3
                    for el in pre:
                        n3 = n3[el]
                    before_root, before_node = len(t3), len(n3)
                    sub = ErrorTree(errors[:1])
                    add = len(sub)
                    n3[seq[0][1]]["filed-by-caller"] = sub
                    if len(t3) != before_root + add or t3.total_errors != before_root + add or len(n3) != before_node + add:
                        problems.append(("history|totals-after-setitem|stale", {"at": list(pre), "below": seq[0][1],
                                                                              "root_before": before_root, "added": add,
                                                                              "root_after": len(t3)}))
                except Exception as ex:
                    problems.append(("history|totals-after-setitem|%s" % type(ex).__name__, {"at": list(pre)}))
            it = list(iter(node))
            what = "+".join(k for k, _ in seq)
            if set(it) != want or len(it) != len(set(it)):
                problems.append(("history|iteration-changed-by-lookup|" + what,
                                 {"at": list(pre), "lookups": [list(o) for o in seq], "got": it, "expected": sorted(want, key=repr)}))
            else:
                for el in candidates:
                    if (el in node) != (el in want):
                        problems.append(("history|membership-changed-by-lookup|" + what,
                                         {"at": list(pre), "lookups": [list(o) for o in seq], "element": el}))
                        break
            if node.total_errors != trie.below[pre] or len(node) != trie.below[pre] or len(tree) != trie.below[()]:
                problems.append(("history|totals-changed-by-lookup|" + what, {"at": list(pre), "lookups": [list(o) for o in seq]}))
            if problems:
                return problems
    return problems


# ---- two threads asking one tree for its totals / members at the same time ------------------------------
THREAD_CASES = [
    (7, {"properties": {"a": {"type": "string", "minLength": 3}, "b": {"items": {"type": "integer"}}}, "required": ["c"]},
     {"a": 1, "b": [1, "x", "y"]}),
    (4, {"items": {"properties": {"k": {"enum": [0]}}}, "minItems": 9}, [{"k": 1}, {"k": 2}, {"k": 0}]),
    (3, {"properties": {"a": {"properties": {"b": {"type": "string", "required": True}}}}}, {"a": {"b": 1, "c": 2}}),
]


def thread_bodies(ci):
    d, S, X = THREAD_CASES[ci]
    errors = list(_e1.CLS[d](S).iter_errors(X))
    tree = ErrorTree(errors)
    trie = Trie(errors, X)

    def totals():
        return (len(tree), tree.total_errors, sorted(map(repr, tree)))

    def walk():
        out = []
        for pre in trie.prefixes:
            node = tree
            for el in pre:
                node = node[el]
            out.append((list(pre), node.total_errors, len(node)))
        return out
    return [totals, walk, totals][:2 + (ci % 2)], trie


def thread_check(ci):
    def check(results):
        bodies, trie = thread_bodies(ci)        # expected values from the trie
        want_root = trie.below[()]
        for r in results:
            if isinstance(r, tuple) and r and r[0] == "EXC":
                return {"raised": list(r)}
            if isinstance(r, tuple):
                if r[0] != want_root or r[1] != want_root or r[2] != sorted(map(repr, trie.children[()])):
                    return {"totals": list(r), "expected": want_root}
            else:
                for pre, te, ln in r:
                    if te != trie.below[tuple(pre)] or ln != trie.below[tuple(pre)]:
                        return {"at": pre, "total_errors": te, "len": ln, "expected": trie.below[tuple(pre)]}
        return None
    return check


def run_threads(unit, ctx):
    import os
    import jsonschema
    from mc.explore import threads
    _, ci, gran, bound = unit
    pkg = os.path.dirname(os.path.abspath(jsonschema.__file__))
    r = threads.explore(lambda: thread_bodies(ci)[0], thread_check(ci), pkg, gran, bound)
    viol = []
    for choices, bad in r["problems"]:
        viol.append({"signature": "C17|threads|%s|%s" % (gran, sorted(bad)[0]), "size": len(choices),
                     "case": {"threads": True, "case_index": ci, "granularity": gran, "choices": choices}, "detail": bad})
    outcomes = {"threads-preemptions=%d" % k: v for k, v in r["by_preemptions"].items()}
    return {"evaluations": r["schedules"], "nontrivial": sum(v for k, v in r["by_preemptions"].items() if k > 0),
            "violations": viol, "samples": [], "outcomes": outcomes,
            "counters": {"thread_schedules": r["schedules"], "thread_scheduling_points": r["steps"]}}


def brief(e):
    return {"path": list(e.path), "keyword": e.validator, "schema_path": list(e.schema_path)}


def orders(n, limit):
    """Index orders explored for a collection of n errors; (orders, capped)."""
    if n <= limit:
        return itertools.permutations(range(n)), False
    base = list(range(n))
    rev = base[::-1]
    out = []
    for i in range(n):
        out.append(tuple(base[i:] + base[:i]))
        out.append(tuple(rev[i:] + rev[:i]))
    return out, True


# ---------------------------------------------------------------- classification
def err_class(e, d, X):
    sp = list(e.schema_path)
    if "propertyNames" in sp:
        return "propertyNames"
    if d == 3 and e.validator == "required" and len(e.path):
        x = X
        try:
            for el in list(e.path)[:-1]:
                x = step_into(x, el)
            if isinstance(x, dict) and list(e.path)[-1] not in x:
                return "draft3-required"
        except (LookupError, TypeError):
            pass
    if e.validator is None:
        return "false-schema"
    return "ordinary"


def relation(earlier, trigger):
    a, b = tuple(earlier.path), tuple(trigger.path)
    if a == b:
        return "same-node"
    if b[:len(a)] == a:
        if not a:
            return "root"
        return "parent" if len(a) == len(b) - 1 else "ancestor"
    if a[:len(b)] == b:
        return "descendant"
    return "elsewhere"


def shrink_order(seq, trie_for, kind):
    """Greedy deletion of errors (order kept) while the first problem keeps its kind."""
    cur = list(seq)
    changed = True
    while changed and len(cur) > 1:
        changed = False
        for i in range(len(cur)):
            cand = cur[:i] + cur[i + 1:]
            pr = check_order(cand, trie_for(cand))
            if pr and pr[0][0] == kind:
                cur = cand
                changed = True
                break
    return cur


def signature(kind, seq, problem, d, X):
    classes = [err_class(e, d, X) for e in seq]
    if kind.startswith("construct"):
        if len(seq) == 1:
            return "C17|%s|%s-alone" % (kind, classes[0])
        tc, ec, rel = classes[-1], classes[-2], relation(seq[-2], seq[-1])
        if ec == "propertyNames" and rel in ("root", "parent", "ancestor"):
            return "C17|%s|propertyNames-then-deeper" % kind
        if tc == "draft3-required" and ec != "propertyNames" and rel in ("root", "parent"):
            return "C17|%s|draft3-required-after-%s-error" % (kind, rel)
        return "C17|%s|%s-after-%s-%s" % (kind, tc, rel, ec)
    if kind.startswith("index-error-free"):
        at = tuple(problem[1]["at"])
        here = [c for e, c in zip(seq, classes) if tuple(e.path) == at]
        last = here[-1] if here else "none"
        return "C17|%s|last-error-filed-at-node=%s" % (kind, last)
    if kind.startswith("walk") or kind.startswith("lookup"):
        return "C17|%s|%s" % (kind, "+".join(sorted(set(classes))))
    return "C17|%s" % kind


def ekey(e):
    return [list(e.path), e.validator, list(e.schema_path)]


def pick(errors, order):
    """Errors matching the keys of `order` (a list of [path, keyword, schema_path]), in that order."""
    pool = list(errors)
    out = []
    for key in order:
        for i, e in enumerate(pool):
            if ekey(e) == key:
                out.append(pool.pop(i))
                break
        else:
            return None
    return out


# ---------------------------------------------------------------- harness protocol
def run_big(unit, ctx):
    _, d = unit
    ev = nt = 0
    viol, outcomes = [], {}
    for bi, (S, X) in enumerate(big_collections(d)):
        if not _e1.accepted(d, S):
            continue
        errors = list(_e1.CLS[d](S).iter_errors(X))
        n = len(errors)
        trie = Trie(errors, X)
        ords, cap = orders(n, 0)            # rotations of the collection and of its reversal
        byloc = sorted(range(n), key=lambda i: repr(list(errors[i].path)))
        for oi, order in enumerate(list(ords)[::max(1, n // 8)] + [tuple(byloc), tuple(byloc[::-1])]):
            seq = [errors[i] for i in order]
            ev += 1
            nt += 1
            pr = check_order(seq, trie, history=(oi == 0))
            key = "big:%d-errors:%s" % (n, "ok" if not pr else pr[0][0])
            outcomes[key] = outcomes.get(key, 0) + 1
            if pr:
                viol.append({"signature": "C17|large-collection|%s" % pr[0][0], "size": n,
                             "case": {"draft": d, "big": bi, "order_index": oi}, "detail": {"errors": n, "problems": [list(p) for p in pr[:2]]}})
                break
    return {"evaluations": ev, "nontrivial": nt, "violations": viol, "samples": [], "outcomes": outcomes,
            "counters": {"large_collections": ev}}


def run_unit(unit, ctx):
    if unit[0] == "big":
        return run_big(unit, ctx)
    if unit[0] == "threads":
        return run_threads(unit, ctx)
    d = unit[0]
    U = universe(ctx.tier, unit[1])
    ev = nt = nschemas = ncoll = capped = 0
    outcomes, samples, found, memo = {}, [], {}, {}
    resolver = RefResolver("", {})
    seen = set()        # per unit, so that the explored set does not depend on how units meet workers
    xkeys = [json.dumps(x) for x in U]
    ndistinct = 0
    limit = PERM_LIMIT[ctx.tier]
    for S in (get_deep(d)[unit[2]::unit[3]] if unit[1] == "deep" else _e1.iter_unit(unit, ctx.tier)):
        if unit[1] not in ("singles", "deep") and not _e1.accepted(d, S):
            continue
        nschemas += 1
        v = _e1.CLS[d](S, resolver=resolver)     # G has no references: the resolver is never consulted
        for X, xkey in zip(U, xkeys):
            try:
                errors = list(v.iter_errors(X))
            except Exception:
                continue            # totality is C03's business
            n = len(errors)
            if not n:
                continue
            ncoll += 1
            key = "errors=%d" % min(n, 8)
            outcomes[key] = outcomes.get(key, 0) + 1
            ckey = (xkey, tuple((tuple(e.path), e.validator, tuple(e.schema_path), repr(e.instance)) for e in errors))
            if ckey in seen:
                continue
            seen.add(ckey)
            ndistinct += 1
            # the context errors of an error below the root form a collection of their own: an ErrorTree built from
            # them files each under its own (relative) path, i.e. relative to the instance the parent was about
            for pe in errors:
                if pe.context and len(pe.absolute_path):
                    sub = list(pe.context)
                    ckey2 = (xkey, "ctx", tuple((tuple(e.path), e.validator, tuple(e.schema_path)) for e in sub))
                    if ckey2 in seen:
                        continue
                    seen.add(ckey2)
                    ev += 1
                    nt += 1
                    try:
                        pr2 = check_order(sub, Trie(sub, pe.instance), history=False)
                    except Exception as ex:
                        pr2 = [("context-collection|" + type(ex).__name__, {})]
                    if pr2:
                        kind2 = pr2[0][0]
                        sig2 = "C17|context-collection|%s" % kind2
                        outcomes["problem:" + sig2] = outcomes.get("problem:" + sig2, 0) + 1
                        slot = found.get(sig2)
                        if slot is None:
                            found[sig2] = slot = [0, None]
                        slot[0] += 1
                        size2 = len(json.dumps(S)) + len(xkey)
                        if slot[1] is None or size2 < slot[1]["size"]:
                            slot[1] = {"signature": sig2, "size": size2,
                                       "case": {"draft": d, "schema": S, "instance": X, "context_of": ekey(pe)},
                                       "detail": {"problems": [list(p) for p in pr2[:3]]}}
            trie = Trie(errors, X)
            interesting = n >= 2 or any(len(e.path) for e in errors)
            ords, cap = orders(n, limit)
            if cap:
                capped += 1
            for oi, order in enumerate(ords):
                seq = [errors[i] for i in order]
                ev += 1
                if interesting:
                    nt += 1
                problems = check_order(seq, trie, history=(oi == 0))
                if not problems:
                    continue
                kind = problems[0][0]
                okey = "problem:" + kind
                outcomes[okey] = outcomes.get(okey, 0) + 1
                mk = (kind, tuple((tuple(e.path), e.validator, err_class(e, d, X), repr(e.instance)) for e in seq), xkey)
                hit = memo.get(mk)
                if hit is None:
                    small = shrink_order(seq, lambda c: Trie(c, X), kind)
                    pr = check_order(small, Trie(small, X))
                    kept = [i for i, e in enumerate(seq) if any(e is k for k in small)]
                    hit = memo[mk] = (signature(kind, small, pr[0], d, X), kept, pr[:3])
                sig, kept, pr = hit                     # positions are valid for every sequence with this key
                order_keys = [ekey(seq[i]) for i in kept]
                case = {"draft": d, "schema": S, "instance": X, "order": order_keys}
                size = len(json.dumps(S)) + len(json.dumps(X)) + 10 * len(order_keys)
                slot = found.get(sig)
                if slot is None:
                    found[sig] = slot = [0, None]
                slot[0] += 1
                if slot[1] is None or size < slot[1]["size"]:
                    slot[1] = {"signature": sig, "case": case, "size": size,
                               "detail": {"problems": [list(p) for p in pr],
                                          "arrival_order_seen": [brief(e) for e in seq]}}
            if n >= 3 and len(samples) < 2 and nschemas % 97 == 5:
                samples.append({"draft": d, "schema": S, "instance": X,
                                "errors": [[list(e.path), e.validator] for e in errors],
                                "orders_explored": len(list(orders(n, limit)[0]))})
    viol = []
    for sig, (count, vv) in found.items():
        vv["detail"]["failing_orders_in_this_unit"] = count
        viol.append(vv)
    return {"evaluations": ev, "nontrivial": nt, "violations": viol, "samples": samples, "outcomes": outcomes,
            "counters": {"schemas_accepted": nschemas, "collections": ncoll, "distinct_collections_in_their_units": ndistinct,
                         "collections_above_permutation_limit": capped,
                         "failing_orders_before_grouping": sum(c for c, _ in found.values())}}


def finish(merged, plan, ctx):
    if not plan.get("cap_hit"):
        plan["cap_hit"] = merged["counters"].get("collections_above_permutation_limit", 0) > 0


def replay(case, ctx):
    if "big" in case:
        r = run_big(("big", case["draft"]), ctx)
        return {"reproduced": bool(r["violations"]), "violations": [v["signature"] for v in r["violations"]]}
    if case.get("context_of"):
        d, S, X = case["draft"], case["schema"], case["instance"]
        for pe in _e1.CLS[d](S).iter_errors(X):
            if ekey(pe) == case["context_of"] and pe.context:
                sub = list(pe.context)
                pr = check_order(sub, Trie(sub, pe.instance), history=False)
                return {"reproduced": bool(pr), "problems": [list(p) for p in pr[:3]]}
        return {"reproduced": False, "why": "no such error"}
    if case.get("threads"):
        import os
        import jsonschema
        from mc.explore import threads
        pkg = os.path.dirname(os.path.abspath(jsonschema.__file__))
        sc = threads.Sched(thread_bodies(case["case_index"])[0], case["choices"], pkg, case["granularity"])
        results, points = sc.run()
        bad = thread_check(case["case_index"])(results)
        return {"reproduced": bad is not None, "problem": bad}
    d, S, X = case["draft"], case["schema"], case["instance"]
    errors = list(_e1.CLS[d](S).iter_errors(X))
    seq = pick(errors, case["order"])
    if seq is None:
        return {"reproduced": False, "why": "the validation no longer produces these errors",
                "errors": [ekey(e) for e in errors]}
    problems = check_order(seq, Trie(seq, X))
    return {"reproduced": bool(problems), "problems": [list(p) for p in problems[:4]],
            "order": [brief(e) for e in seq]}
