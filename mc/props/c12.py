"""C12 — `format` is off unless a checker is given, and then follows the checker exactly.

Finite product, enumerated completely:

  format names   every name registered in FormatChecker.checkers or in a draft
                 checker object, plus "nope", "" and "cust"
  instances      one valid + one invalid string per built-in family, "", and the
                 non-strings null true false 0 -1 1.5 2**32 2**128 10**400 []
                 ["127.0.0.1"] {} {"a": "b"}
  checkers       None | FormatChecker() | FormatChecker(formats=S) for every
                 S <= a 3-name set | every draft checker object | custom
                 functions (registered on fresh FormatChecker *instances*, never
                 class-wide) that return one of True False 0 1 "" "x" None [] /
                 answer isinstance(instance, str) / raise a listed exception, a
                 subclass of a listed one, an unlisted one, a superclass of a
                 listed one -- x raises in {(), ValueError, (KeyError, ValueError)}
                 x base checker {empty, FormatChecker()} x registered under
                 {"cust", a built-in name, ""}
  validators     Draft 3 / 4 / 6 / 7 classes
  position       `format` at the top of the schema / below `properties`
                 (thorough: also below items, additionalProperties, behind $ref;
                 a second valid/invalid string per family; ten more non-strings)

Oracle: the small model `expected()` below, written from the documentation of
FormatChecker and of the `format` keyword -- nothing else.
"""
import re

import jsonschema
from jsonschema import (Draft3Validator, Draft4Validator, Draft6Validator,
                        Draft7Validator, FormatChecker)
from jsonschema.exceptions import FormatError

from mc.ref import formats as F

ID = "C12"
LEVEL = "exploration"

CLS = {3: Draft3Validator, 4: Draft4Validator, 6: Draft6Validator, 7: Draft7Validator}
DRAFTS = (3, 4, 6, 7)

# ---------------------------------------------------------------- alphabets

DRAFT_CHECKERS = [a for a in sorted(dir(jsonschema)) if re.fullmatch(r"draft\d+_format_checker", a)]
CLASS_REGISTRY = dict(FormatChecker.checkers)           # snapshot: must never change (we never use cls_checks)
REGISTERED = sorted(set(CLASS_REGISTRY) | {n for a in DRAFT_CHECKERS for n in getattr(jsonschema, a).checkers})
NAMES = REGISTERED + ["nope", "", "cust"]

STRINGS_BY_FAMILY = {
    "ipv4": ("127.0.0.1", "256.0.0.1"),
    "ipv6": ("::1", "1::2::3"),
    "date": ("2020-02-29", "2019-02-29"),
    "email": ("a@b", "ab"),
    "regex": ("a+", "a**"),
    "time": ("12:00:00", "25:00:00"),
    "idn-hostname": ("example.com", "a..b"),
}


def _family(name):
    f = F.FAMILY.get(name, name)
    return "email" if f == "idn-email" else f


MORE_STRINGS_BY_FAMILY = {      # thorough tier: a second valid / invalid pair
    "ipv4": ("1.2.3.4", "01.2.3.4"),
    "ipv6": ("1:2:3:4:5:6:7:8", "fe80::1%eth0"),
    "date": ("1999-12-31", "2020-13-01"),
    "email": ("@", "a.b"),
    "regex": ("(a)\\1", "("),
    "time": ("00:00:00", "1:2"),
    "idn-hostname": ("\xdf.de", "-a"),
}


def strings(tier):
    out = []
    tables = [STRINGS_BY_FAMILY] + ([MORE_STRINGS_BY_FAMILY] if tier == "thorough" else [])
    for table in tables:
        for n in REGISTERED:
            for s in table.get(_family(n), ()):
                if s not in out:
                    out.append(s)
    return out + [""]


NONSTRINGS = [None, True, False, 0, -1, 1.5, 2 ** 32, 2 ** 128, 10 ** 400, [], ["127.0.0.1"], {}, {"a": "b"}]
MORE_NONSTRINGS = [1, 0.0, -0.5, 1e308, 256, -2 ** 63, [0], [[]], {"": ""}, {"127.0.0.1": 0}]


class Special(object):
    """A conforming non-string whose repr() raises (an integer beyond CPython's 4300-digit str limit, an array
    nested beyond the recursion limit).  It cannot be written into a JSON case file either, so cases carry a
    descriptor.  Used only where the model expects 'pass': a conforming instance needs no message, so nothing
    may try to render it (where the verdict is 'fail' the library's own message rendering raises for such
    values on the unchanged tree too; that is the same limit C09 keeps out of its universe)."""

    def __init__(self, kind, n):
        self.kind, self.n = kind, n

    def build(self):
        if self.kind == "pow10":
            return 10 ** self.n
        x = []
        for _ in range(self.n):
            x = [x]
        return x

    def desc(self):
        return {"__special__": [self.kind, self.n]}


SPECIALS = [Special("pow10", 5000), Special("nested-array", 3000)]


def real(x):
    if isinstance(x, Special):
        return x.build()
    if isinstance(x, dict) and "__special__" in x:
        return Special(*x["__special__"]).build()
    return x


def instances(tier):
    return strings(tier) + NONSTRINGS + (MORE_NONSTRINGS if tier == "thorough" else []) + SPECIALS


def positions(tier):
    return ("top", "properties") + (("items", "additionalProperties", "ref") if tier == "thorough" else ())


def place(pos, name, x):
    """-> (schema, instance, path of x inside the instance)"""
    f = {"format": name}
    if pos == "top":
        return f, x, []
    if pos == "properties":
        return {"properties": {"p": f}}, {"p": x}, ["p"]
    if pos == "items":
        return {"items": f}, [x], [0]
    if pos == "additionalProperties":
        return {"additionalProperties": f}, {"k": x}, ["k"]
    return {"definitions": {"f": f}, "$ref": "#/definitions/f"}, x, []

_pref = [n for n in ("ipv4", "date", "regex") if n in CLASS_REGISTRY]
SUBSET_BASE = (_pref + [n for n in sorted(CLASS_REGISTRY) if n not in _pref])[:3]
BUILTIN_REG = "ipv4" if "ipv4" in CLASS_REGISTRY else sorted(CLASS_REGISTRY)[0]

RETURNS = [True, False, 0, 1, "", "x", None, []]
RAISES = {"none": (), "ValueError": ValueError, "tuple": (KeyError, ValueError)}
# what a custom function raises -> (exception class, is it listed under a non-empty `raises`?)
RAISE_KINDS = {"listed": (ValueError, True), "listed-subclass": (UnicodeError, True),
               "unlisted": (RuntimeError, False), "unlisted-superclass": (Exception, False),
               # exceptions the library itself might catch for its own purposes (dict lookups, iteration, attribute
               # access): listed only where the `raises` tuple names them
               "KeyError": (KeyError, "tuple"), "IndexError": (IndexError, False), "LookupError": (LookupError, False),
               "AttributeError": (AttributeError, False), "TypeError": (TypeError, False),
               "StopIteration": (StopIteration, False)}


def is_listed(cfg_raises, kind):
    flag = RAISE_KINDS[kind][1]
    return flag is True or flag == cfg_raises


def all_configs():
    out = [{"kind": "none"}, {"kind": "default"}]
    for mask in range(1 << len(SUBSET_BASE)):
        out.append({"kind": "subset", "formats": [n for i, n in enumerate(SUBSET_BASE) if mask >> i & 1]})
    for how in ("tuple", "set", "generator", "iterator", "dict-keys"):
        out.append({"kind": "subset", "formats": list(SUBSET_BASE[:2]), "as": how})
    for a in DRAFT_CHECKERS:
        out.append({"kind": "draft", "attr": a})
    for base in ("empty", "default"):
        for reg in ("cust", BUILTIN_REG, ""):
            for rs in ("none", "ValueError", "tuple"):
                behs = [["return", i] for i in range(len(RETURNS))] + [["pred", "isstr"]]
                if rs == "none":
                    behs.append(["raise", "unlisted-nothing-listed"])
                else:
                    behs += [["raise", k] for k in sorted(RAISE_KINDS)]
                for b in behs:
                    out.append({"kind": "custom", "base": base, "reg": reg, "raises": rs, "behaviour": b})
    return out


CONFIGS = all_configs()


class Built(object):
    """A live checker for one configuration + what the model needs to know about it."""

    def __init__(self, cfg):
        self.cfg = cfg
        self.holder = {"exc": None, "calls": 0}
        k = cfg["kind"]
        self.custom_name = None
        if k == "none":
            self.chk, self.known = None, set()
        elif k == "default":
            self.chk, self.known = FormatChecker(), set(CLASS_REGISTRY)
        elif k == "subset":
            names = list(cfg["formats"])
            how = cfg.get("as", "list")
            arg = {"list": lambda: names, "tuple": lambda: tuple(names), "set": lambda: set(names),
                   "generator": lambda: (n for n in names), "iterator": lambda: iter(names),
                   "dict-keys": lambda: dict.fromkeys(names).keys()}[how]()
            self.chk, self.known = FormatChecker(formats=arg), set(names)
        elif k == "draft":
            self.chk = getattr(jsonschema, cfg["attr"])
            self.known = set(self.chk.checkers)
        else:
            self.chk = FormatChecker(formats=()) if cfg["base"] == "empty" else FormatChecker()
            self.known = (set() if cfg["base"] == "empty" else set(CLASS_REGISTRY)) | {cfg["reg"]}
            self.custom_name = cfg["reg"]
            self.chk.checks(cfg["reg"], raises=RAISES[cfg["raises"]])(self.make_func(cfg["behaviour"]))
        if self.chk is not None and set(self.chk.checkers) != self.known:
            self.known_mismatch = sorted(set(self.chk.checkers) ^ self.known)
        else:
            self.known_mismatch = None

    def make_func(self, beh):
        holder = self.holder
        if beh[0] == "return":
            value = RETURNS[beh[1]]

            def func(instance):
                holder["calls"] += 1
                return value
        elif beh[0] == "pred":
            def func(instance):
                holder["calls"] += 1
                return isinstance(instance, str)
        else:
            exc_class = ValueError if beh[1] == "unlisted-nothing-listed" else RAISE_KINDS[beh[1]][0]

            def func(instance):
                holder["calls"] += 1
                holder["exc"] = e = exc_class("boom")
                raise e
        return func


# ---------------------------------------------------------------- the model


def expected(cfg, known, name, x):
    """-> "pass" | "fail" (no cause) | "fail-cause" (cause is the raised object) |
          "propagate" (the raised object reaches the caller) | "either" (built-in x string: conforms() decides)."""
    if cfg["kind"] == "none":
        return "pass"                               # no checker: format has no effect
    if name not in known:
        return "pass"                               # unknown names always pass
    if cfg["kind"] == "custom" and name == cfg["reg"]:
        beh = cfg["behaviour"]
        if beh[0] == "return":
            return "pass" if RETURNS[beh[1]] else "fail"
        if beh[0] == "pred":
            return "pass" if isinstance(x, str) else "fail"
        if beh[1] != "unlisted-nothing-listed" and is_listed(cfg["raises"], beh[1]):
            return "fail-cause"
        return "propagate"
    if not isinstance(x, str):
        return "pass"                               # built-in string formats ignore non-strings
    return "either"


# ---------------------------------------------------------------- observation


def jtype(x):
    if x is None:
        return "null"
    if isinstance(x, bool):
        return "boolean"
    if isinstance(x, int):
        return "integer"
    if isinstance(x, float):
        return "number"
    if isinstance(x, str):
        return "string"
    return "array" if isinstance(x, list) else "object"


def observe(built, d, pos, name, x):
    """Run the real code three ways; every observation is a small tuple."""
    schema, inst, where = place(pos, name, x)
    h = built.holder
    v = CLS[d](schema, format_checker=built.chk)
    h["exc"] = None
    try:
        errs = list(v.iter_errors(inst))
        if not errs:
            ov = ("pass",)
        else:
            e = errs[0]
            ov = ("fail", len(errs), e.validator, e.cause, list(e.absolute_path), e.instance is x or e.instance == x)
    except Exception as e:
        ov = ("raise", e)
    exc_v = h["exc"]
    if built.chk is None:
        return ov, exc_v, None, None, None, None
    h["exc"] = None
    try:
        r = built.chk.check(x, name)
        oc = ("pass", r)
    except FormatError as e:
        oc = ("fail", e.cause)
    except Exception as e:
        oc = ("raise", e)
    exc_c = h["exc"]
    h["exc"] = None
    try:
        of = ("ret", built.chk.conforms(x, name))
    except Exception as e:
        of = ("raise", e)
    exc_f = h["exc"]
    return ov, exc_v, oc, exc_c, of, exc_f


def ename(e):
    return type(e).__name__


def judge(built, d, pos, name, x):
    """-> (expected class, observed class, problem or None); problem = (signature tail, detail)."""
    cfg = built.cfg
    if built.known_mismatch is not None:
        return "?", "?", ("checker-knows-wrong-names|%s" % cfg["kind"], {"difference": built.known_mismatch})
    exp = expected(cfg, built.known, name, x)
    ov, exc_v, oc, exc_c, of, exc_f = observe(built, d, pos, name, x)
    where = place(pos, name, x)[2]
    obs = ov[0] if ov[0] != "raise" else "raise-" + ename(ov[1])

    if cfg["kind"] == "none":
        if ov[0] == "fail":
            return exp, obs, ("no-checker|format-error", {"validator": ov[2]})
        if ov[0] == "raise":
            return exp, obs, ("no-checker|raises-" + ename(ov[1]), None)
        return exp, obs, None

    # 1. conforms() is a bool and tells the same story as check()
    if of[0] == "ret" and type(of[1]) is not bool:
        return exp, obs, ("conforms-returns-" + type(of[1]).__name__, None)
    story_c = oc[0]
    story_f = "raise" if of[0] == "raise" else ("pass" if of[1] else "fail")
    if story_c != story_f or (story_c == "raise" and (type(oc[1]) is not type(of[1]))):
        return exp, obs, ("conforms-vs-check|check-%s|conforms-%s" % (story_c, story_f), None)
    # 2. the validator tells the same story as conforms()
    if ov[0] != story_f:
        return exp, obs, ("%s|validator-%s-but-conforms-%s" % (kind_of(cfg, built.known, name, x), obs, story_f),
                          {"check": story_c})
    if ov[0] == "fail":
        if ov[1] != 1 or ov[2] != "format" or ov[4] != where or not ov[5]:
            return exp, obs, ("error-shape", {"errors": ov[1], "validator": ov[2], "path": ov[4]})
        if (ov[3] is None) != (oc[1] is None) or type(ov[3]) is not type(oc[1]):
            return exp, obs, ("%s|cause-differs-from-FormatError-cause" % kind_of(cfg, built.known, name, x),
                              {"validation_error_cause": repr(ov[3]), "format_error_cause": repr(oc[1])})
    # 3. the model
    k = kind_of(cfg, built.known, name, x)
    if exp == "either":
        return exp, obs, None
    if exp == "pass":
        if ov[0] != "pass":
            return exp, obs, ("%s|expected-pass|observed-%s" % (k, obs), None)
    elif exp == "fail":
        if ov[0] != "fail":
            return exp, obs, ("%s|expected-fail|observed-%s" % (k, obs), None)
        if ov[3] is not None or oc[1] is not None:
            return exp, obs, ("%s|unexpected-cause" % k, {"cause": repr(ov[3])})
    elif exp == "fail-cause":
        if ov[0] != "fail":
            return exp, obs, ("%s|expected-fail-with-cause|observed-%s" % (k, obs), None)
        if ov[3] is None or oc[1] is None:
            return exp, obs, ("%s|cause-lost" % k, None)
        if ov[3] is not exc_v or oc[1] is not exc_c:
            return exp, obs, ("%s|cause-is-another-object" % k, {"cause": repr(ov[3])})
    elif exp == "propagate":
        if ov[0] != "raise":
            return exp, obs, ("%s|expected-propagation|observed-%s" % (k, obs), None)
        if ov[1] is not exc_v or oc[1] is not exc_c or of[1] is not exc_f:
            return exp, obs, ("%s|propagated-object-is-not-the-raised-one" % k, {"got": repr(ov[1])})
    return exp, obs, None


def kind_of(cfg, known, name, x):
    """Which clause of the property the case sits under (signature material)."""
    if name not in known:
        return "unknown-name"
    if cfg["kind"] == "custom" and name == cfg["reg"]:
        b = cfg["behaviour"]
        tail = repr(RETURNS[b[1]]) if b[0] == "return" else b[1]
        return "custom-%s-%s" % (b[0], tail)
    if not isinstance(x, str):
        return "builtin-%s-on-%s" % (name, jtype(x))
    return "builtin-%s-on-string" % name


# ---------------------------------------------------------------- protocol

PER_UNIT = 6


def plan(ctx):
    assert F.selftest() > 0
    units = []
    for d in DRAFTS:
        for i in range(0, len(CONFIGS), PER_UNIT):
            units.append((d, i))
    INSTANCES, POSITIONS, STRINGS = instances(ctx.tier), positions(ctx.tier), strings(ctx.tier)
    ncases = len(DRAFTS) * len(CONFIGS) * len(NAMES) * len(INSTANCES) * len(POSITIONS)
    return {
        "units": units,
        "rule": ("case = (draft class, checker configuration, format name, instance, position); the full product of "
                 "the five finite lists in bounds is executed (the thorough tier has a second valid/invalid string per "
                 "family, ten more non-strings and three more schema positions: items, additionalProperties, $ref), so "
                 "cases are distinct by construction; each case runs iter_errors, check() and conforms() on the real "
                 "code and is compared with the model `expected`; non-trivial = a checker is given and it knows the "
                 "format name (something is decided); the remaining cases assert inertness"),
        "bounds": {"names": NAMES, "instances": len(INSTANCES), "strings": STRINGS, "checker_configurations": len(CONFIGS),
                   "custom_configurations": sum(1 for c in CONFIGS if c["kind"] == "custom"),
                   "subset_base": SUBSET_BASE, "draft_checkers": DRAFT_CHECKERS, "drafts": list(DRAFTS),
                   "positions": list(POSITIONS), "cases": ncases},
        "assumptions": ["custom functions are registered with FormatChecker.checks on fresh instances; the class-wide "
                        "registry is snapshotted at import and asserted unchanged after every unit",
                        "built-in x string cases are decided by conforms() (their grammars are C13's business)",
                        "a custom function's return value is interpreted by truthiness"],
    }


def quiet_conforms(chk, x, name):
    try:
        return chk.conforms(x, name)
    except Exception:
        return False


def run_unit(unit, ctx):
    d, i0 = unit
    ev = nt = off_would_reject = 0
    outcomes, viol, samples, seen = {}, [], [], {}
    default = FormatChecker()
    INSTANCES, POSITIONS = instances(ctx.tier), positions(ctx.tier)
    for cfg in CONFIGS[i0:i0 + PER_UNIT]:
        built = Built(cfg)
        for name in NAMES:
            known = name in built.known
            for pos in POSITIONS:
                for x0 in INSTANCES:
                    x = real(x0)
                    if isinstance(x0, Special):
                        if pos != "top" or expected(cfg, built.known, name, x) != "pass":
                            continue
                        xdesc = x0.desc()
                    else:
                        xdesc = x
                    ev += 1
                    exp, obs, prob = judge(built, d, pos, name, x)
                    if cfg["kind"] != "none" and known:
                        nt += 1
                    elif cfg["kind"] == "none" and not quiet_conforms(default, x, name):
                        off_would_reject += 1       # vacuity guard: "off" is observable on these
                    key = "%s:%s->%s" % (cfg["kind"], exp, obs)
                    outcomes[key] = outcomes.get(key, 0) + 1
                    if prob is not None:
                        sig = "C12|" + prob[0]
                        n = seen.get(sig, 0)
                        seen[sig] = n + 1
                        if n < 3:
                            case = {"draft": d, "checker": cfg, "format": name, "instance": xdesc, "position": pos}
                            viol.append({"signature": sig, "case": case, "size": len(repr(case)),
                                         "detail": {"expected": exp, "observed": obs, "more": prob[1]}})
                    elif len(samples) < 2 and known and ev % 211 == 7:
                        samples.append({"draft": d, "checker": cfg, "format": name, "instance": xdesc, "position": pos,
                                        "expected": exp, "observed": obs})
    if dict(FormatChecker.checkers) != CLASS_REGISTRY:
        raise AssertionError("harness polluted the class-wide FormatChecker registry")
    return {"evaluations": ev, "nontrivial": nt, "violations": viol, "samples": samples, "outcomes": outcomes,
            "counters": {"violating_cases": sum(seen.values()),
                         "no_checker_cases_a_default_checker_would_reject": off_would_reject}}


def replay(case, ctx):
    built = Built(case["checker"])
    exp, obs, prob = judge(built, case["draft"], case["position"], case["format"], real(case["instance"]))
    return {"reproduced": prob is not None, "expected": exp, "observed": obs,
            "problem": None if prob is None else prob[0], "detail": None if prob is None else prob[1]}
