"""C12 — `format` is off unless a checker is given, and then follows the checker exactly.

Finite product, enumerated completely:

  format names   every name registered in FormatChecker.checkers or in a draft
                 checker object, plus "nope", "", "cust", a built-in name in
                 capitals and "maxlen:0" (names no stock checker knows)
  instances      one valid + one invalid string per built-in family, "", and the
                 non-strings null true false 0 -1 1.5 2**32 2**128 10**400 []
                 ["127.0.0.1"] {} {"a": "b"}
  non-JSON       Python values a binary deserialiser or a caller may hand over:
                 bytes of every string of the alphabet (so: valid and invalid
                 as regex / address / date), undecodable bytes, bytearray,
                 memoryview, tuples, sets, frozensets, Decimal, Fraction,
                 complex, nan, inf, custom objects, UserString, a class,
                 Ellipsis, range, OrderedDict -- none of them is a string, every
                 built-in format passes them -- and a str-subclass instance of
                 every string of the alphabet, which *is* a string
  checkers       None | FormatChecker() | FormatChecker(formats=S) for every
                 S <= a 3-name set | every draft checker object | custom
                 functions (registered on fresh FormatChecker *instances*, never
                 class-wide) that return one of True False 0 1 "" "x" None [] /
                 answer isinstance(instance, str) / raise a listed exception, a
                 subclass of a listed one, an unlisted one, a superclass of a
                 listed one -- x raises in {(), ValueError, (KeyError, ValueError)}
                 x base checker {empty, FormatChecker()} x registered under
                 {"cust", a built-in name, ""}
  exceptions     a custom function raising an instance of every exception class
                 of `builtins` (BaseException-only ones included), of four
                 user-defined classes (plain, StopIteration subclass,
                 BaseException subclass, KeyError+ValueError) and of four library
                 classes, each under seven `raises` registrations: nothing, the
                 class itself, its direct base, a tuple naming it, an unrelated
                 class, a strict subclass of it, Exception; and a function that
                 really runs out of stack.  Model: listed <=> issubclass(class of
                 the raised object, raises)
  checker        objects whose check() is overridden: a parametrised family of
  subclasses     names decided in check() and absent from .checkers, a
                 name-normalising one, a chain of other checkers, one that mutes
                 names present in .checkers, one overriding check() and
                 conforms() over an empty table, a duck-typed object without
                 .checkers, one whose check() raises -- the validator has to
                 follow the object it was given
  validators     Draft 3 / 4 / 6 / 7 classes
  position       `format` at the top of the schema / below `properties`
                 (thorough: also below items, additionalProperties, behind $ref;
                 a second valid/invalid string per family; ten more non-strings)

Below every applicator -- the `format` keyword at the root and below everything a
verdict, a cause or an escaping exception has to travel through (per draft, as far
as the draft has the keyword): properties, items (both forms), additionalItems,
additionalProperties, patternProperties, dependencies, allOf / anyOf / oneOf
members, not (twice), if / then / else, contains, propertyNames, extends (both
forms), a member of a Draft 3 type union, disallow (twice), $ref into definitions
(at the root, below properties, through a second $ref, with properties below it
and items above it) and $ref into a store document (a pointer into it / the whole
document) -- for: no checker, FormatChecker(), the draft checkers, the checker
subclasses, every custom function registered as "cust" on an empty checker (all
return values, and every class of the exception alphabet under every `raises`
registration), through iter_errors / is_valid / validate / jsonschema.validate.
The verdict is the one of the model, an unlisted exception arrives as the raised
object, and where the wrapping keyword shows the format error (directly or in
`context`) its cause is the raised object.

Histories -- every leaf history runs in its own forked child of a fresh
interpreter (mc/explore/isolated.py), the model is consulted after every step:

  H1  one FormatChecker object + long-lived validators on it: all operation
      sequences of depth 3 (thorough 4) over {validate s1 / s2 under two names
      through the validator / through conforms(), re-register a name with one of
      three functions, set the mode of the stateful function to True / False /
      raise-listed / raise-unlisted}
  H2  per built-in name: a lax custom checker, a strict custom checker and up to
      two stock checker objects that know the name: all interleavings of depth 3
      (thorough 4) of (object, valid / invalid string); every answer has to be
      the one of that object's own function

Oracle: the small models `expected()`, World1.model, World2.apply below, written
from the documentation of FormatChecker and of the `format` keyword.
"""
import builtins
import collections
import decimal
import fractions
import ipaddress
import itertools
import re

import jsonschema
from jsonschema import (Draft3Validator, Draft4Validator, Draft6Validator,
                        Draft7Validator, FormatChecker, RefResolver)
from jsonschema.exceptions import FormatError, RefResolutionError, ValidationError

from mc.explore import isolated
from mc.ref import formats as F

ID = "C12"
LEVEL = "exploration"

CLS = {3: Draft3Validator, 4: Draft4Validator, 6: Draft6Validator, 7: Draft7Validator}
DRAFTS = (3, 4, 6, 7)

# ---------------------------------------------------------------- alphabets

DRAFT_CHECKERS = [a for a in sorted(dir(jsonschema)) if re.fullmatch(r"draft\d+_format_checker", a)]
CLASS_REGISTRY = dict(FormatChecker.checkers)           # snapshot: must never change (we never use cls_checks)
DRAFT_REGISTRIES = {a: dict(getattr(jsonschema, a).checkers) for a in DRAFT_CHECKERS}      # nor these
REGISTERED = sorted(set(CLASS_REGISTRY) | {n for a in DRAFT_CHECKERS for n in DRAFT_REGISTRIES[a]})
BUILTIN_REG = "ipv4" if "ipv4" in CLASS_REGISTRY else sorted(CLASS_REGISTRY)[0]
NAMES = REGISTERED + ["nope", "", "cust", BUILTIN_REG.upper(), "maxlen:0"]
# only for the checker subclasses, some of which do know them
SUB_NAMES = ["maxlen:3", "maxlen:x", "EMAIL", " " + BUILTIN_REG.capitalize() + " ", "Date", "boom"]

STRINGS_BY_FAMILY = {
    "ipv4": ("127.0.0.1", "256.0.0.1"),
    "ipv6": ("::1", "1::2::3"),
    "date": ("2020-02-29", "2019-02-29"),
    "email": ("a@b", "ab"),
    "regex": ("a+", "a**"),
    "time": ("12:00:00", "25:00:00"),
    "idn-hostname": ("example.com", "a..b"),
}


def _family(name):
    f = F.FAMILY.get(name, name)
    return "email" if f == "idn-email" else f


MORE_STRINGS_BY_FAMILY = {      # thorough tier: a second valid / invalid pair
    "ipv4": ("1.2.3.4", "01.2.3.4"),
    "ipv6": ("1:2:3:4:5:6:7:8", "fe80::1%eth0"),
    "date": ("1999-12-31", "2020-13-01"),
    "email": ("@", "a.b"),
    "regex": ("(a)\\1", "("),
    "time": ("00:00:00", "1:2"),
    "idn-hostname": ("\xdf.de", "-a"),
}


def strings(tier):
    out = []
    tables = [STRINGS_BY_FAMILY] + ([MORE_STRINGS_BY_FAMILY] if tier == "thorough" else [])
    for table in tables:
        for n in REGISTERED:
            for s in table.get(_family(n), ()):
                if s not in out:
                    out.append(s)
    return out + [""]


NONSTRINGS = [None, True, False, 0, -1, 1.5, 2 ** 32, 2 ** 128, 10 ** 400, [], ["127.0.0.1"], {}, {"a": "b"}]
MORE_NONSTRINGS = [1, 0.0, -0.5, 1e308, 256, -2 ** 63, [0], [[]], {"": ""}, {"127.0.0.1": 0}]


class Special(object):
    """A conforming non-string whose repr() raises (an integer beyond CPython's 4300-digit str limit, an array
    nested beyond the recursion limit).  It cannot be written into a JSON case file either, so cases carry a
    descriptor.  Used only where the model expects 'pass': a conforming instance needs no message, so nothing
    may try to render it (where the verdict is 'fail' the library's own message rendering raises for such
    values on the unchanged tree too; that is the same limit C09 keeps out of its universe)."""

    def __init__(self, kind, n):
        self.kind, self.n = kind, n

    def build(self):
        if self.kind == "pow10":
            return 10 ** self.n
        x = []
        for _ in range(self.n):
            x = [x]
        return x

    def desc(self):
        return {"__special__": [self.kind, self.n]}


SPECIALS = [Special("pow10", 5000), Special("nested-array", 3000)]


# ---- Python values that are not JSON values (cases carry the key of the table)

class StrSub(str):
    """An instance of a str subclass is a string."""


class Obj(object):
    def __repr__(self):
        return "<Obj>"


class ObjStr(object):
    """Not a string, although str() of it is an invalid regex / address / date."""

    def __str__(self):
        return "("

    def __repr__(self):
        return "<ObjStr>"


def _py_table():
    t = collections.OrderedDict()
    for s in strings("quick"):
        t["bytes:" + s] = lambda s=s: s.encode("utf-8")
    t["bytes:fffe"] = lambda: b"\xff\xfe"
    for s in ("(", STRINGS_BY_FAMILY["ipv4"][1], STRINGS_BY_FAMILY["date"][1]):
        t["bytearray:" + s] = lambda s=s: bytearray(s.encode("utf-8"))
    t["memoryview:("] = lambda: memoryview(b"(")
    t["tuple:empty"] = lambda: ()
    for s in ("(", STRINGS_BY_FAMILY["ipv4"][1]):
        t["tuple:" + s] = lambda s=s: (s,)
        t["set:" + s] = lambda s=s: {s}
        t["frozenset:" + s] = lambda s=s: frozenset([s])
    t["set:empty"] = lambda: set()
    t["frozenset:empty"] = lambda: frozenset()
    t["Decimal:1.5"] = lambda: decimal.Decimal("1.5")
    t["Decimal:NaN"] = lambda: decimal.Decimal("NaN")
    t["Fraction:1/3"] = lambda: fractions.Fraction(1, 3)
    t["complex:1j"] = lambda: 1j
    t["float:nan"] = lambda: float("nan")
    t["float:inf"] = lambda: float("inf")
    t["object"] = Obj
    t["object-with-str"] = ObjStr
    t["UserString:("] = lambda: collections.UserString("(")
    t["type:int"] = lambda: int
    t["Ellipsis"] = lambda: Ellipsis
    t["range:3"] = lambda: range(3)
    t["OrderedDict:empty"] = lambda: collections.OrderedDict()
    for s in strings("quick"):
        t["strsub:" + s] = lambda s=s: StrSub(s)
    return t


PY_TABLE = _py_table()


class Py(object):
    def __init__(self, key):
        self.key = key

    def build(self):
        return PY_TABLE[self.key]()

    def desc(self):
        return {"__py__": self.key}


PY_INSTANCES = [Py(k) for k in PY_TABLE]


def real(x):
    if isinstance(x, (Special, Py)):
        return x.build()
    if isinstance(x, dict) and "__special__" in x:
        return Special(*x["__special__"]).build()
    if isinstance(x, dict) and "__py__" in x:
        return PY_TABLE[x["__py__"]]()
    return x


NARROW_INSTANCES = ["a@b", "", None, {"a": "b"}]


def takes_py(cfg):
    """The non-JSON values go to every checker that is not a custom function, and to the custom functions that
    return True / False / isinstance(instance, str) registered without `raises`."""
    if cfg["kind"] != "custom":
        return True
    b = cfg["behaviour"]
    return cfg["raises"] == "none" and (b[0] == "pred" or (b[0] == "return" and b[1] in (0, 1)))


def instances_for(cfg, tier):
    if cfg.get("scope") == "narrow":
        return NARROW_INSTANCES
    out = strings(tier) + NONSTRINGS + (MORE_NONSTRINGS if tier == "thorough" else []) + SPECIALS
    return out + PY_INSTANCES if takes_py(cfg) else out


def names_for(cfg):
    if cfg.get("scope") == "narrow":
        return [cfg["reg"], "nope"]
    return NAMES + SUB_NAMES if cfg["kind"] == "subclass" else NAMES


def positions(tier):
    return ("top", "properties") + (("items", "additionalProperties", "ref") if tier == "thorough" else ())


def place(pos, name, x):
    """-> (schema, instance, path of x inside the instance)"""
    f = {"format": name}
    if pos == "top":
        return f, x, []
    if pos == "properties":
        return {"properties": {"p": f}}, {"p": x}, ["p"]
    if pos == "items":
        return {"items": f}, [x], [0]
    if pos == "additionalProperties":
        return {"additionalProperties": f}, {"k": x}, ["k"]
    return {"definitions": {"f": f}, "$ref": "#/definitions/f"}, x, []


_pref = [n for n in ("ipv4", "date", "regex") if n in CLASS_REGISTRY]
SUBSET_BASE = (_pref + [n for n in sorted(CLASS_REGISTRY) if n not in _pref])[:3]

RETURNS = [True, False, 0, 1, "", "x", None, []]
RAISES = {"none": (), "ValueError": ValueError, "tuple": (KeyError, ValueError)}
# what a custom function raises -> (exception class, is it listed under a non-empty `raises`?)
RAISE_KINDS = {"listed": (ValueError, True), "listed-subclass": (UnicodeError, True),
               "unlisted": (RuntimeError, False), "unlisted-superclass": (Exception, False),
               # exceptions the library itself might catch for its own purposes (dict lookups, iteration, attribute
               # access): listed only where the `raises` tuple names them
               "KeyError": (KeyError, "tuple"), "IndexError": (IndexError, False), "LookupError": (LookupError, False),
               "AttributeError": (AttributeError, False), "TypeError": (TypeError, False),
               "StopIteration": (StopIteration, False)}


# ---- the wide exception alphabet

class UserError(Exception):
    pass


class UserStop(StopIteration):
    pass


class UserBase(BaseException):
    pass


class UserKeyValue(KeyError, ValueError):
    pass


def _exception_alphabet():
    out = collections.OrderedDict()
    for n in sorted(dir(builtins)):
        E = getattr(builtins, n)
        if isinstance(E, type) and issubclass(E, BaseException) and E.__name__ == n:      # aliases once
            out[n] = E
    for n, E in (("UserError", UserError), ("UserStop", UserStop), ("UserBase", UserBase),
                 ("UserKeyValue", UserKeyValue), ("jsonschema.ValidationError", ValidationError),
                 ("jsonschema.RefResolutionError", RefResolutionError),
                 ("ipaddress.AddressValueError", ipaddress.AddressValueError), ("re.error", re.error)):
        out[n] = E
    return out


EXC = _exception_alphabet()


def make_exc(name):
    E = EXC[name]
    if issubclass(E, UnicodeDecodeError):
        return E("utf-8", b"x", 0, 1, "boom")
    if issubclass(E, UnicodeEncodeError):
        return E("utf-8", "x", 0, 1, "boom")
    if issubclass(E, UnicodeTranslateError):
        return E("x", 0, 1, "boom")
    if issubclass(E, BaseExceptionGroup):
        return E("boom", [ValueError("inner")] if issubclass(E, Exception) else [UserBase("inner")])
    return E("boom")


for _n in EXC:
    assert type(make_exc(_n)) is EXC[_n], _n

EXC_SUBCLASS = {n: type("Sub" + E.__name__, (E,), {}) for n, E in EXC.items()}
MODES = ("none", "self", "base", "tuple", "unrelated", "subclass", "Exception")


def _unrelated(E):
    for U in (ValueError, KeyError, OSError, ArithmeticError):
        if not issubclass(E, U) and not issubclass(U, E):
            return U
    return None


def raises_spec(name, mode):
    """The `raises` argument of one registration; None = this mode does not exist for the class."""
    E = EXC[name]
    if mode == "none":
        return ()
    if mode == "self":
        return E
    if mode == "base":
        b = E.__mro__[1]
        return None if b is object else b
    if mode == "tuple":
        U = _unrelated(E)
        return (E,) if U is None else (U, E)
    if mode == "unrelated":
        return _unrelated(E)
    if mode == "subclass":
        return EXC_SUBCLASS[name]
    return Exception


def raised_name(cfg):
    b = cfg["behaviour"]
    return "RecursionError" if b[0] == "recurse" else b[1]


def is_listed(cfg_raises, kind):
    flag = RAISE_KINDS[kind][1]
    return flag is True or flag == cfg_raises


def cfg_listed(cfg):
    """Is the exception the custom function of this configuration raises one it was registered with?"""
    b = cfg["behaviour"]
    if b[0] in ("raise-class", "recurse"):
        return issubclass(EXC[raised_name(cfg)], raises_spec(raised_name(cfg), cfg["raises"][1]))
    return b[1] != "unlisted-nothing-listed" and is_listed(cfg["raises"], b[1])


SUBCLASS_KINDS = [("family", "default"), ("family", "empty"), ("normalising", "default"), ("normalising", "empty"),
                  ("chain", "empty"), ("muting", "default"), ("both", "empty"), ("duck", "empty"),
                  ("raising", "default")]


def all_configs():
    out = [{"kind": "none"}, {"kind": "default"}]
    for mask in range(1 << len(SUBSET_BASE)):
        out.append({"kind": "subset", "formats": [n for i, n in enumerate(SUBSET_BASE) if mask >> i & 1]})
    for how in ("tuple", "set", "generator", "iterator", "dict-keys"):
        out.append({"kind": "subset", "formats": list(SUBSET_BASE[:2]), "as": how})
    for a in DRAFT_CHECKERS:
        out.append({"kind": "draft", "attr": a})
    for sub, base in SUBCLASS_KINDS:
        out.append({"kind": "subclass", "sub": sub, "base": base})
    # behaviour outermost: the configurations of one behaviour sit in neighbouring work units
    behs = [["return", i] for i in range(len(RETURNS))] + [["pred", "isstr"], ["raise", "unlisted-nothing-listed"]]
    behs += [["raise", k] for k in sorted(RAISE_KINDS)]
    for b in behs:
        for base in ("empty", "default"):
            for reg in ("cust", BUILTIN_REG, ""):
                for rs in ("none", "ValueError", "tuple"):
                    if b[0] == "raise" and (rs == "none") != (b[1] == "unlisted-nothing-listed"):
                        continue
                    out.append({"kind": "custom", "base": base, "reg": reg, "raises": rs, "behaviour": b})
    wide = len(out)
    for n in list(EXC) + [None]:
        for base in ("empty", "default"):
            for reg in ("cust", BUILTIN_REG, ""):
                for m in MODES:
                    if raises_spec(n or "RecursionError", m) is not None:
                        out.append({"kind": "custom", "base": base, "reg": reg, "raises": ["mode", m],
                                    "behaviour": ["raise-class", n] if n else ["recurse"], "scope": "narrow"})
    return out, wide


CONFIGS, N_WIDE = all_configs()


# ---- checker classes that override check()

class FamilyChecker(FormatChecker):
    """Decides the parametrised names maxlen:<n> by itself; they are not in .checkers."""

    def check(self, instance, format):
        if isinstance(format, str) and format.startswith("maxlen:") and format[7:] in ("0", "1", "2", "3"):
            if isinstance(instance, str) and len(instance) > int(format[7:]):
                raise FormatError("%r is longer than %s" % (instance, format[7:]))
            return
        return FormatChecker.check(self, instance, format)


class NormalisingChecker(FormatChecker):
    def check(self, instance, format):
        return FormatChecker.check(self, instance, format.strip().lower())


class ChainChecker(FormatChecker):
    """Asks its links; its own table is empty."""

    def __init__(self, links):
        FormatChecker.__init__(self, formats=())
        self.links = links

    def check(self, instance, format):
        for link in self.links:
            link.check(instance, format)


class MutingChecker(FormatChecker):
    """Has the names in .checkers but was told to let some of them pass."""
    muted = frozenset([BUILTIN_REG, "email"])

    def check(self, instance, format):
        if format in self.muted:
            return
        return FormatChecker.check(self, instance, format)


def _both_rule(instance, format):
    return not (format == "cust" and not instance)


class BothChecker(FormatChecker):
    """check() and conforms() both overridden (consistently), nothing registered."""

    def __init__(self):
        FormatChecker.__init__(self, formats=())

    def check(self, instance, format):
        if not _both_rule(instance, format):
            raise FormatError("falsy")

    def conforms(self, instance, format):
        return _both_rule(instance, format)


class DuckChecker(object):
    """Not a FormatChecker and without a table: all a validator may use is check()."""

    def check(self, instance, format):
        if not _both_rule(instance, format):
            raise FormatError("falsy")

    def conforms(self, instance, format):
        return _both_rule(instance, format)


class RaisingChecker(FormatChecker):
    holder = None

    def check(self, instance, format):
        if format == "boom":
            self.holder["calls"] += 1
            self.holder["exc"] = e = RuntimeError("boom")
            raise e
        return FormatChecker.check(self, instance, format)


def _short(instance):
    return not isinstance(instance, str) or len(instance) <= 3


def sub_base_known(cfg):
    if cfg["sub"] == "chain":
        return {BUILTIN_REG}
    return set(CLASS_REGISTRY) if cfg["base"] == "default" else set()


def sub_model(cfg, name, x):
    """-> "pass" | "fail" | "propagate" | ("stock", name2): what a stock checker says about name2."""
    sub = cfg["sub"]
    if sub == "family":
        m = re.fullmatch(r"maxlen:([0-3])", name)
        if m:
            return "fail" if isinstance(x, str) and len(x) > int(m.group(1)) else "pass"
        return ("stock", name)
    if sub == "normalising":
        return ("stock", name.strip().lower())
    if sub == "chain":
        if name == "cust":
            return "pass" if _short(x) else "fail"
        return ("stock", name)
    if sub == "muting":
        return "pass" if name in MutingChecker.muted else ("stock", name)
    if sub in ("both", "duck"):
        return "fail" if name == "cust" and not x else "pass"
    return "propagate" if name == "boom" else ("stock", name)


def sub_decides(cfg, name):
    """Does the checker object decide anything under this name (counting and signatures only)?"""
    sub = cfg["sub"]
    if sub == "family" and re.fullmatch(r"maxlen:([0-3])", name):
        return True
    if sub == "normalising":
        return name.strip().lower() in sub_base_known(cfg)
    if sub == "chain":
        return name in ("cust", BUILTIN_REG)
    if sub in ("both", "duck"):
        return name == "cust"
    if sub == "raising" and name == "boom":
        return True
    return name in sub_base_known(cfg)


class Built(object):
    """A live checker for one configuration + what the model needs to know about it."""

    def __init__(self, cfg):
        self.cfg = cfg
        self.holder = {"exc": None, "calls": 0}
        k = cfg["kind"]
        self.custom_name = None
        self.ref = None
        if k == "none":
            self.chk, self.known = None, set()
        elif k == "default":
            self.chk, self.known = FormatChecker(), set(CLASS_REGISTRY)
        elif k == "subset":
            names = list(cfg["formats"])
            how = cfg.get("as", "list")
            arg = {"list": lambda: names, "tuple": lambda: tuple(names), "set": lambda: set(names),
                   "generator": lambda: (n for n in names), "iterator": lambda: iter(names),
                   "dict-keys": lambda: dict.fromkeys(names).keys()}[how]()
            self.chk, self.known = FormatChecker(formats=arg), set(names)
        elif k == "draft":
            self.chk = getattr(jsonschema, cfg["attr"])
            self.known = set(self.chk.checkers)
        elif k == "subclass":
            sub = cfg["sub"]
            formats = None if cfg["base"] == "default" else ()
            if sub == "family":
                self.chk = FamilyChecker(formats=formats)
            elif sub == "normalising":
                self.chk = NormalisingChecker(formats=formats)
            elif sub == "chain":
                first = FormatChecker(formats=())
                first.checks("cust")(_short)
                self.chk = ChainChecker([first, FormatChecker(formats=[BUILTIN_REG])])
            elif sub == "muting":
                self.chk = MutingChecker()
            elif sub == "both":
                self.chk = BothChecker()
            elif sub == "duck":
                self.chk = DuckChecker()
            else:
                self.chk = RaisingChecker()
                self.chk.holder = self.holder
            self.known = None if sub == "duck" else (set() if sub in ("chain", "both") else sub_base_known(cfg))
            self.ref = FormatChecker()          # an untouched stock checker: what "the stock behaviour" is
        else:
            self.chk = FormatChecker(formats=()) if cfg["base"] == "empty" else FormatChecker()
            self.known = (set() if cfg["base"] == "empty" else set(CLASS_REGISTRY)) | {cfg["reg"]}
            self.custom_name = cfg["reg"]
            rs = cfg["raises"]
            spec = RAISES[rs] if isinstance(rs, str) else raises_spec(raised_name(cfg), rs[1])
            self.chk.checks(cfg["reg"], raises=spec)(self.make_func(cfg["behaviour"]))
        if self.chk is not None and self.known is not None and set(self.chk.checkers) != self.known:
            self.known_mismatch = sorted(set(self.chk.checkers) ^ self.known)
        else:
            self.known_mismatch = None

    def decides(self, name):
        if self.cfg["kind"] == "subclass":
            return sub_decides(self.cfg, name)
        return name in self.known

    def make_func(self, beh):
        holder = self.holder
        if beh[0] == "return":
            value = RETURNS[beh[1]]

            def func(instance):
                holder["calls"] += 1
                return value
        elif beh[0] == "pred":
            def func(instance):
                holder["calls"] += 1
                return isinstance(instance, str)
        elif beh[0] == "raise-class":
            name = beh[1]

            def func(instance):
                holder["calls"] += 1
                holder["exc"] = e = make_exc(name)
                raise e
        elif beh[0] == "recurse":
            def dive(instance):
                return dive(instance)

            def func(instance):
                holder["calls"] += 1
                try:
                    return dive(instance)
                except RecursionError as e:         # the interpreter's own, from running out of stack
                    holder["exc"] = e
                    raise
        else:
            exc_class = ValueError if beh[1] == "unlisted-nothing-listed" else RAISE_KINDS[beh[1]][0]

            def func(instance):
                holder["calls"] += 1
                holder["exc"] = e = exc_class("boom")
                raise e
        return func


# ---------------------------------------------------------------- the model


def expected(cfg, known, name, x):
    """-> "pass" | "fail" (no cause) | "fail-cause" (cause is the raised object) |
          "propagate" (the raised object reaches the caller) | "either" (built-in x string: conforms() decides)."""
    if cfg["kind"] == "none":
        return "pass"                               # no checker: format has no effect
    if cfg["kind"] == "subclass":
        m = sub_model(cfg, name, x)
        if not isinstance(m, tuple):
            return m
        if m[1] not in sub_base_known(cfg) or not isinstance(x, str):
            return "pass"
        return "either"                             # ... and equal to what a stock checker says about m[1]
    if name not in known:
        return "pass"                               # unknown names always pass
    if cfg["kind"] == "custom" and name == cfg["reg"]:
        beh = cfg["behaviour"]
        if beh[0] == "return":
            return "pass" if RETURNS[beh[1]] else "fail"
        if beh[0] == "pred":
            return "pass" if isinstance(x, str) else "fail"
        return "fail-cause" if cfg_listed(cfg) else "propagate"
    if not isinstance(x, str):
        return "pass"                               # built-in string formats ignore non-strings
    return "either"


# ---------------------------------------------------------------- observation


def jtype(x):
    if x is None:
        return "null"
    if isinstance(x, str):
        return "string"
    if isinstance(x, bool):
        return "boolean"
    if isinstance(x, int):
        return "integer"
    if isinstance(x, float):
        return "number"
    if isinstance(x, list):
        return "array"
    if type(x) is dict:
        return "object"
    return "python-" + type(x).__name__


def observe(built, d, pos, name, x):
    """Run the real code three ways; every observation is a small tuple."""
    schema, inst, where = place(pos, name, x)
    h = built.holder
    v = CLS[d](schema, format_checker=built.chk)
    h["exc"] = None
    try:
        errs = list(v.iter_errors(inst))
        if not errs:
            ov = ("pass",)
        else:
            e = errs[0]
            ov = ("fail", len(errs), e.validator, e.cause, list(e.absolute_path), e.instance is x or e.instance == x)
    except BaseException as e:
        ov = ("raise", e)
    exc_v = h["exc"]
    if built.chk is None:
        return ov, exc_v, None, None, None, None
    h["exc"] = None
    try:
        r = built.chk.check(x, name)
        oc = ("pass", r)
    except FormatError as e:
        oc = ("fail", e.cause)
    except BaseException as e:
        oc = ("raise", e)
    exc_c = h["exc"]
    h["exc"] = None
    try:
        of = ("ret", built.chk.conforms(x, name))
    except BaseException as e:
        of = ("raise", e)
    exc_f = h["exc"]
    return ov, exc_v, oc, exc_c, of, exc_f


def ename(e):
    return type(e).__name__


def judge(built, d, pos, name, x):
    """-> (expected class, observed class, problem or None); problem = (signature tail, detail)."""
    cfg = built.cfg
    if built.known_mismatch is not None:
        return "?", "?", ("checker-knows-wrong-names|%s" % cfg["kind"], {"difference": built.known_mismatch})
    exp = expected(cfg, built.known, name, x)
    ov, exc_v, oc, exc_c, of, exc_f = observe(built, d, pos, name, x)
    where = place(pos, name, x)[2]
    obs = ov[0] if ov[0] != "raise" else "raise-" + ename(ov[1])

    if cfg["kind"] == "none":
        if ov[0] == "fail":
            return exp, obs, ("no-checker|format-error", {"validator": ov[2]})
        if ov[0] == "raise":
            return exp, obs, ("no-checker|raises-" + ename(ov[1]), None)
        return exp, obs, None

    k = kind_of(cfg, built, name, x)
    # 1. conforms() is a bool and tells the same story as check()
    if of[0] == "ret" and type(of[1]) is not bool:
        return exp, obs, ("conforms-returns-" + type(of[1]).__name__, None)
    story_c = oc[0]
    story_f = "raise" if of[0] == "raise" else ("pass" if of[1] else "fail")
    if story_c != story_f or (story_c == "raise" and (type(oc[1]) is not type(of[1]))):
        return exp, obs, ("conforms-vs-check|check-%s|conforms-%s" % (story_c, story_f), None)
    # 2. the validator tells the same story as conforms()
    if ov[0] != story_f:
        return exp, obs, ("%s|validator-%s-but-conforms-%s" % (k, obs, story_f), {"check": story_c})
    if ov[0] == "fail":
        if ov[1] != 1 or ov[2] != "format" or ov[4] != where or not ov[5]:
            return exp, obs, ("error-shape", {"errors": ov[1], "validator": ov[2], "path": ov[4]})
        if (ov[3] is None) != (oc[1] is None) or type(ov[3]) is not type(oc[1]):
            return exp, obs, ("%s|cause-differs-from-FormatError-cause" % k,
                              {"validation_error_cause": repr(ov[3]), "format_error_cause": repr(oc[1])})
    # 3. the model
    if exp == "either":
        if cfg["kind"] == "subclass":           # has to be what an untouched stock checker says about that name
            n2 = sub_model(cfg, name, x)[1]
            try:
                ref = "pass" if built.ref.conforms(x, n2) else "fail"
            except BaseException as e:
                ref = "raise-" + ename(e)
            if ref != story_f:
                return exp, obs, ("%s|stock-checker-says-%s|observed-%s" % (k, ref, obs), {"stock_name": n2})
        return exp, obs, None
    if exp == "pass":
        if ov[0] != "pass":
            return exp, obs, ("%s|expected-pass|observed-%s" % (k, obs), None)
    elif exp == "fail":
        if ov[0] != "fail":
            return exp, obs, ("%s|expected-fail|observed-%s" % (k, obs), None)
        if ov[3] is not None or oc[1] is not None:
            return exp, obs, ("%s|unexpected-cause" % k, {"cause": repr(ov[3])})
    elif exp == "fail-cause":
        if ov[0] != "fail":
            return exp, obs, ("%s|expected-fail-with-cause|observed-%s" % (k, obs), None)
        if ov[3] is None or oc[1] is None:
            return exp, obs, ("%s|cause-lost" % k, None)
        if ov[3] is not exc_v or oc[1] is not exc_c:
            return exp, obs, ("%s|cause-is-another-object" % k, {"cause": repr(ov[3])})
    elif exp == "propagate":
        if ov[0] != "raise":
            return exp, obs, ("%s|expected-propagation|observed-%s" % (k, obs), None)
        wrong = [w for w, got, raised in (("validator", ov[1], exc_v), ("check", oc[1], exc_c), ("conforms", of[1], exc_f))
                 if got is not raised]
        if wrong:
            if (wrong == ["validator"] and isinstance(exc_v, StopIteration) and type(ov[1]) is RuntimeError
                    and ov[1].__cause__ is exc_v and "generator raised StopIteration" in str(ov[1])):
                # PEP 479: the keyword function is a generator; the same conversion whatever the StopIteration
                # subclass and whatever the (non-matching) registration
                return exp, obs, ("custom-raise-StopIteration|propagated-object-is-not-the-raised-one",
                                  {"got": repr(ov[1]), "raised": repr(exc_v)})
            return exp, obs, ("%s|propagated-object-is-not-the-raised-one|%s" % (k, "+".join(wrong)),
                              {"got": repr(ov[1]), "raised": repr(exc_v)})
    return exp, obs, None


def kind_of(cfg, built, name, x):
    """Which clause of the property the case sits under (signature material)."""
    if cfg["kind"] == "subclass":           # which subclass it was is in the case; one defect, a handful of signatures
        if not built.decides(name):
            return "checker-subclass|unknown-name"
        own = not isinstance(sub_model(cfg, name, x), tuple)
        return "checker-subclass|name-%s|on-%s" % ("decided-in-check()" if own else "of-the-stock-table",
                                                   "string" if isinstance(x, str) else "non-string")
    if name not in built.known:
        return "unknown-name"
    if cfg["kind"] == "custom" and name == cfg["reg"]:
        b = cfg["behaviour"]
        if b[0] in ("raise-class", "recurse"):
            return "custom-%s-%s%s" % ("raise" if b[0] == "raise-class" else "really-raise", raised_name(cfg),
                                       "-listed" if cfg_listed(cfg) else "")
        tail = repr(RETURNS[b[1]]) if b[0] == "return" else b[1]
        return "custom-%s-%s" % (b[0], tail)
    if not isinstance(x, str):
        return "builtin-%s-on-%s" % (name, jtype(x))
    return "builtin-%s-on-string" % name


# ---------------------------------------------------------------- below every applicator

STORE_URL = "http://c12.test/doc"
NEVER = {"not": {}}                 # valid for nothing, in the drafts that have `not`

# position -> (drafts, how a failing `format` shows: "direct" = the format error itself is yielded,
#              "context" = one error of the wrapping keyword with the format error as its only context,
#              "opaque" = an error of the wrapping keyword, nothing of the format error is shown)
BELOW = collections.OrderedDict([
    ("top", (DRAFTS, "direct")),
    ("properties", (DRAFTS, "direct")),
    ("items", (DRAFTS, "direct")),
    ("items-array-form", (DRAFTS, "direct")),
    ("additionalItems", (DRAFTS, "direct")),
    ("additionalProperties", (DRAFTS, "direct")),
    ("patternProperties", (DRAFTS, "direct")),
    ("dependencies", (DRAFTS, "direct")),
    ("ref-definitions", (DRAFTS, "direct")),
    ("ref-below-properties", (DRAFTS, "direct")),
    ("ref-through-a-second-ref", (DRAFTS, "direct")),
    ("items-ref-properties", (DRAFTS, "direct")),
    ("ref-store-pointer", (DRAFTS, "direct")),
    ("ref-store-whole-document", (DRAFTS, "direct")),
    ("extends", ((3,), "direct")),
    ("extends-array-form", ((3,), "direct")),
    ("type-union-member", ((3,), "context")),
    ("disallow-twice", ((3,), "opaque")),
    ("allOf", ((4, 6, 7), "direct")),
    ("anyOf", ((4, 6, 7), "context")),
    ("oneOf", ((4, 6, 7), "context")),
    ("not-twice", ((4, 6, 7), "opaque")),
    ("contains", ((6, 7), "opaque")),
    ("propertyNames", ((6, 7), "direct")),
    ("if", ((7,), "opaque")),
    ("then", ((7,), "direct")),
    ("else", ((7,), "direct")),
])
WRAPPER = {"type-union-member": "type", "anyOf": "anyOf", "oneOf": "oneOf"}


def place_below(pos, name, x):
    """-> (schema, instance, path of x inside the instance, store or None), or None where x cannot stand there"""
    f = {"format": name}
    defs = {"definitions": {"f": f}}
    if pos in ("top", "properties", "items", "additionalProperties"):
        return place(pos, name, x) + (None,)
    if pos == "items-array-form":
        return {"items": [f]}, [x], [0], None
    if pos == "additionalItems":
        return {"items": [{}], "additionalItems": f}, [0, x], [1], None
    if pos == "patternProperties":
        return {"patternProperties": {"^k": f}}, {"k": x}, ["k"], None
    if pos == "dependencies":
        return {"dependencies": {"k": {"properties": {"p": f}}}}, {"k": 0, "p": x}, ["p"], None
    if pos == "ref-definitions":
        return dict(defs, **{"$ref": "#/definitions/f"}), x, [], None
    if pos == "ref-below-properties":
        return dict(defs, properties={"p": {"$ref": "#/definitions/f"}}), {"p": x}, ["p"], None
    if pos == "ref-through-a-second-ref":
        return {"definitions": {"f": f, "g": {"$ref": "#/definitions/f"}}, "$ref": "#/definitions/g"}, x, [], None
    if pos == "items-ref-properties":
        return ({"definitions": {"o": {"properties": {"p": f}}}, "items": {"$ref": "#/definitions/o"}},
                [{"p": x}], [0, "p"], None)
    if pos == "ref-store-pointer":
        return {"$ref": STORE_URL + "#/defs/f"}, x, [], {STORE_URL: {"defs": {"f": f}}}
    if pos == "ref-store-whole-document":
        return {"$ref": STORE_URL}, x, [], {STORE_URL: f}
    if pos == "extends":
        return {"extends": f}, x, [], None
    if pos == "extends-array-form":
        return {"extends": [{}, f]}, x, [], None
    if pos == "type-union-member":
        return {"type": [f]}, x, [], None
    if pos == "disallow-twice":
        return {"disallow": [{"disallow": [f]}]}, x, [], None
    if pos == "allOf":
        return {"allOf": [{}, f]}, x, [], None
    if pos in ("anyOf", "oneOf"):
        return {pos: [f]}, x, [], None
    if pos == "not-twice":
        return {"not": {"not": f}}, x, [], None
    if pos == "contains":
        return {"contains": f}, [x], [0], None
    if pos == "propertyNames":
        return ({"propertyNames": f}, {x: 0}, [], None) if isinstance(x, str) else None
    if pos == "if":
        return {"if": f, "else": NEVER}, x, [], None
    if pos == "then":
        return {"if": {}, "then": f}, x, [], None
    return {"if": NEVER, "else": f}, x, [], None


ENTRIES = ("iter_errors", "is_valid", "validate", "jsonschema.validate")
BELOW_INSTANCES = list(STRINGS_BY_FAMILY.get(_family(BUILTIN_REG), ("a", "b"))) + ["", None, {"a": "b"}]


def below_configs():
    out = []
    for c in CONFIGS:
        if c["kind"] != "custom" or (c["base"] == "empty" and c["reg"] == "cust"):
            out.append(c)
    return out


BELOW_CONFIGS = below_configs()


def below_names(cfg):
    if cfg["kind"] == "custom":
        return [cfg["reg"]]
    if cfg["kind"] == "subclass":
        return ["maxlen:0", "cust", "boom", BUILTIN_REG]
    return [n for n in (BUILTIN_REG, "ip-address", "nope") if n in NAMES]


def below_instances(cfg):
    return BELOW_INSTANCES[:1] if cfg.get("scope") == "narrow" else BELOW_INSTANCES


def run_entry(entry, d, schema, inst, store, chk, holder):
    kw = {"format_checker": chk}
    if store is not None:
        kw["resolver"] = RefResolver("", schema, store=dict(store))
    holder["exc"] = None
    try:
        if entry == "jsonschema.validate":
            jsonschema.validate(inst, schema, cls=CLS[d], **kw)
            return ("pass",)
        v = CLS[d](schema, **kw)
        if entry == "iter_errors":
            errs = list(v.iter_errors(inst))
            return ("fail", errs) if errs else ("pass",)
        if entry == "is_valid":
            return ("pass",) if v.is_valid(inst) else ("fail", None)
        v.validate(inst)
        return ("pass",)
    except BaseException as e:
        if isinstance(e, ValidationError) and entry.endswith("validate") and e is not holder["exc"]:
            return ("fail", [e])
        return ("raise", e)


EXPECTED_WORD = {"pass": "pass", "fail": "fail", "fail-cause": "fail-with-cause", "fail-some-cause": "fail",
                 "propagate": "propagation"}


def judge_below(built, d, pos, name, x):
    """-> (expected class, observed class, problem or None) for `format` standing below one applicator.  The
    position is part of the signature only where the failure is particular to it (the same case at the root
    does not fail in the same way)."""
    exp, obs, prob = judge_at(built, d, pos, name, x)
    if prob is not None and pos != "top":
        at_root = judge_at(built, d, "top", name, x)[2]
        if at_root is None or at_root[0] != prob[0]:
            prob = ("below-%s|%s" % (pos, prob[0]), prob[1])
    return exp, obs, prob


def judge_at(built, d, pos, name, x):
    cfg = built.cfg
    schema, inst, where, store = place_below(pos, name, x)
    shows = BELOW[pos][1]
    exp = expected(cfg, built.known, name, x)
    if exp == "either":             # a built-in name and a string: the checker object's conforms() decides
        try:
            exp = "pass" if built.chk.conforms(x, name) else "fail-some-cause"
        except BaseException as e:
            return exp, "?", ("conforms-raises-" + ename(e), None)
    want = {"pass": "pass", "propagate": "raise"}.get(exp, "fail")
    k = "unknown-name" if cfg["kind"] == "none" else kind_of(cfg, built, name, x)
    seen = []
    for entry in ENTRIES:
        o = run_entry(entry, d, schema, inst, store, built.chk, built.holder)
        raised = built.holder["exc"]
        obs = o[0] if o[0] != "raise" else "raise-" + ename(o[1])
        seen.append(obs)
        more = {"entry_point": entry, "schema": schema}
        if o[0] != want:
            return exp, obs, ("%s|expected-%s|observed-%s" % (k, EXPECTED_WORD[exp], obs), more)
        if want == "raise" and o[1] is not raised:
            if (isinstance(raised, StopIteration) and type(o[1]) is RuntimeError and o[1].__cause__ is raised
                    and "generator raised StopIteration" in str(o[1])):
                return exp, obs, ("custom-raise-StopIteration|propagated-object-is-not-the-raised-one",
                                  dict(more, got=repr(o[1]), raised=repr(raised)))
            return exp, obs, ("%s|propagated-object-is-not-the-raised-one" % k,
                              dict(more, got=repr(o[1]), raised=repr(raised)))
        if want == "fail" and o[1] is not None and shows != "opaque":
            if len(o[1]) != 1:
                return exp, obs, ("error-shape", dict(more, errors=len(o[1])))
            e = o[1][0]
            if shows == "context":
                if entry != "iter_errors":
                    continue            # best_match chooses among the levels; the verdict is what counts there
                if e.validator != WRAPPER[pos] or len(e.context) != 1:
                    return exp, obs, ("error-shape",
                                      dict(more, validator=e.validator, context=len(e.context)))
                e = e.context[0]
            if e.validator != "format" or list(e.absolute_path if shows == "direct" else e.path) != where \
                    or not (e.instance is x or e.instance == x):
                return exp, obs, ("error-shape",
                                  dict(more, validator=e.validator, path=list(e.absolute_path)))
            if exp == "fail" and e.cause is not None:
                return exp, obs, ("%s|unexpected-cause" % k, dict(more, cause=repr(e.cause)))
            if exp == "fail-cause" and e.cause is not raised:
                return exp, obs, ("%s|cause-is-another-object" % k,
                                  dict(more, cause=repr(e.cause), raised=repr(raised)))
    return exp, seen[0], None


def run_below(unit, ctx):
    _, d, i0, i1 = unit
    ev = nt = 0
    outcomes, viol, seen = {}, [], {}
    mine = [pos for pos in BELOW if d in BELOW[pos][0]]
    for cfg in BELOW_CONFIGS[i0:i1]:
        built = Built(cfg)
        for name in below_names(cfg):
            for pos in mine:
                for x in below_instances(cfg):
                    if place_below(pos, name, x) is None:
                        continue
                    ev += 1
                    if cfg["kind"] != "none" and built.decides(name):
                        nt += 1
                    exp, obs, prob = judge_below(built, d, pos, name, x)
                    key = "below-%s:%s->%s" % (pos, exp, obs)
                    outcomes[key] = outcomes.get(key, 0) + 1
                    if prob is not None:
                        sig = "C12|" + prob[0]
                        n = seen.get(sig, 0)
                        seen[sig] = n + 1
                        if n < 3:
                            case = {"draft": d, "checker": cfg, "format": name, "instance": x, "below": pos}
                            viol.append({"signature": sig, "case": case, "size": len(repr(case)),
                                         "detail": {"expected": exp, "observed": obs, "more": prob[1]}})
    if not registries_intact():
        raise AssertionError("harness polluted the class-wide FormatChecker registry")
    dependent = settle_alone(viol)
    return {"evaluations": ev, "nontrivial": nt, "violations": viol, "samples": [], "outcomes": outcomes,
            "counters": {"violating_cases": sum(seen.values()), "reported_cases_that_need_earlier_cases": dependent,
                         "cases_below_an_applicator": ev}}


# ---------------------------------------------------------------- histories (executed in the nursery)

H_STR = list(STRINGS_BY_FAMILY.get(_family(BUILTIN_REG), ("a", "")))       # [conforming, non-conforming] for BUILTIN_REG
H_NAMES = ["cust", BUILTIN_REG]
H_FUNCS = ["only0", "only1", "mode"]
H_MODES = [True, False, "listed", "unlisted"]
H1_VAL = [[e, n, i] for e in ("v", "c") for n in H_NAMES for i in (0, 1)]
H1_OPS = H1_VAL + [["r", n, g] for n in H_NAMES for g in H_FUNCS] + [["m", m] for m in H_MODES]
H1_WORLDS = {"quick": [["default", 7], ["default", 4], ["empty", 3], ["empty", 6]],
             "thorough": [[b, d] for b in ("default", "empty") for d in DRAFTS]}
H1_DEPTH = {"quick": 3, "thorough": 4}
H1_GROUP = {"quick": 3, "thorough": 1}           # first operations per unit
H2_DEPTH = {"quick": 3, "thorough": 4}


def registries_intact():
    if dict(FormatChecker.checkers) != CLASS_REGISTRY:
        return False
    return all(dict(getattr(jsonschema, a).checkers) == DRAFT_REGISTRIES[a] for a in DRAFT_CHECKERS)


def direct(func, raises, s):
    """What a registration (function, raises) says about s, by calling the function."""
    try:
        r = func(s)
    except raises:
        return "fail"
    return "pass" if r else "fail"


class World1(object):
    """One checker object, validators that live as long as it does, and the model of its registrations."""

    def __init__(self, base, draft):
        self.chk = FormatChecker() if base == "default" else FormatChecker(formats=())
        self.table = set(CLASS_REGISTRY) if base == "default" else set()
        self.reg = {n: ("builtin" if n in self.table else None) for n in H_NAMES}
        self.mode, self.exc = True, None
        self.vals = {n: CLS[draft]({"format": n}, format_checker=self.chk) for n in H_NAMES}

    def func(self, g):
        w = self
        if g == "only0":
            return (lambda x: x == H_STR[0]), ()
        if g == "only1":
            return (lambda x: x == H_STR[1]), ()

        def stateful(x):
            if w.mode is True or w.mode is False:
                return w.mode
            w.exc = e = (ValueError if w.mode == "listed" else RuntimeError)("boom")
            raise e
        return stateful, ValueError

    def regkind(self, name):
        r = self.reg[name]
        return "unknown-name" if r is None else ("mode-%s" % (self.mode,) if r == "mode" else r)

    def model(self, name, s):
        r = self.reg[name]
        if r is None:
            return "pass"
        if r == "builtin":
            return direct(CLASS_REGISTRY[name][0], CLASS_REGISTRY[name][1], s)
        if r == "only0":
            return "pass" if s == H_STR[0] else "fail"
        if r == "only1":
            return "pass" if s == H_STR[1] else "fail"
        return {True: "pass", False: "fail", "listed": "fail-cause", "unlisted": "propagate"}[self.mode]

    def apply(self, op):
        """-> [outcome class, observation, problem or None]"""
        bad = None
        if op[0] == "m":
            self.mode = op[1]
            oc, obs = "h1:set-mode", None
        elif op[0] == "r":
            func, raises = self.func(op[2])
            self.chk.checks(op[1], raises=raises)(func)
            self.reg[op[1]] = op[2]
            self.table.add(op[1])
            oc, obs = "h1:register", sorted(self.chk.checkers)
            if set(self.chk.checkers) != self.table:
                bad = ["history|table-after-registration-differs", {"table": obs, "model": sorted(self.table)}]
        else:
            entry, name, s = op[0], op[1], H_STR[op[2]]
            exp = self.model(name, s)
            self.exc = None
            cause = None
            try:
                if entry == "v":
                    errs = list(self.vals[name].iter_errors(s))
                    if not errs:
                        got = "pass"
                    else:
                        cause = errs[0].cause
                        got = "fail-cause" if cause is not None and cause is self.exc else "fail"
                        if len(errs) != 1 or errs[0].validator != "format":
                            got = "other-errors"
                else:
                    r = self.chk.conforms(s, name)
                    got = "nonbool" if type(r) is not bool else ("pass" if r else "fail")
            except BaseException as e:
                got = "propagate" if e is self.exc else "raise-" + ename(e)
            if entry == "c" and exp == "fail-cause":
                exp = "fail"
            obs = [got, None if cause is None else ename(cause)]
            ok = got == exp
            if ok and got == "fail" and self.reg[name] != "builtin" and cause is not None:
                ok = False          # nothing was raised by the registered function: there is no cause to show
                got = "fail-with-a-cause"
            kind = self.regkind(name)
            oc = "h1:%s->%s" % (kind, got)
            if not ok:
                bad = ["history|%s|expected-%s|observed-%s|via-%s" % (kind, exp, got,
                                                                       "validator" if entry == "v" else "conforms"),
                       {"expected": exp, "observed": obs, "string": s, "format": name}]
        if bad is None and not registries_intact():
            bad = ["history|class-wide-or-draft-registry-changed", None]
        return [oc, obs, bad]


def run_h1(base, draft, ops):
    return isolated.run_steps(lambda: World1(base, draft), ops, "history")


def h1_leaves(firsts, depth):
    mids = [list(m) for m in itertools.product(H1_OPS, repeat=depth - 2)]
    return [[H1_OPS[i]] + m + [v] for i in firsts for m in mids for v in H1_VAL]


def nursery_h1(arg):
    base, draft = arg["world"]
    return isolated.explore(h1_leaves(arg["firsts"], arg["depth"]), lambda ops: run_h1(base, draft, ops))


def h2_strings(name):
    return list(STRINGS_BY_FAMILY.get(_family(name), ("a", "")))


def h2_objects(name):
    out = ["lax", "strict"]
    if name in CLASS_REGISTRY:
        out.append("stock-new")
    for a in DRAFT_CHECKERS:
        if name in DRAFT_REGISTRIES[a]:
            out.append("stock:" + a)
            break
    return out


class World2(object):
    """Several checker objects that have a function under the same name; each one's answers are its own."""

    def __init__(self, name):
        self.name = name
        self.objs, self.vals, self.regs = {}, {}, {}
        for label in h2_objects(name):
            d = 7
            if label == "lax":
                chk = FormatChecker(formats=())
                chk.checks(name)(lambda x: True)
            elif label == "strict":
                chk = FormatChecker(formats=())
                chk.checks(name)(lambda x: False)
            elif label == "stock-new":
                chk = FormatChecker()
            else:
                chk = getattr(jsonschema, label[6:])
                d = int(re.search(r"\d+", label).group())
            self.objs[label] = chk
            self.regs[label] = chk.checkers[name]
            self.vals[label] = CLS[d]({"format": name}, format_checker=chk)

    def apply(self, op):
        label, s = op[0], h2_strings(self.name)[op[1]]
        func, raises = self.regs[label]
        exp = direct(func, raises, s)
        try:
            errs = list(self.vals[label].iter_errors(s))
            gv = "pass" if not errs else "fail"
        except BaseException as e:
            gv = "raise-" + ename(e)
        try:
            r = self.objs[label].conforms(s, self.name)
            gc = "nonbool" if type(r) is not bool else ("pass" if r else "fail")
        except BaseException as e:
            gc = "raise-" + ename(e)
        kind = label.split(":")[0]
        bad = None
        if gv != exp or gc != exp:
            bad = ["several-checkers|%s|own-function-says-%s|validator-%s|conforms-%s" % (kind, exp, gv, gc),
                   {"format": self.name, "string": s, "object": label}]
        elif not registries_intact():
            bad = ["several-checkers|class-wide-or-draft-registry-changed", None]
        return ["h2:%s->%s" % (kind, gv), [gv, gc], bad]


def run_h2(name, ops):
    return isolated.run_steps(lambda: World2(name), ops, "several-checkers")


def h2_leaves(name, depth):
    ops = [[label, i] for label in h2_objects(name) for i in (0, 1)]
    return [list(t) for t in itertools.product(ops, repeat=depth)]


def nursery_h2(arg):
    return isolated.explore(h2_leaves(arg["name"], arg["depth"]), lambda ops: run_h2(arg["name"], ops))


# ---------------------------------------------------------------- protocol

PER_UNIT = 6
PER_UNIT_NARROW = 150
PER_UNIT_BELOW = 40


def plan(ctx):
    assert F.selftest() > 0
    units = []
    for d in DRAFTS:
        for i in range(0, N_WIDE, PER_UNIT):
            units.append(("prod", d, i, min(i + PER_UNIT, N_WIDE)))
        for i in range(N_WIDE, len(CONFIGS), PER_UNIT_NARROW):
            units.append(("prod", d, i, min(i + PER_UNIT_NARROW, len(CONFIGS))))
    for d in DRAFTS:
        for i in range(0, len(BELOW_CONFIGS), PER_UNIT_BELOW):
            units.append(("below", d, i, min(i + PER_UNIT_BELOW, len(BELOW_CONFIGS))))
    nbelow = sum(len(below_names(c)) * sum(1 for x in below_instances(c) if place_below(pos, "n", x) is not None)
                 for c in BELOW_CONFIGS for pos in BELOW for d in BELOW[pos][0])
    g = H1_GROUP[ctx.tier]
    for world in H1_WORLDS[ctx.tier]:
        for i in range(0, len(H1_OPS), g):
            units.append(("h1", world[0], world[1], i, min(i + g, len(H1_OPS))))
    for name in REGISTERED:
        units.append(("h2", name))
    POSITIONS = positions(ctx.tier)
    ncases = len(DRAFTS) * len(POSITIONS) * sum(len(names_for(c)) * len(instances_for(c, ctx.tier)) for c in CONFIGS)
    h1_hist = len(H1_WORLDS[ctx.tier]) * sum(len(H1_OPS) ** k for k in range(1, H1_DEPTH[ctx.tier])) \
        + len(H1_WORLDS[ctx.tier]) * len(H1_OPS) ** (H1_DEPTH[ctx.tier] - 1) * len(H1_VAL)
    h2_hist = sum(sum((2 * len(h2_objects(n))) ** k for k in range(1, H2_DEPTH[ctx.tier] + 1)) for n in REGISTERED)
    return {
        "units": units,
        "rule": ("product: case = (draft class, checker configuration, format name, instance, position); the full "
                 "product of the finite lists in bounds is executed (the custom functions that raise one class of the "
                 "wide exception alphabet see the names [their own, 'nope'] and four instances; the non-JSON Python "
                 "values go to every non-custom checker and to the custom functions returning True / False / "
                 "isinstance(str) registered without raises; the thorough tier has a second valid/invalid string per "
                 "family, ten more non-strings and three more schema positions: items, additionalProperties, $ref), so "
                 "cases are distinct by construction; each case runs iter_errors, check() and conforms() on the real "
                 "code and is compared with the model `expected`; non-trivial = a checker is given and it decides "
                 "something under the format name; the remaining cases assert inertness.  below: case = "
                 "(draft, configuration, name, instance, position of `format` below one applicator), the full product "
                 "of bounds.below, each case through four entry points.  histories: every operation "
                 "sequence of the stated depth over the stated operations (H1: sequences that end in a validation; all "
                 "shorter ones are their prefixes), each leaf executed on fresh objects in its own forked child of a "
                 "fresh interpreter, the model compared after every step; evaluations counts every distinct prefix "
                 "once"),
        "bounds": {"names": NAMES, "subclass_only_names": SUB_NAMES, "strings": strings(ctx.tier),
                   "instances_json": len(strings(ctx.tier)) + len(NONSTRINGS) + len(SPECIALS)
                   + (len(MORE_NONSTRINGS) if ctx.tier == "thorough" else 0),
                   "instances_non_json_python": list(PY_TABLE), "checker_configurations": len(CONFIGS),
                   "custom_configurations": sum(1 for c in CONFIGS if c["kind"] == "custom"),
                   "exception_classes": list(EXC), "raises_registrations_per_class": list(MODES),
                   "exception_configurations": len(CONFIGS) - N_WIDE,
                   "checker_subclasses": ["%s/%s" % sb for sb in SUBCLASS_KINDS],
                   "subset_base": SUBSET_BASE, "draft_checkers": DRAFT_CHECKERS, "drafts": list(DRAFTS),
                   "positions": list(POSITIONS), "cases": ncases,
                   "below": {"positions": {pos: {"drafts": list(BELOW[pos][0]), "a_failure_shows": BELOW[pos][1]}
                                           for pos in BELOW},
                             "configurations": len(BELOW_CONFIGS), "instances": BELOW_INSTANCES,
                             "instances_for_the_exception_alphabet": BELOW_INSTANCES[:1],
                             "entry_points": list(ENTRIES), "cases": nbelow},
                   "H1": {"worlds(base checker, draft)": H1_WORLDS[ctx.tier], "depth": H1_DEPTH[ctx.tier],
                          "operations": H1_OPS, "strings": H_STR, "histories": h1_hist},
                   "H2": {"names": REGISTERED, "objects": {n: h2_objects(n) for n in REGISTERED},
                          "depth": H2_DEPTH[ctx.tier], "histories": h2_hist}},
        "assumptions": ["custom functions are registered with FormatChecker.checks on fresh instances; the class-wide "
                        "registry and the tables of the draft checker objects are snapshotted at import and asserted "
                        "unchanged after every unit and after every step of a history",
                        "built-in x string cases are decided by conforms() (their grammars are C13's business); in the "
                        "histories the expected answer of a built-in registration is the registered function called "
                        "directly",
                        "a custom function's return value is interpreted by truthiness",
                        "a custom function that raises FormatError itself is not in the alphabet (the property text "
                        "gives it two readings)",
                        "a checker object is anything with check(); where conforms() is overridden it is overridden "
                        "consistently with check()",
                        "one open finding: an unlisted StopIteration (or subclass) cannot cross the generator that "
                        "implements the keyword (PEP 479), signature kept as F20"],
    }


def quiet_conforms(chk, x, name):
    try:
        return chk.conforms(x, name)
    except Exception:
        return False


def run_product(unit, ctx):
    _, d, i0, i1 = unit
    ev = nt = off_would_reject = 0
    outcomes, viol, samples, seen = {}, [], [], {}
    default = FormatChecker()
    POSITIONS = positions(ctx.tier)
    for cfg in CONFIGS[i0:i1]:
        built = Built(cfg)
        INSTANCES = instances_for(cfg, ctx.tier)
        for name in names_for(cfg):
            known = built.decides(name)
            for pos in POSITIONS:
                for x0 in INSTANCES:
                    x = real(x0)
                    if isinstance(x0, Special):
                        if pos != "top" or expected(cfg, built.known, name, x) != "pass":
                            continue
                    xdesc = x0.desc() if isinstance(x0, (Special, Py)) else x
                    ev += 1
                    exp, obs, prob = judge(built, d, pos, name, x)
                    if cfg["kind"] != "none" and known:
                        nt += 1
                    elif cfg["kind"] == "none" and not quiet_conforms(default, x, name):
                        off_would_reject += 1       # vacuity guard: "off" is observable on these
                    key = "%s:%s->%s" % (cfg["kind"], exp, obs)
                    if isinstance(x0, Py):
                        key += ":python-" + ("str-subclass" if isinstance(x, str) else "non-string")
                    outcomes[key] = outcomes.get(key, 0) + 1
                    if prob is not None:
                        sig = "C12|" + prob[0]
                        n = seen.get(sig, 0)
                        seen[sig] = n + 1
                        if n < 3:
                            case = {"draft": d, "checker": cfg, "format": name, "instance": xdesc, "position": pos}
                            viol.append({"signature": sig, "case": case, "size": len(repr(case)),
                                         "detail": {"expected": exp, "observed": obs, "more": prob[1]}})
                    elif len(samples) < 2 and known and ev % 211 == 7:
                        samples.append({"draft": d, "checker": cfg, "format": name, "instance": xdesc, "position": pos,
                                        "expected": exp, "observed": obs})
    if not registries_intact():
        raise AssertionError("harness polluted the class-wide FormatChecker registry")
    dependent = settle_alone(viol)
    return {"evaluations": ev, "nontrivial": nt, "violations": viol, "samples": samples, "outcomes": outcomes,
            "counters": {"violating_cases": sum(seen.values()), "reported_cases_that_need_earlier_cases": dependent,
                         "no_checker_cases_a_default_checker_would_reject": off_would_reject}}


def settle_alone(viol):
    """A worker has executed many cases before this one, and a configuration's checker object serves all its
    cases.  Each reported case is executed once more alone, in its own child of a fresh interpreter: what
    happens there is what a replay will show, and decides the signature.  -> number of cases that need company"""
    dependent = 0
    if viol:
        alone = isolated.run("mc.props.c12", "nursery_cases", [v["case"] for v in viol])
        for v, tail in zip(viol, alone):
            if tail is None:
                dependent += 1
                v["detail"]["signature_in_the_worker"] = v["signature"]
                v["detail"]["alone_in_a_fresh_process"] = "no violation"
                v["signature"] = "C12|verdict-depends-on-earlier-cases-in-the-process"
            elif "C12|" + tail != v["signature"]:
                v["detail"]["signature_in_the_worker"] = v["signature"]
                v["signature"] = "C12|" + tail
    return dependent


def judge_case(case):
    built = Built(case["checker"])
    if "below" in case:
        return judge_below(built, case["draft"], case["below"], case["format"], real(case["instance"]))
    return judge(built, case["draft"], case["position"], case["format"], real(case["instance"]))


def nursery_cases(cases):
    def alone(case):
        prob = judge_case(case)[2]
        return None if prob is None else prob[0]
    return isolated.fork_each(cases, alone)


def run_histories(unit, ctx):
    if unit[0] == "h1":
        world = [unit[1], unit[2]]
        res = isolated.run("mc.props.c12", "nursery_h1",
                           {"world": world, "firsts": list(range(unit[3], unit[4])), "depth": H1_DEPTH[ctx.tier]})
        head = {"history": "H1", "base": unit[1], "draft": unit[2]}
    else:
        res = isolated.run("mc.props.c12", "nursery_h2", {"name": unit[1], "depth": H2_DEPTH[ctx.tier]})
        head = {"history": "H2", "format": unit[1]}
    viol, seen = [], {}
    for v in sorted(res["violations"], key=lambda v: (len(v["ops"]), repr(v["ops"]))):
        sig = "C12|" + v["bad"][0]
        n = seen.get(sig, 0)
        seen[sig] = n + 1
        if n < 3:
            viol.append({"signature": sig, "case": dict(head, ops=v["ops"]), "size": len(v["ops"]),
                         "detail": v["bad"][1]})
    trivial = sum(n for k, n in res["outcomes"].items() if k in ("h1:set-mode", "h1:register") or "unknown-name" in k)
    samples = []
    if not res["violations"] and unit[-1] in (3, "ipv4"):
        samples.append(dict(head, leaves=res["leaves"], outcomes=res["outcomes"]))
    if not registries_intact():
        raise AssertionError("harness polluted the class-wide FormatChecker registry")
    return {"evaluations": res["histories"], "nontrivial": res["histories"] - trivial, "violations": viol,
            "samples": samples, "outcomes": res["outcomes"],
            "counters": {"violating_cases": sum(seen.values()), "histories": res["histories"],
                         "leaf_histories_each_in_its_own_process": res["leaves"]}}


def run_unit(unit, ctx):
    if unit[0] == "prod":
        return run_product(unit, ctx)
    if unit[0] == "below":
        return run_below(unit, ctx)
    return run_histories(unit, ctx)


MANY_CLASSES = 6


def finish(merged, plan, ctx):
    """One defect, a handful of signatures: where the same failure shows for MANY_CLASSES or more classes of the
    exception alphabet the class is not what distinguishes it, and it is replaced by the number of classes (the
    class stays in every case).  Deterministic: computed from the complete set of violations of the run."""
    groups = {}
    for v in merged["violations"]:
        b = v["case"].get("checker", {}).get("behaviour") if isinstance(v["case"], dict) else None
        if b and b[0] == "raise-class" and ("-raise-%s" % b[1]) in v["signature"]:
            general = v["signature"].replace("-raise-%s" % b[1], "-raise-<CLASS>", 1)
            groups.setdefault(general, []).append((v, b[1]))
    for general, members in groups.items():
        classes = sorted({c for _, c in members})
        if len(classes) >= MANY_CLASSES:
            for v, c in members:
                v["detail"]["signature_with_the_class"] = v["signature"]
                v["detail"]["classes_with_this_failure"] = classes
                v["signature"] = general.replace("<CLASS>", "<%d-exception-classes>" % len(classes))


def replay(case, ctx):
    if "history" in case:
        ops = case["ops"]
        steps = run_h1(case["base"], case["draft"], ops) if case["history"] == "H1" else run_h2(case["format"], ops)
        return {"reproduced": steps[-1][2] is not None, "steps": [[s[0], s[1]] for s in steps],
                "problem": None if steps[-1][2] is None else steps[-1][2][0],
                "detail": None if steps[-1][2] is None else steps[-1][2][1]}
    exp, obs, prob = judge_case(case)
    return {"reproduced": prob is not None, "expected": exp, "observed": obs,
            "problem": None if prob is None else prob[0], "detail": None if prob is None else prob[1]}
