"""C07 — validation is pure and history-independent; a validator can be reused forever.

E2: every operation history (un-merged to depth D0, merged by canonical state
to D1) on ONE validator object over driver schemas with local, store, remote,
relative, recursive and unresolvable references and nested ids; handler
failures are deviations (bounded).  Each transition is compared with a fresh
validator performing only that operation in the effective-availability
environment, and the scope stack / schema / store / instance are checked.
"""
import collections
import copy

from jsonschema import RefResolver, exceptions

from mc.explore import history
from mc.props import _e1
from mc.ref import resolver as refmodel

ID = "C07"
LEVEL = "model_checking"

H = "http://h.invalid/"


def not_(d, s):
    return {"not": s} if d >= 4 else {"disallow": [s]}


def drivers(d):
    idk = refmodel.IDK[d]
    out = []
    # --- A: local, store, handler-served, nested id, abandoned iterations
    S = {idk: H + "root.json",
         "definitions": {"N": {"type": "string"}},
         "properties": {"p": {"$ref": "other.json#/d"},
                        "n": not_(d, {"$ref": "other.json#/d"}),
                        "q": {"$ref": "#/definitions/N"},
                        "r": {"$ref": "remote.json#/d"},
                        "k": {idk: "#k", "$ref": "#/definitions/N"},
                        "t": {idk: "sub/", "items": {"$ref": "../other.json#/e"}},
                        # an id that cannot be parsed, below a well-formed one: reaching it is a RefResolutionError
                        "bad": {idk: H + "ok/", "properties": {"z": {idk: "http://[", "type": "integer"}}},
                        # dependencies in the short forms of the draft, here and in a store document
                        "dep": {"dependencies": {"a": "b" if d == 3 else ["b"], "c": {"required": ["e"]} if d >= 4
                                                 else {"properties": {"e": {"required": True}}}}},
                        "g": {"$ref": "other.json#/f"},
                        # a subschema that names itself with an absolute id, and a reference to that name: ids off
                        # the reference's own path establish nothing (the property of record, upstream issue 371),
                        # so the reference is unresolvable -- before and after the named subschema was visited
                        "emb": {idk: H + "emb.json", "type": "integer"},
                        "toemb": {"$ref": H + "emb.json"}}}
    out.append({
        "name": "A", "schema": S,
        "store": {H + "other.json": {"d": {"type": "integer"}, "e": {"items": {"$ref": "#/d"}},
                                     "f": {"dependencies": {"a": "b" if d == 3 else ["b"]}, "type": ["object", "null"]}}},
        "remote": {H + "remote.json": {"d": {"type": "string"}}},
        "instances": [{"p": 1, "q": "s"}, {"p": "x", "q": 1},
                      {"n": 3, "q": 1, "t": [["a", 1], [2, "b"]], "p": "y"}, {"r": 1, "q": 2},
                      {"q": 1, "bad": {"z": "s"}, "p": "x", "dep": {"a": 1, "c": 2}, "g": {"a": 1}},
                      {"k": 1, "q": "s", "p": "x", "g": {"a": 1, "b": 2}, "dep": {"c": 1}, "emb": 3},
                      {"toemb": "many", "q": "s"},
                      ("defaulting", {"q": 1, "p": "x"})],
        "refs": ["#/definitions/N", "remote.json#/d", "other.json#/e"], "scope": "sub/",
    })
    # --- B: recursion, unresolvable reference, abandoning applicators
    props = {"kids": {"items": {"$ref": "#"}}, "v": {"$ref": "defs.json#/leaf"},
             "u": {"$ref": H + "missing.json#/x"}}
    if d >= 6:
        props["c"] = {"contains": {"$ref": "defs.json#/leaf"}}
    if d >= 4:
        props["o"] = {"oneOf": [{"$ref": "defs.json#/leaf"}, {"$ref": "defs.json#/big"}]}
        props["a"] = {"anyOf": [{"$ref": "defs.json#/big"}, {"$ref": "far.json#/s"}]}
    else:
        props["o"] = {"type": [{"$ref": "defs.json#/big"}, {"$ref": "far.json#/s"}]}
    if d == 7:
        props["i"] = {"if": {"$ref": "defs.json#/leaf"}, "then": {"$ref": "defs.json#/big"}, "else": {"$ref": "far.json#/s"}}
    S = {idk: H + "tree/root.json", "properties": props}
    out.append({
        "name": "B", "schema": S,
        "store": {H + "tree/defs.json": {"leaf": {"type": "integer"}, "big": {"type": "number", "minimum": 5}}},
        "remote": {H + "tree/far.json": {"s": {"type": "string"}}},
        "instances": [{"v": 1, "kids": [{"v": 2, "kids": []}], "o": 1},
                      {"v": "x", "kids": [{"v": "y", "kids": [{"v": 1.5}]}, {"c": ["a", "b"], "o": 7, "a": 1, "i": 2}]},
                      {"v": "x", "u": 1, "kids": [{"v": "z"}]},
                      {"a": 1, "o": "s", "i": "s", "c": [1]}],
        "refs": ["#", "defs.json#/big", "far.json#/s"], "scope": H + "elsewhere/",
    })
    # --- C: same relative reference under two different bases, both handler-served
    S = {idk: H + "a/root.json",
         "properties": {"x": {idk: H + "b/", "properties": {"y": {"$ref": "s.json#/t"}}},
                        "z": {"$ref": "s.json#/t"},
                        "w": {"items": {"$ref": "s.json#/t"}}}}
    out.append({
        "name": "C", "schema": S, "store": {},
        # what a document calls itself is not where it was retrieved from: b/s.json claims to be a/s.json
        "remote": {H + "b/s.json": {idk: H + "a/s.json", "t": {"type": "integer"}},
                   H + "a/s.json": {"t": {"type": "string"}}},
        "instances": [{"x": {"y": 1}}, {"z": 1}, {"w": [1, "s", 2], "x": {"y": "no"}, "z": "s"},
                      ("defaulting", {"z": 5})],
        "refs": ["s.json#/t", H + "b/s.json#/t"], "scope": H + "b/",
    })
    # --- D: no references at all; answers that depend on the VALUE of an instance, not on its Python class
    # (2.0 is an integer from draft 6 on, 2.5 is not; true is not 1), so that anything a validator object
    # remembers per class or per object identity is observable
    S = {"properties": {"i": {"type": "integer"}, "n": {"type": ["number", "null"]},
                        "l": {"items": {"type": "integer"}, "uniqueItems": True},
                        "e": {"enum": [1, "a", [2.0]]}, "m": {"minimum": 2}}}
    out.append({
        "name": "D", "schema": S, "store": {}, "remote": {},
        "instances": [{"i": 2.0, "e": 1, "m": 2.0}, {"i": 2.5, "e": True, "m": True}, {"l": [2.0, 2.5, 2], "i": 2},
                      {"i": True, "n": 1.5, "l": [1, True, 1.0], "e": [2]}, {"i": "2", "n": None, "e": 1.0, "m": 1.5}],
        "refs": [], "scope": H + "elsewhere/",
    })
    return out


def ident(e):
    return (e.validator, e.message, tuple(e.absolute_path), tuple(e.absolute_schema_path),
            tuple(sorted((ident(c) for c in e.context), key=repr)))


class World(object):
    def __init__(self, d, drv, avail=None):
        self.d, self.drv = d, drv
        self.mode = "ok"
        self.avail = avail          # None: answer by mode; else: set of URLs that answer ok
        self.calls = []
        self.fetched = set()
        self.held = []
        self.schema = copy.deepcopy(drv["schema"])
        self.store = copy.deepcopy(drv["store"])
        remote = drv["remote"]

        def handler(uri):
            self.calls.append(uri)
            ok = (self.mode == "ok") if self.avail is None else (uri in self.avail)
            if uri not in remote:
                raise KeyError(uri)                 # what a dict-backed handler does for an unknown document
            if not ok:
                self.nfail = getattr(self, "nfail", 0) + 1
                raise (IOError, RuntimeError, LookupError, TypeError)[self.nfail % 4]("cannot fetch " + uri)
            self.fetched.add(uri)
            return copy.deepcopy(remote[uri])
        cls = _e1.CLS[d]
        self.resolver = RefResolver.from_schema(self.schema, id_of=cls.ID_OF, store=self.store,
                                                handlers={"http": handler})
        self.v = cls(self.schema, resolver=self.resolver)
        self.scope0 = self.resolver.resolution_scope
        self.stack0 = list(getattr(self.resolver, "_scopes_stack", [self.scope0]))
        self.store_keys0 = sorted(self.resolver.store)
        self.store_docs0 = copy.deepcopy({k: self.resolver.store[k] for k in self.store_keys0
                                          if not k.startswith("http://json-schema.org/")})


def run_op(w, op):
    """Apply op to world w, return the observation."""
    kind = op[0]
    if kind == "mode":
        w.mode = op[1]
        return ("mode", op[1])
    try:
        if kind in ("resolve", "resolving"):
            ref = w.drv["refs"][op[1]]
            if kind == "resolve":
                url, res = w.resolver.resolve(ref)
                return ("ret", url, repr(res))
            with w.resolver.resolving(ref) as res:
                inside = w.resolver.resolution_scope
            return ("ret", inside, repr(res))
        if kind == "in_scope":
            with w.resolver.in_scope(w.drv["scope"]):
                inside = w.resolver.resolution_scope
            return ("ret", inside)
        orig = w.drv["instances"][op[1]]
        if isinstance(orig, tuple):         # ("defaulting", {...}): a dict subclass that fills in missing keys when asked
            orig = orig[1]
            x = collections.defaultdict(list, copy.deepcopy(orig))
        else:
            x = copy.deepcopy(orig)
        try:
            if kind == "is_valid":
                return ("ret", w.v.is_valid(x))
            if kind == "exhaust":
                got = []
                try:
                    for e in w.v.iter_errors(x):
                        got.append(ident(e))
                except exceptions.RefResolutionError:
                    return ("raised-after", tuple(got), "RefResolutionError")
                return ("ret", tuple(sorted(got, key=repr)))
            if kind in ("validate", "validate_hold"):
                try:
                    w.v.validate(x)
                    return ("ret", None)
                except exceptions.ValidationError as e:
                    if kind == "validate_hold":
                        w.held.append(e)
                    return ("ValidationError", ident(e))
            if kind in ("take_close", "take_drop"):
                it = w.v.iter_errors(x)
                got = []
                for _ in range(op[2]):
                    e = next(it, None)
                    if e is None:
                        break
                    got.append(ident(e))
                if kind == "take_close":
                    it.close()
                else:
                    del it
                return ("ret", tuple(got))
        finally:
            if x != orig:
                w.mutated_instance = (orig, x)
    except exceptions.RefResolutionError:
        return ("RefResolutionError",)
    except Exception as e:
        return ("EXC", type(e).__name__)
    raise ValueError(op)


class Model(object):
    def __init__(self, d, drv):
        self.d, self.drv = d, drv
        ops = [("mode", "fail"), ("mode", "ok")] if drv["remote"] else []
        for i in range(len(drv["refs"])):
            ops.append(("resolve", i))
        if drv["refs"]:
            ops += [("resolving", 0), ("resolving", len(drv["refs"]) - 1)]
        ops.append(("in_scope",))
        for i in range(len(drv["instances"])):
            ops += [("is_valid", i), ("exhaust", i), ("validate", i), ("take_close", i, 1), ("take_drop", i, 1)]
            if i in (1, 2):         # the instances with several errors: also abandon after the second
                ops.append(("take_drop", i, 2))
        ops.append(("validate_hold", 1))
        self.all_ops = ops

    def new_world(self):
        return World(self.d, self.drv)

    def ops(self, w):
        return [op for op in self.all_ops if not (op[0] == "mode" and op[1] == w.mode)]

    def deviation(self, op):
        return 1 if op == ("mode", "fail") else 0

    def apply(self, w, op):
        w.pre = (w.mode, frozenset(w.fetched))
        w.mutated_instance = None
        return run_op(w, op)

    def outcome_class(self, op, obs):
        return "%s:%s" % (op[0], obs[0] if obs[0] != "ret" else ("ret" if len(obs) < 2 or obs[1] not in ((), None, True)
                                                                   else "ret-clean"))

    def canon(self, w):
        return (tuple(getattr(w.resolver, "_scopes_stack", ())), w.mode,
                frozenset(w.fetched), tuple(sorted(w.resolver.store)), len(w.held))

    def check(self, w, hist, op, obs):
        if obs and obs[0] == "EXC":
            return ("foreign-exception|%s|%s" % (op[0], obs[1]), {"observed": obs})
        if op[0] != "mode":
            mode0, fetched0 = w.pre
            avail = set(fetched0)
            if mode0 == "ok":
                avail |= set(self.drv["remote"])
            f = World(self.d, self.drv, avail=avail)
            f.pre = None
            f.mutated_instance = None
            exp = run_op(f, op)
            if obs != exp:
                return ("differs-from-fresh|" + op[0], {"observed": obs, "fresh": exp})
        try:
            scope_now = w.resolver.resolution_scope
        except Exception as e:
            return ("scope-unreadable|" + op[0], {"exception": type(e).__name__,
                                                  "stack": list(getattr(w.resolver, "_scopes_stack", []))})
        if scope_now != w.scope0:
            return ("scope-not-restored|" + op[0], {"scope": scope_now, "initial": w.scope0})
        st = getattr(w.resolver, "_scopes_stack", None)
        if st is not None and list(st) != w.stack0:
            return ("scope-stack-not-restored|" + op[0], {"stack": list(st), "initial": w.stack0})
        if w.mutated_instance:
            return ("instance-mutated|" + op[0], {"before_after": w.mutated_instance})
        if w.schema != self.drv["schema"]:
            return ("schema-mutated|" + op[0], {"schema": w.schema})
        for k, doc in w.store_docs0.items():
            if k not in w.resolver.store or w.resolver.store[k] != doc:
                return ("store-document-changed|" + op[0], {"key": k})
        # the store holds what it was given plus the documents actually retrieved, under their retrieval URLs
        extra = set(w.resolver.store) - set(w.store_keys0) - set(w.fetched)
        if extra:
            return ("store-gained-entries|" + op[0], {"keys": sorted(extra)})
        return None


# ---- purity sweep over the whole grammar (E1 inside C07) -------------------------
PURE_URL = H + "pure/doc.json"
PURE_OPS = ("is_valid", "exhaust", "validate", "take1")


def snapshot(x):
    """Text that distinguishes 1 / 1.0 / True, key order and container types."""
    if isinstance(x, dict):
        return "{%s}" % ",".join("%r:%s" % (k, snapshot(v)) for k, v in x.items())
    if isinstance(x, (list, tuple)):
        return "%s[%s]" % (type(x).__name__, ",".join(snapshot(v) for v in x))
    return "%s:%r" % (type(x).__name__, x)


def pure_call(v, op, x):
    try:
        if op == "is_valid":
            v.is_valid(x)
        elif op == "exhaust":
            list(v.iter_errors(x))
        elif op == "validate":
            v.validate(x)
        else:
            it = v.iter_errors(x)
            next(it, None)
            del it
    except (exceptions.ValidationError, exceptions.RefResolutionError, exceptions.UnknownType):
        pass


def pure_problem(d, S, x, via_store):
    """None or (what, detail): the schema / store document / instance after every entry point vs. before."""
    cls = _e1.CLS[d]
    for op in PURE_OPS:
        S1 = copy.deepcopy(S)
        x1 = copy.deepcopy(x)
        if via_store:
            root = {"$ref": PURE_URL + "#/s"}
            doc = {"s": S1}
            r = RefResolver.from_schema(root, id_of=cls.ID_OF, store={PURE_URL: doc})
            v = cls(root, resolver=r)
        else:
            v = cls(S1)
        s0, x0 = snapshot(S1), snapshot(x1)
        try:
            pure_call(v, op, x1)
        except Exception:
            continue        # totality is C03's business
        if snapshot(S1) != s0:
            return ("store-document-modified" if via_store else "schema-modified", {"op": op, "after": S1})
        if snapshot(x1) != x0:
            return ("instance-modified", {"op": op, "after": x1})
        if via_store and (r.resolution_scope != "" or len(getattr(r, "_scopes_stack", [""])) != 1):
            return ("scope-not-restored", {"op": op, "scope": r.resolution_scope})
    return None


def run_pure(unit, ctx):
    from mc.enum import jsonvals
    d, _, kind, shard, n = unit
    U = jsonvals.universe_small()
    ev = nt = 0
    viol, outcomes, samples = [], {}, []
    lst = _e1.get_list(kind, d, ctx.tier)
    for i in range(shard, len(lst), n):
        S = lst[i]
        if kind != "singles" and not _e1.accepted(d, S):
            continue
        for x in U:
            if not _e1.nontrivial(S, x):
                continue
            for via_store in (False, True):
                ev += 1
                nt += 1
                p = pure_problem(d, S, x, via_store)
                key = "pure" if p is None else p[0]
                outcomes[key] = outcomes.get(key, 0) + 1
                if p is not None:
                    viol.append({"signature": "C07|purity|%s|%s" % (p[0], _e1.kwsig(S)), "size": len(str(S)) + len(str(x)),
                                 "case": {"kind": "purity", "draft": d, "schema": S, "instance": x, "via_store": via_store},
                                 "detail": p[1]})
        if not samples and i % 37 == 5:
            samples.append({"kind": "purity", "draft": d, "schema": S, "instance": U[i % len(U)]})
    return {"evaluations": ev, "nontrivial": nt, "violations": viol, "samples": samples, "outcomes": outcomes,
            "counters": {"purity_cases": ev}}


def depths(ctx):
    return (3, 5, 2) if ctx.tier == "quick" else (4, 7, 2)


_models = {}


def get_model(d, name):
    key = (d, name)
    if key not in _models:
        drv = [x for x in drivers(d) if x["name"] == name][0]
        _models[key] = Model(d, drv)
    return _models[key]


def plan(ctx):
    units = []
    sizes = {}
    for d in _e1.DRAFTS:
        for drv in drivers(d):
            m = get_model(d, drv["name"])
            sizes["ops_%s_d%d" % (drv["name"], d)] = len(m.all_ops)
            for i in range(len(m.all_ops)):
                units.append((d, drv["name"], i))
    for d in _e1.DRAFTS:
        for kind in (("singles", "groups", "nested") if ctx.thorough else ("singles", "groups")):
            lst = _e1.get_list(kind, d, ctx.tier)
            sizes["purity_%s_d%d" % (kind, d)] = len(lst)
            n = max(1, min(8, len(lst) // 100))
            units += [(d, "pure", kind, i, n) for i in range(n)]
        units.append((d, "many", 0))
    D0, D1, dev = depths(ctx)
    return {
        "units": units,
        "rule": ("PURITY SWEEP: every single-keyword schema and sibling group of G(draft) x 29 instances x 4 entry "
                 "points, the schema given directly and as a store document reached through $ref: schema, store "
                 "document and instance are compared (types, key order) before and after.  HISTORIES: "
                 "4 driver schemas per draft (D: reference-free, value-dependent answers on 2 / 2.0 / 2.5 / true; local / store / handler-served / relative-under-nested-id / recursive / "
                 "unresolvable references, references under not, contains, oneOf, anyOf, if and draft-3 type/disallow) "
                 "x all operation histories on one validator: un-merged to depth D0, then one representative per "
                 "canonical state (scope stack, handler mode, fetched set, store keys, held exceptions) to depth D1; "
                 "handler failures are deviations, bound = 2; each transition = fresh world + replay + one operation, "
                 "compared with a fresh validator doing only that operation in the effective-availability "
                 "environment; states = distinct canonical states; distinct_nontrivial = transitions whose "
                 "observation is not a clean success"),
        "bounds": dict(sizes, unmerged_depth=D0, merged_depth=D1, deviation_bound=dev, tier=ctx.tier),
        "assumptions": ["CPython reference counting finalises dropped generators at once (the property's own premise)",
                        "canonical state contains everything the current code reads for future answers; the "
                        "un-merged regime needs no such argument"],
    }


def run_many(unit, ctx):
    """After one validator has pulled 300 distinct documents through its resolver, it still answers like a new one
    (also for documents supplied in the store, the metaschema and local definitions)."""
    from mc.props import c15
    c15._load_meta()
    c15.NET.install()
    try:
        p = c15.many_problems(unit[0])
    finally:
        c15.NET.uninstall()
    viol = []
    if p is not None and not p[0].startswith("documents-fetched") and not p[0].startswith("unexpected-number"):
        viol.append({"signature": "C07|many-documents|" + p[0], "size": 300,
                     "case": {"kind": "many", "draft": unit[0]}, "detail": p[1]})
    return {"evaluations": 310, "nontrivial": 310, "violations": viol, "samples": [], "outcomes": {"many-documents": 1},
            "counters": {"states": 8, "transitions": 8, "traces_validated_against_impl": 8}}


def run_unit(unit, ctx):
    if unit[1] == "many":
        return run_many(unit, ctx)
    if unit[1] == "pure":
        return run_pure(unit, ctx)
    d, name, first = unit
    m = get_model(d, name)
    D0, D1, dev = depths(ctx)
    r = history.explore(m, [m.all_ops[first]], D0, D1, dev)
    viol = []
    for hist, (sig, detail) in r["violations"]:
        viol.append({"signature": "C07|" + sig, "size": len(hist) * 100 + len(str(hist)),
                     "case": {"draft": d, "driver": name, "history": [list(op) for op in hist]},
                     "detail": detail})
    nontrivial = sum(v for k, v in r["outcomes"].items() if not k.endswith("ret-clean") and not k.startswith("mode"))
    return {"evaluations": r["transitions"], "nontrivial": nontrivial, "violations": viol,
            "samples": [dict(s, draft=d, driver=name) for s in r["samples"][:1]],
            "outcomes": dict(r["outcomes"]),
            "counters": {"states": len(r["states"]), "transitions": r["transitions"],
                         "traces_validated_against_impl": r["transitions"],
                         "unmerged_histories": r["unmerged_histories"], "merged_expansions": r["merged_expansions"],
                         "max_depth": r["max_depth"],
                         "transitions_with_0_deviations": r["by_deviations"].get(0, 0),
                         "transitions_with_1_deviation": r["by_deviations"].get(1, 0),
                         "transitions_with_2_deviations": r["by_deviations"].get(2, 0)}}


def finish(merged, plan, ctx):
    # states are per (draft, driver, first op) shard; report the sum as an upper bound and say so
    merged["counters"]["states_note"] = "sum over shards of distinct canonical states (a state may recur across shards)"


def replay(case, ctx):
    if case.get("kind") == "many":
        r = run_many((case["draft"], "many", 0), ctx)
        return {"reproduced": bool(r["violations"])}
    if case.get("kind") == "purity":
        p = pure_problem(case["draft"], case["schema"], case["instance"], case["via_store"])
        return {"reproduced": p is not None, "problem": p}
    m = get_model(case["draft"], case["driver"])
    hist = tuple(tuple(op) for op in case["history"])
    w = history.rebuild(m, hist[:-1])
    obs = m.apply(w, hist[-1])
    bad = m.check(w, hist[:-1], hist[-1], obs)
    return {"reproduced": bad is not None, "observation": obs, "problem": bad}
