"""C13 — built-in format checkers decide their grammars exactly and never raise.

Per grammar family (ipv4, ipv6, date, regex, email, time, idn-hostname, and any
other registered name) a finite space of strings is enumerated completely:

  short   every string of at most n atoms over a family-specific alphabet
  grid    (date) the calendar grid in many spellings + ISO 8601 alternatives
  edit1   every single insertion / deletion / substitution, over a wide
          alphabet, applied to ~20 valid and invalid seeds
  edit2   (thorough) every double edit over a narrower alphabet

Every string is shown to every registered format: to every (checker object,
name) pair of the string's own family, and to one representative (checker,
name) of every distinct registered (function, raises) entry of the other
families.  Observed: check() and conforms().  Oracles: the hand-written
recognisers of mc/ref/formats.py (ipv4, ipv6, date, email; one-sided for
idn-email: no '@' => reject), `re.compile` for regex; for every pair:
conforms() returns a bool, agrees with check(), and nothing but FormatError
comes out of check().

Three more spaces, all about "for every string whatsoever" / "the draft-specific
checker objects":

  construct   the grammar does not depend on how the checker object was built:
              FormatChecker(), FormatChecker(formats=None) and
              FormatChecker(formats=X) for X a list, tuple, set, frozenset, dict,
              dict.keys(), a list with duplicates, a list of str-subclass names, a
              generator, iter(list), map, filter, reversed, a one-shot iterable
              class, and a FormatChecker subclass -- each for the full set of
              registered names and for every single name; every (object, name) sees
              the seeds of its family and their single-character deletions, judged
              by the same oracles

  strsub      every seed as an instance of a str subclass (still a string: same
              oracle, same demands)
  interleave  the answer for a string must not depend on what any checker object
              was asked before: per registered name, a custom checker whose
              function accepts everything, a custom one that rejects everything
              and two (thorough: all) stock checker objects that know the name;
              every sequence of 3 (thorough: also 4 on two stock objects)
              operations (object, conforming / non-conforming string), each leaf
              sequence in its own forked child of a fresh interpreter
              (mc/explore/isolated.py); after every step the stock objects are
              compared with the grammar oracle (or, for the oracle-less
              families, with their registered function called directly) and the
              custom ones with their own functions
"""
import itertools
import re
import zlib

import jsonschema
from jsonschema import FormatChecker
from jsonschema.exceptions import FormatError

from mc.explore import isolated
from mc.ref import formats as F

ID = "C13"
LEVEL = "exploration"

# ----------------------------------------------------------------------------
# targets, discovered from the installation
# ----------------------------------------------------------------------------


def checker_objects():
    objs = [("FormatChecker()", FormatChecker())]
    for attr in sorted(dir(jsonschema)):
        if re.fullmatch(r"draft\d+_format_checker", attr):
            objs.append((attr, getattr(jsonschema, attr)))
    return objs


def family_of(name):
    if name in F.FAMILY:
        return F.FAMILY[name]
    if name in ("time", "idn-hostname"):
        return name
    return "other:" + name


def regex_oracle(s):
    try:
        re.compile(s)
        return True
    except re.error:
        return False
    except Exception:       # the engine cannot compile it (OverflowError, RecursionError ...)
        return False


def idn_email_oracle(s):
    return None if "@" in s else False     # no claim beyond '@'


ORACLE = {"ipv4": F.is_ipv4, "ipv6": F.is_ipv6, "date": F.is_date, "email": F.is_email,
          "idn-email": idn_email_oracle, "regex": regex_oracle}


class Target(object):
    __slots__ = ("label", "chk", "name", "fam", "oracle", "rep")


def build_targets():
    out, seen = [], set()
    for label, chk in checker_objects():
        for name in sorted(chk.checkers):
            t = Target()
            t.label, t.chk, t.name = label, chk, name
            t.fam = family_of(name)
            t.oracle = ORACLE.get(t.fam)
            func, raises = chk.checkers[name]
            key = (id(func), raises if isinstance(raises, tuple) else (raises,), t.fam)
            t.rep = key not in seen
            seen.add(key)
            out.append(t)
    return out


TARGETS = build_targets()
SPACE_OF = {"idn-email": "email"}      # idn-email strings are the email space


def space_family(fam):
    return SPACE_OF.get(fam, fam)


# ----------------------------------------------------------------------------
# string spaces
# ----------------------------------------------------------------------------

BIG = "99999999999"
FW1, AI3 = "１", "٣"       # full-width digit one, Arabic-Indic digit three

SHORT = {   # family -> tier -> (atoms, n)
    "ipv4": {"quick": (list("0125."), 7), "thorough": (list("0125."), 8)},
    "ipv6": {"quick": (list("01f:."), 7), "thorough": (list("01f:."), 8)},
    "regex": {"quick": (list("a1(){}[]*+?|\\^.,-") + [BIG], 4),
              "thorough": (list("a1(){}[]*+?|\\^.,-") + [BIG], 5)},
    "email": {"quick": (list("a@. \n") + ["＠"], 5), "thorough": (list("a@. \n") + ["＠"], 6)},
    "date": {"quick": (list("012-W"), 7), "thorough": (list("012-W"), 8)},
    "time": {"quick": (list("0126: "), 5), "thorough": (list("0126: "), 7)},
    "idn-hostname": {"quick": (list("a-.xn1") + ["。", "\xdf", "‍", "٠", "A", "́"], 4),
                     "thorough": (list("a-.xn1") + ["。", "\xdf", "‍", "٠", "A", "́"], 5)},
}

WIDE = list("019af.:-+/%@ \n\tTWZ_x{}\\(") + [FW1, AI3, "\x00", "\xe9"]
NARROW = list("01f.:- \n%") + [FW1]

SEEDS = {
    "ipv4": ["127.0.0.1", "0.0.0.0", "255.255.255.255", "1.2.3.4", "192.168.1.100", "10.0.0.255", "9.99.199.249",
             "256.0.0.1", "1.2.3.256", "01.2.3.4", "1.2.3.04", "1.2.3", "1.2.3.4.5", "1.2.3.", ".1.2.3", "1..2.3",
             "1.2.3.4/8", "0x7f.0.0.1", "1.2.3.1000", "2130706433"],
    "ipv6": ["::", "::1", "1::", "1:2:3:4:5:6:7:8", "1:2:3:4:5:6:7::", "::2:3:4:5:6:7:8", "1:2:3::6:7:8", "::1.2.3.4",
             "1:2:3:4:5:6:1.2.3.4", "::ffff:1.2.3.4", "fe80::1", "2001:db8::8:800:200c:417a", "FF01::101",
             "fe80::1%eth0", "::1/128", "1:2:3:4:5:6:7", "1:2:3:4:5:6:7:8:9", "12345::", "1::2::3",
             "1:2:3:4:5:6:7:1.2.3.4", "::1.2.3.256", "[::1]"],
    "date": ["2020-01-01", "2020-02-29", "2000-02-29", "2020-12-31", "9999-12-31", "0001-01-01", "0000-01-01",
             "1999-09-09", "2019-02-29", "1900-02-29", "2020-13-01", "2020-00-01", "2020-04-31", "2020-01-32",
             "20200101", "2020-W01-1", "2020-W01", "2020-001", "2020-1-1", "2020-01-01T00:00:00", "01-01-2020"],
    "regex": ["a{" + BIG + "}", "a{1," + BIG + "}", "a{1,2}", "(a)\\1", "[a-z]+", "(?P<n>a)(?P=n)", "(?i)a", "a**", "(",
              "[", "\\", "(?<=a+)b", "a{2,1}", "\\p{L}", "(?#c)", "(?P<1>a)", "[z-a]", "\\x4", "\\N{DIGIT ONE}",
              "(a)(?(1)b|c)", "\\100", "^a$", "a|*"],
    "email": ["a@b", "a@b.c", "@", "ab", "", "a＠b", "a b@c", "a@@b", "a.b", "\n@"],
    "time": ["12:00:00", "23:59:59", "00:00:00", "23:59:60", "23:59:61", "24:00:00", "1:2:3", "12:00", "12:00:00Z",
             "12:00:00.5", "12-00-00", "12:60:00", "120000", " 12:00:00", "12:00:00+01:00"],
    "idn-hostname": ["example.com", "ex\xe4mple.com", "xn--exmple-cua.com", "a..b", "-a.com", "a-.com",
                     "a" * 63 + ".com", "a" * 64 + ".com", "。", "a。b", "xn--", "\xdf.de", "a_b.com",
                     "1.2.3.4", "", ".", "A.COM", "a‍b", "xn--a", "ab--c.com"],
}

# absurdly long / deep inputs (no edits, no shrinking): "absurd repetition counts in regexes" and their kin.
# Every family sees every one of them (the never-raises half is claimed for every string whatsoever).
ABSURD = ["(" * 50 + ")" * 50, "(" * 500 + ")" * 500, "(" * 3000 + ")" * 3000, "a" * 20000, "[" * 3000,
          "(?:" * 2000 + ")" * 2000, "a{1,2}" * 3000, "1." * 5000, ":" * 10000, "9" * 5000, "a{" + "9" * 5000 + "}",
          "a{1," + "9" * 4400 + "}", "(a)" * 200 + "\\200", "\\" + "9" * 5000, "2020-01-" + "0" * 5000 + "1", "1:" * 5000,
          "a@" + "b" * 10 ** 5, "x" * 10 ** 6, "\u3002" * 5000, "xn--" + "a" * 5000, ("a" * 63 + ".") * 100,
          "0" * 4400 + ".0.0.0", "::" + "f" * 5000, "12:00:" + "0" * 5000, "a|" * 5000, "(?P<n>" * 300 + ")" * 300]

DATE_YEARS = ["0000", "0001", "1900", "2000", "2019", "2020", "2100", "9999"]


def date_grid():
    out = []
    for Y in DATE_YEARS:
        y = str(int(Y))
        for m in range(0, 14):
            for d in range(0, 33):
                mm, dd = "%02d" % m, "%02d" % d
                p = "%s-%s-%s" % (Y, mm, dd)
                out += [p, "%s-%d-%d" % (Y, m, d), "%s-%s-%s" % (y, mm, dd), "%s-%d-%d" % (y, m, d),
                        Y + mm + dd, "%s-%s%s" % (Y, mm, dd), "%s%s-%s" % (Y, mm, dd),
                        "%s/%s/%s" % (Y, mm, dd), "%s.%s.%s" % (Y, mm, dd), "%s %s %s" % (Y, mm, dd),
                        p + "T", p + "Z", p + " ", " " + p, p + "\n", p + "T00:00:00", p + "T00:00:00Z",
                        "%s-%s-%s" % (dd, mm, Y), "+" + p, "-" + p, "0" + p, p + "0"]
        for w in range(0, 55):
            ww = "%02d" % w
            out += ["%s-W%s" % (Y, ww), "%sW%s" % (Y, ww), "%s-w%s" % (Y, ww), "%s-W%d" % (Y, w)]
            for d in range(0, 9):
                out += ["%s-W%s-%d" % (Y, ww, d), "%sW%s%d" % (Y, ww, d), "%s-w%s-%d" % (Y, ww, d),
                        "%s-W%d-%d" % (Y, w, d), "%s-W%s%d" % (Y, ww, d), "%sW%s-%d" % (Y, ww, d)]
        for o in (0, 1, 31, 32, 59, 60, 61, 365, 366, 367, 999):
            out += ["%s-%03d" % (Y, o), "%s%03d" % (Y, o), "%s-%d" % (Y, o)]
    return out


def edits(s, alphabet):
    out = []
    n = len(s)
    for i in range(n + 1):
        a, b = s[:i], s[i:]
        for c in alphabet:
            out.append(a + c + b)
    for i in range(n):
        a, b = s[:i], s[i + 1:]
        out.append(a + b)
        for c in alphabet:
            if c != s[i]:
                out.append(a + c + b)
    return out


def short_params(fam, tier):
    return SHORT[fam][tier] if fam in SHORT else None


def in_short(s, fam, tier):
    p = short_params(fam, tier)
    if p is None:
        return False
    atoms, n = p
    if BIG in atoms:
        s = s.replace(BIG, "\x01")
        if "9" in s:
            return False
        return len(s) <= n and all(c in atoms or c == "\x01" for c in s)
    return len(s) <= n and all(c in atoms for c in s)


def seeds_of(fam):
    if fam in SEEDS:
        return SEEDS[fam]
    pooled = []          # a registered name this file has never heard of: pooled seeds, never-raises only
    for k in sorted(SEEDS):
        pooled += SEEDS[k][:6]
    return pooled


# built by plan() in the parent, shared with forked workers
_P = {"tier": None, "lists": {}, "sets": {}}


def prepare(tier):
    if _P["tier"] == tier:
        return
    _P["tier"], _P["lists"], _P["sets"] = tier, {}, {}
    fams = sorted({space_family(t.fam) for t in TARGETS})
    for fam in fams:
        taken = set()
        if fam == "date":
            g = []
            for s in date_grid():
                if s not in taken and not in_short(s, fam, tier):
                    taken.add(s)
                    g.append(s)
            _P["lists"][(fam, "grid")] = g
        e1 = []
        for seed in seeds_of(fam):
            for s in [seed] + edits(seed, WIDE):
                if s not in taken and not in_short(s, fam, tier):
                    taken.add(s)
                    e1.append(s)
        _P["lists"][(fam, "edit1")] = e1
        _P["lists"][(fam, "absurd")] = [x for x in ABSURD if x not in taken and not in_short(x, fam, tier)] \
            if fam == fams[0] else []      # one family's units carry them; every format sees every string anyway
        _P["sets"][fam] = taken


E2_BUCKETS = 48


def iter_edit2(fam, tier, bucket):
    """Double edits over NARROW that are not in short / grid / edit1; bucketed by a stable
    hash of the string so that each string belongs to exactly one unit."""
    taken = _P["sets"][fam]
    mine = set()
    for seed in seeds_of(fam):
        if len(seed) > 20:
            continue
        for s1 in set(edits(seed, NARROW)):
            for s2 in edits(s1, NARROW):
                if zlib.crc32(s2.encode("utf-8")) % E2_BUCKETS != bucket:
                    continue
                if s2 in mine or s2 in taken or in_short(s2, fam, tier):
                    continue
                mine.add(s2)
    return sorted(mine)


def iter_short(fam, tier, prefix):
    atoms, n = short_params(fam, tier)
    if prefix is None:          # everything shorter than the prefix length used for sharding
        p = prefix_len(fam, tier)
        for k in range(0, p):
            for tup in itertools.product(atoms, repeat=k):
                yield "".join(tup)
        return
    head = "".join(atoms[i] for i in prefix)
    for k in range(0, n - len(prefix) + 1):
        for tup in itertools.product(atoms, repeat=k):
            yield head + "".join(tup)


def short_size(fam, tier):
    atoms, n = short_params(fam, tier)
    return sum(len(atoms) ** k for k in range(n + 1))


def prefix_len(fam, tier):
    atoms, n = short_params(fam, tier)
    p = 1
    while p < n - 1 and short_size(fam, tier) / float(len(atoms) ** p) > 12000:
        p += 1
    return p


# ----------------------------------------------------------------------------
# observation and judgement
# ----------------------------------------------------------------------------


def observe(t, s):
    try:
        t.chk.check(s, t.name)
        c = "pass"
    except FormatError:
        c = "fail"
    except Exception as e:
        c = "raise-" + type(e).__name__
    try:
        b = t.chk.conforms(s, t.name)
    except Exception as e:
        b = "raise-" + type(e).__name__
    return c, b


def judge(t, s):
    """Returns (outcome class, problem kind or None)."""
    c, b = observe(t, s)
    if c.startswith("raise-"):
        return c, c.replace("raise-", "raises-")
    if isinstance(b, str):
        return b, b.replace("raise-", "raises-")
    if type(b) is not bool:
        return "nonbool", "conforms-returns-" + type(b).__name__
    if (c == "pass") != b:
        return "disagree", "check-conforms-disagree"
    if t.oracle is not None:
        exp = t.oracle(s)
        if exp is not None and exp != b:
            return ("accept" if b else "reject"), ("accepts-invalid" if b else "rejects-valid")
    return ("accept" if b else "reject"), None


def shrink(s, pred):
    """Greedy deletion of one character, then of two, while the predicate holds."""
    changed = True
    while changed:
        changed = False
        n = len(s)
        cands = [s[:i] + s[i + 1:] for i in range(n)]
        if n <= 40:
            cands += [s[:i] + s[i + 1:j] + s[j + 1:] for i in range(n) for j in range(i + 1, n)]
        for c in cands:
            if pred(c):
                s, changed = c, True
                break
    return s


def shape(s, fam):
    out = []
    for ch in s:
        if ch in F.DIGITS:
            out.append("D")
        elif fam == "ipv6" and ch in "abcdefABCDEF":
            out.append("H")
        elif " " < ch < "\x7f":
            out.append(ch)
        else:
            out.append("<U+%04X>" % ord(ch))
    return "".join(out)


def klass(t, s, kind):
    """Failure class of a grammar disagreement; the signature is built from it and the
    shrinker stays inside it."""
    if t.fam == "date" and kind == "rejects-valid" and s.startswith("0000-"):
        return "year-0000"
    if t.fam == "date" and kind == "accepts-invalid":
        # the ISO 8601 spellings other than the RFC 3339 full-date
        if len(s) == 8 and all(c in F.DIGITS for c in s):
            return "iso8601-basic-YYYYMMDD"
        if len(s) > 8 and all(c in F.DIGITS for c in s[:8]):
            return "iso8601-basic-YYYYMMDD+trailing-characters"
        if "W" in s:
            return "iso8601-week-date"
    if kind in ("accepts-invalid", "rejects-valid"):
        return "shape"
    return ""


def signature(t, s, kind):
    k = klass(t, s, kind)
    if k == "shape":
        k = shape(s, t.fam)
    return "C13|%s|%s%s" % (t.fam, kind, "|" + k if k else "")


def make_violation(t, s, kind):
    k0 = klass(t, s, kind)
    if len(s) > 300:
        small = s       # absurd inputs are reported as they are (shrinking them costs O(n^2) compilations)
    else:
        small = shrink(s, lambda c: judge(t, c)[1] == kind and klass(t, c, kind) == k0)
    c, b = observe(t, small)
    return {"signature": signature(t, small, kind), "size": len(small),
            "case": {"checker": t.label, "format": t.name, "string": small, "kind": kind},
            "detail": {"check": c, "conforms": b if isinstance(b, (bool, str)) else repr(b),
                       "oracle": None if t.oracle is None else t.oracle(small), "unshrunk_string": s}}


def run_strings(strings, fam, edit_space):
    mine = [t for t in TARGETS if space_family(t.fam) == fam]
    reps = [t for t in TARGETS if space_family(t.fam) != fam and t.rep]
    todo = mine + reps
    own_oracle = next((t.oracle for t in mine if t.oracle is not None and t.fam == fam), None)
    rep_own = next((t for t in mine), None)
    ev = nt = nstr = 0
    outcomes, viol, samples, seen_pre = {}, [], [], {}
    nviol = 0
    for s in strings:
        nstr += 1
        member = None
        for t in todo:
            ev += 1
            oc, kind = judge(t, s)
            key = t.fam + ":" + oc
            outcomes[key] = outcomes.get(key, 0) + 1
            if t is rep_own:
                member = oc == "accept"
            if kind is not None:
                nviol += 1
                pre = (t.fam, kind, klass(t, s, kind))
                if pre[2] == "shape":
                    pre = (t.fam, kind, shape(s, t.fam))
                k = seen_pre.get(pre, 0)
                seen_pre[pre] = k + 1
                if k < 2 and len(seen_pre) <= 60:
                    viol.append(make_violation(t, s, kind))
        if own_oracle is not None:
            exp = own_oracle(s)
            member = bool(exp) if exp is not None else member
        if edit_space or member:
            nt += 1
            if len(samples) < 2 and nstr % 97 == 5 and len(s) < 200:
                samples.append({"family": fam, "string": s, "in_language": bool(member)})
    return {"evaluations": ev, "nontrivial": nt, "violations": viol, "samples": samples, "outcomes": outcomes,
            "counters": {"strings": nstr, "violating_observations": nviol}}


# ----------------------------------------------------------------------------
# str-subclass instances of the seeds
# ----------------------------------------------------------------------------


class StrSub(str):
    """An instance of a str subclass is a string."""


def run_strsub(fam):
    mine = [t for t in TARGETS if space_family(t.fam) == fam]
    reps = [t for t in TARGETS if space_family(t.fam) != fam and t.rep]
    ev = nt = nviol = 0
    outcomes, viol, seen = {}, [], {}
    for s in seeds_of(fam):
        for t in mine + reps:
            ev += 1
            oc, kind = judge(t, StrSub(s))
            plain, plain_kind = judge(t, s)
            if kind is None and oc != plain:
                kind = "str-subclass-%s-but-str-%s" % (oc, plain)       # the same characters, another answer
            if t in mine:
                nt += 1
            key = t.fam + ":strsub:" + oc
            outcomes[key] = outcomes.get(key, 0) + 1
            if kind is not None:
                nviol += 1
                if kind == plain_kind:      # the plain string fails in the same way: nothing particular to the subclass
                    sig = signature(t, s, kind)
                else:
                    sig = "C13|%s|%s|str-subclass" % (t.fam, kind)
                n = seen.get(sig, 0)
                seen[sig] = n + 1
                if n < 2:
                    c, b = observe(t, StrSub(s))
                    viol.append({"signature": sig, "size": len(s),
                                 "case": {"checker": t.label, "format": t.name, "string": s, "kind": kind,
                                          "as": "str-subclass"},
                                 "detail": {"check": c, "conforms": b if isinstance(b, (bool, str)) else repr(b),
                                            "oracle": None if t.oracle is None else t.oracle(s),
                                            "plain_str_outcome": plain}})
    return {"evaluations": ev, "nontrivial": nt, "violations": viol, "samples": [], "outcomes": outcomes,
            "counters": {"strings": len(seeds_of(fam)), "violating_observations": nviol}}


# ----------------------------------------------------------------------------
# how the checker object was constructed
# ----------------------------------------------------------------------------

ALL_NAMES = sorted(FormatChecker.checkers)


class OneShot(object):
    """An iterable (not a sequence, not a generator) that can be walked once."""

    def __init__(self, names):
        self._it = iter(list(names))

    def __iter__(self):
        return self._it


class SubChecker(FormatChecker):
    pass


CONSTRUCT = {
    "no-argument": lambda names: FormatChecker() if names is ALL_NAMES else None,
    "None": lambda names: FormatChecker(formats=None) if names is ALL_NAMES else None,
    "list": lambda names: FormatChecker(formats=list(names)),
    "tuple": lambda names: FormatChecker(formats=tuple(names)),
    "set": lambda names: FormatChecker(formats=set(names)),
    "frozenset": lambda names: FormatChecker(formats=frozenset(names)),
    "dict": lambda names: FormatChecker(formats=dict.fromkeys(names, 0)),
    "dict-keys": lambda names: FormatChecker(formats=dict.fromkeys(names, 0).keys()),
    "list-with-duplicates": lambda names: FormatChecker(formats=list(names) + list(names)),
    "list-of-str-subclass": lambda names: FormatChecker(formats=[StrSub(n) for n in names]),
    "generator": lambda names: FormatChecker(formats=(n for n in names)),
    "iter-of-list": lambda names: FormatChecker(formats=iter(list(names))),
    "map": lambda names: FormatChecker(formats=map(str, names)),
    "filter": lambda names: FormatChecker(formats=filter(None, names)),
    "reversed": lambda names: FormatChecker(formats=reversed(list(names))),
    "one-shot-iterable-object": lambda names: FormatChecker(formats=OneShot(names)),
    "subclass-no-argument": lambda names: SubChecker() if names is ALL_NAMES else None,
    "subclass-list": lambda names: SubChecker(formats=list(names)),
    "keyword-by-position": lambda names: FormatChecker(list(names)),
}
HOWS = sorted(CONSTRUCT)


def construct_strings(fam):
    out, seen = [], set()
    for seed in seeds_of(fam):
        cands = [seed]
        if len(seed) <= 40:
            cands += [seed[:i] + seed[i + 1:] for i in range(len(seed))]
        for c in cands:
            if c not in seen:
                seen.add(c)
                out.append(c)
    return out


def constructed_target(how, which, name):
    """which: "full" or a single name"""
    chk = CONSTRUCT[how](ALL_NAMES if which == "full" else [which])
    if chk is None:
        return None
    t = Target()
    t.label, t.chk, t.name = "FormatChecker built from %s of %s" % (how, which), chk, name
    t.fam = family_of(name)
    t.oracle = ORACLE.get(t.fam)
    t.rep = False
    return t


def reference_target(name):
    return next(t for t in TARGETS if t.label == "FormatChecker()" and t.name == name)


def judge_constructed(t, s):
    """Like judge(); for the oracle-less families the reference is the stock FormatChecker() object."""
    oc, kind = judge(t, s)
    ref_oc, ref_kind = judge(reference_target(t.name), s)
    if kind is None and oc != ref_oc:
        kind = "differs-from-FormatChecker()"
    return oc, kind, ref_kind


def run_construct(how):
    ev = nt = nviol = 0
    outcomes, viol, seen = {}, [], {}
    for which in ["full"] + ALL_NAMES:
        names = ALL_NAMES if which == "full" else [which]
        for name in names:
            t = constructed_target(how, which, name)       # a fresh object per (set of names, name)
            if t is None:
                continue
            for s in construct_strings(space_family(t.fam)):
                ev += 1
                nt += 1
                oc, kind, ref_kind = judge_constructed(t, s)
                key = "%s:constructed:%s" % (t.fam, oc)
                outcomes[key] = outcomes.get(key, 0) + 1
                if kind is None:
                    continue
                nviol += 1
                if kind == ref_kind:        # the stock object fails in the same way: nothing particular to the construction
                    sig = signature(t, s, kind)
                else:
                    sig = "C13|constructed-checker|%s|formats-as-%s" % (kind, how)
                n = seen.get(sig, 0)
                seen[sig] = n + 1
                if n < 2:
                    c, b = observe(t, s)
                    viol.append({"signature": sig, "size": len(s) + (0 if which != "full" else 100),
                                 "case": {"constructed": how, "names": which, "format": name, "string": s, "kind": kind},
                                 "detail": {"check": c, "conforms": b if isinstance(b, (bool, str)) else repr(b),
                                            "oracle": None if t.oracle is None else t.oracle(s),
                                            "names_the_object_knows": sorted(t.chk.checkers),
                                            "names_it_was_given": list(names)}})
    return {"evaluations": ev, "nontrivial": nt, "violations": viol, "samples": [], "outcomes": outcomes,
            "counters": {"constructed_checker_observations": ev, "violating_observations": nviol}}


# ----------------------------------------------------------------------------
# several checker objects, interleaved (executed in the nursery)
# ----------------------------------------------------------------------------

IL_NAMES = sorted({t.name for t in TARGETS})


def direct(func, raises, s):
    """What a registration (function, raises) says about s, by calling the function."""
    try:
        r = func(s)
    except raises:
        return False
    return bool(r)


def il_truth(name, s):
    """Is s in the language of the stock format `name`?  The grammar oracle where there is one."""
    t = next(t for t in TARGETS if t.name == name)
    if t.oracle is not None and t.oracle(s) is not None:
        return t.oracle(s)
    func, raises = t.chk.checkers[name]
    return direct(func, raises, s)


def il_strings(name):
    """[a conforming seed, a non-conforming seed] of the name's family."""
    seeds = seeds_of(space_family(family_of(name)))
    seeds = [s for s in seeds if not s.startswith("0000-")]        # not the open year-0000 finding
    yes = [s for s in seeds if il_truth(name, s)]
    no = [s for s in seeds if not il_truth(name, s)]
    return [yes[0] if yes else seeds[0], no[0] if no else seeds[-1]]


def il_objects(name, nstock):
    stock = [t.label for t in TARGETS if t.name == name]
    if nstock and len(stock) > nstock:
        stock = stock[:nstock - 1] + stock[-1:]
    return ["lax", "strict"] + stock


class Interleaved(object):
    def __init__(self, name, nstock):
        self.name, self.strings = name, il_strings(name)
        self.targets = {}
        for label in il_objects(name, nstock):
            t = Target()
            t.label, t.name, t.fam, t.rep = label, name, family_of(name), False
            if label in ("lax", "strict"):
                t.chk = FormatChecker(formats=())
                t.chk.checks(name)((lambda x: True) if label == "lax" else (lambda x: False))
                t.oracle = (lambda s: True) if label == "lax" else (lambda s: False)
            else:
                t.chk = next(u.chk for u in TARGETS if u.label == label and u.name == name)
                t.oracle = lambda s, name=name: il_truth(name, s)
            self.targets[label] = t

    def apply(self, op):
        t, s = self.targets[op[0]], self.strings[op[1]]
        oc, kind = judge(t, s)
        who = op[0] if op[0] in ("lax", "strict") else "stock"
        bad = None
        if kind is not None:
            # the family is in the case, not in the signature: state shared between objects hits every family alike
            bad = ["after-other-checkers|%s|%s" % (who, kind),
                   {"object": op[0], "format": self.name, "string": s, "own_function_or_grammar_says": t.oracle(s),
                    "observed": oc}]
        return ["%s:interleave:%s:%s" % (t.fam, who, oc), oc, bad]


def run_interleaved(name, nstock, ops):
    return isolated.run_steps(lambda: Interleaved(name, nstock), ops, "after-other-checkers")


def nursery_interleave(arg):
    name, nstock, depth = arg["name"], arg["nstock"], arg["depth"]
    ops = [[label, i] for label in il_objects(name, nstock) for i in (0, 1)]
    leaves = [list(t) for t in itertools.product(ops, repeat=depth)]
    return isolated.explore(leaves, lambda h: run_interleaved(name, nstock, h))


def run_interleave_unit(unit):
    _, name, nstock, depth = unit
    res = isolated.run("mc.props.c13", "nursery_interleave", {"name": name, "nstock": nstock, "depth": depth})
    viol, seen = [], {}
    for v in sorted(res["violations"], key=lambda v: (len(v["ops"]), repr(v["ops"]))):
        sig = "C13|" + v["bad"][0]
        n = seen.get(sig, 0)
        seen[sig] = n + 1
        if n < 2:
            viol.append({"signature": sig, "size": len(v["ops"]),
                         "case": {"interleave": name, "stock_objects": nstock, "ops": v["ops"]}, "detail": v["bad"][1]})
    samples = [{"interleave": name, "objects": il_objects(name, nstock), "strings": il_strings(name),
                "leaves": res["leaves"]}] if name == IL_NAMES[0] else []
    return {"evaluations": res["histories"], "nontrivial": res["histories"], "violations": viol, "samples": samples,
            "outcomes": res["outcomes"],
            "counters": {"interleaved_histories": res["histories"], "leaf_histories_each_in_its_own_process": res["leaves"],
                         "violating_observations": sum(seen.values())}}


# ----------------------------------------------------------------------------
# protocol
# ----------------------------------------------------------------------------

CHUNK = 1500


def plan(ctx):
    assert F.selftest() > 0
    tier = ctx.tier
    prepare(tier)
    fams = sorted({space_family(t.fam) for t in TARGETS})
    units, bounds = [], {}
    for fam in fams:
        if short_params(fam, tier) is not None:
            atoms, n = short_params(fam, tier)
            p = prefix_len(fam, tier)
            units.append((fam, "short", None))
            for pre in itertools.product(range(len(atoms)), repeat=p):
                units.append((fam, "short", pre))
            bounds["short:" + fam] = {"atoms": atoms, "max_atoms": n, "strings": short_size(fam, tier)}
        for kind in ("grid", "edit1", "absurd"):
            lst = _P["lists"].get((fam, kind))
            if lst:
                for i in range(0, len(lst), CHUNK):
                    units.append((fam, kind, i))
                bounds[kind + ":" + fam] = len(lst)
        bounds["seeds:" + fam] = len(seeds_of(fam))
        if ctx.thorough:
            for b in range(E2_BUCKETS):
                units.append((fam, "edit2", b))
        units.append((fam, "strsub", 0))
    for how in HOWS:
        units.append(("construct", how))
    bounds["construct"] = {"constructions": HOWS, "name_sets": ["full"] + ALL_NAMES,
                           "strings_per_family": {f: len(construct_strings(f)) for f in fams}}
    il = [(0, 3), (2, 4)] if ctx.thorough else [(2, 3)]
    for name in IL_NAMES:
        for nstock, depth in il:
            units.append(("interleave", name, nstock, depth))
    bounds["interleave"] = {"names": IL_NAMES, "objects": {n: il_objects(n, il[0][0]) for n in IL_NAMES},
                            "strings": {n: il_strings(n) for n in IL_NAMES},
                            "(stock objects (0 = all), depth)": [list(x) for x in il],
                            "histories": sum(sum((2 * len(il_objects(n, k))) ** j for j in range(1, d + 1))
                                             for n in IL_NAMES for k, d in il)}
    bounds["wide_alphabet"] = WIDE
    bounds["double_edit_alphabet"] = NARROW if ctx.thorough else None
    bounds["targets"] = ["%s/%s%s" % (t.label, t.name, "*" if t.rep else "") for t in TARGETS]
    bounds["tier"] = tier
    return {
        "units": units,
        "rule": ("case = one string of one family's space; spaces per family: every string of <= n atoms over the "
                 "family alphabet (uniquely decodable atoms, so distinct atom sequences are distinct strings), the date "
                 "grid/ISO-8601 spellings, every single edit over the wide alphabet of each seed, and (thorough) every "
                 "double edit over the narrow alphabet; the spaces are made disjoint in that order by set membership "
                 "(edit2 by a stable hash bucket), so cases are distinct by construction.  Each string is observed "
                 "(check + conforms) on every (checker object, name) of its own family and on one representative of "
                 "every other distinct registered (function, raises) entry (marked * in bounds.targets); evaluations "
                 "counts these observations.  Non-trivial = the string is in the family's language (oracle; "
                 "implementation verdict for the oracle-less families) or is a seed/edit of a seed, i.e. a member or "
                 "a near miss.  construct: case = (construction, set of names, name, string of the "
                 "reduced space); every object is built freshly for its (construction, set, name).  strsub: every seed once more as a str-subclass instance.  interleave: per "
                 "registered name every operation sequence of the stated depth over (checker object, conforming / "
                 "non-conforming string), each leaf in its own forked child of a fresh interpreter, every step "
                 "judged; evaluations counts every distinct prefix once"),
        "bounds": bounds,
        "assumptions": ["recognisers in mc/ref/formats.py are the grammar (self-tested on the RFC 4291 / RFC 3339 examples)",
                        "regex: the oracle is re.compile of the same interpreter",
                        "idn-email: only 'no @ => reject' is claimed; time, idn-hostname and unknown names: never-raises half only",
                        "other-family formats see each string through one representative per distinct (function, raises) entry",
                        "interleave: a custom checker's language is what its registered function says; for the "
                        "oracle-less families the stock language is what the registered function says when called directly"],
    }


def strings_of(unit, tier):
    fam, kind, arg = unit
    if kind == "short":
        return iter_short(fam, tier, arg)
    if kind == "edit2":
        return iter_edit2(fam, tier, arg)
    return _P["lists"][(fam, kind)][arg:arg + CHUNK]


def run_unit(unit, ctx):
    if unit[0] == "interleave":
        return run_interleave_unit(unit)
    if unit[0] == "construct":
        return run_construct(unit[1])
    if unit[1] == "strsub":
        return run_strsub(unit[0])
    prepare(ctx.tier)
    return run_strings(strings_of(unit, ctx.tier), unit[0], unit[1] in ("edit1", "edit2"))


def replay(case, ctx):
    if "interleave" in case:
        steps = run_interleaved(case["interleave"], case["stock_objects"], case["ops"])
        return {"reproduced": steps[-1][2] is not None, "steps": [[x[0], x[1]] for x in steps],
                "problem": None if steps[-1][2] is None else steps[-1][2][0]}
    if "constructed" in case:
        t = constructed_target(case["constructed"], case["names"], case["format"])
        if t is None:
            return {"reproduced": False, "detail": "no such construction"}
        oc, kind, ref_kind = judge_constructed(t, case["string"])
        return {"reproduced": kind == case["kind"], "outcome": oc, "problem": kind,
                "names_the_object_knows": sorted(t.chk.checkers)}
    if case.get("as") == "str-subclass":
        for t in TARGETS:
            if t.label == case["checker"] and t.name == case["format"]:
                oc, kind = judge(t, StrSub(case["string"]))
                plain = judge(t, case["string"])[0]
                if kind is None and oc != plain:
                    kind = "str-subclass-%s-but-str-%s" % (oc, plain)
                return {"reproduced": kind == case["kind"], "outcome": oc, "problem": kind, "plain_str_outcome": plain}
        return {"reproduced": False, "detail": "no such (checker, format) in this installation"}
    for t in TARGETS:
        if t.label == case["checker"] and t.name == case["format"]:
            oc, kind = judge(t, case["string"])
            c, b = observe(t, case["string"])
            return {"reproduced": kind == case["kind"], "outcome": oc, "problem": kind, "check": c,
                    "conforms": b if isinstance(b, (bool, str)) else repr(b),
                    "oracle": None if t.oracle is None else t.oracle(case["string"])}
    return {"reproduced": False, "detail": "no such (checker, format) in this installation"}
