"""C20 — the draft is chosen from $schema, consistently in validate(), CLI and helpers.

Two explorations, one oracle (a dict model of the documented selection rule):

* static: every `$schema` spelling x every body on which the drafts disagree
  (keywords; and bodies that declare their own URI with `id` / `$id` / both and
  refer to their own definitions through it, whose behaviour depends on the
  selected class's ID_OF) x discriminating instances x entry points
  {validator_for (with / without default=), jsonschema.validate (with / without
  cls=), cli.run (with / without --validator, with / without --base-uri)};
* histories (LEVEL model_checking): every sequence up to the depth bound over a
  menu of operations that are registrations -- every way a class can reach
  validates(): create(version=), extend(version=), validates() on a class made
  by create() / extend() whose META_SCHEMA was reassigned afterwards, on a
  Python subclass of a draft class with / without a META_SCHEMA of its own, on a
  hand-written class, on an already registered class; under a new id, an id that
  is already registered (registry size unchanged) or no id -- or *lookups*
  (validator_for over the whole table, validate() / the CLI over every id with
  and without '#', validator_for of one id), so that lookups happen before and
  between registrations.  Each history runs in its own forked child of a fresh
  interpreter (mc.explore.isolated: nothing was looked up or registered before
  its first operation), on the real global registries (snapshot / restore per
  history, restoration verified by identity of every entry); after the last
  operation -- every prefix is a history of its own -- the whole `$schema` table,
  the version-name table and what validate() and the CLI do behind each id
  (both spellings) are compared with the model; what a lookup operation answers
  is compared too.
"""
import io
import itertools
import json
import os
import re
import shutil
import tempfile
import traceback
import warnings

import jsonschema
from jsonschema import cli, exceptions, validators

from mc.core import harness
from mc.explore import isolated
from mc.ref import cli as climodel

ID = "C20"
LEVEL = "model_checking"

MARK = "<<{error.message}|{error.instance}>>"

DRAFTS = {3: jsonschema.Draft3Validator, 4: jsonschema.Draft4Validator,
          6: jsonschema.Draft6Validator, 7: jsonschema.Draft7Validator}
LATEST = jsonschema.Draft7Validator
# the metaschema ids as the four specifications publish them (not read from the implementation)
DRAFT_IDS = {d: "http://json-schema.org/draft-0%d/schema#" % d for d in DRAFTS}
ABSENT = "<absent>"


# ------------------------------------------------------------------ model ---
def norm(uri):
    """Documented equivalence: an empty fragment does not count; the scheme is
    case-insensitive (RFC 3986 §6.2.2.1).  Written without urllib."""
    if uri.endswith("#"):
        uri = uri[:-1]
    m = re.match(r"[A-Za-z][A-Za-z0-9+.\-]*(?=:)", uri)
    if m:
        uri = m.group(0).lower() + uri[m.end():]
    return uri


class Model(object):
    """names: version name -> class; ids: normalised metaschema id -> class (last registration wins)."""

    def __init__(self):
        self.names = {"draft%d" % d: c for d, c in DRAFTS.items()}
        self.ids = {norm(u): DRAFTS[d] for d, u in DRAFT_IDS.items()}
        self.ever = list(DRAFTS.values())       # every class ever registered (for describing a wrong answer)
        self.former = {}                        # normalised id -> classes that held it before the present one

    def register(self, version, cls, own_id):
        self.names[version] = cls
        self.ever.append(cls)
        if own_id:
            key = norm(own_id)
            if key in self.ids and self.ids[key] is not cls:
                self.former.setdefault(key, []).append(self.ids[key])
            self.ids[key] = cls

    def select(self, schema, default=LATEST):
        """-> (class, DeprecationWarning expected)"""
        if schema is True or schema is False or "$schema" not in schema:
            return default, False
        key = norm(schema["$schema"])
        if key in self.ids:
            return self.ids[key], False
        return LATEST, True


LABELS = {c: c.__name__ for c in DRAFTS.values()}


def role(c):
    """Coarse description of a class for signatures (never a step number or an address)."""
    try:
        if c in LABELS:
            return LABELS[c]
    except TypeError:
        pass
    return getattr(c, "_c20_role", None) or ("caller-default" if c is SENTINEL else "other-object")


def label(c):
    try:
        return LABELS.get(c) or getattr(c, "_c20_label", None) or repr(c)
    except TypeError:
        return repr(c)


# --------------------------------------------------------------- alphabet ---
def spellings(thorough):
    """[(spelling, kind)] — kind is the coarse class used in signatures."""
    out = [(ABSENT, "absent")]
    for d, u in sorted(DRAFT_IDS.items()):
        bare = u[:-1]
        out += [(u, "registered-id"), (bare, "registered-id-no-fragment"),
                ("HTTP" + u[4:], "upper-case-scheme"), ("HTTP" + bare[4:], "upper-case-scheme")]
        near = [bare + "/", bare + "#/", "https" + bare[4:] + "#", bare[:-6] + "SCHEMA#", bare + "#a"]
        if thorough:
            near += [bare + "##", bare + ".json", u + " ", bare[:-1], bare + "#/definitions",
                     bare.replace("draft-0", "draft-"), "Http" + u[4:].replace("/draft", "//draft")]
        out += [(s, "near-miss-of-registered-id") for s in near]
        # not URIs at all (RFC 3986 has no whitespace or control characters), hence unrecognised
        ws = [" " + u]
        if thorough:
            ws += ["\n" + u, "\t" + bare, u.replace("/schema", "/sch\tema"), u.replace("/schema", "/sch\nema"),
                   "\x00" + u]
        out += [(s, "id-with-whitespace-or-control-characters") for s in ws]
    out += [(s, "unknown-uri") for s in (
        "http://example.com/unknown-schema#", "http://json-schema.org/draft-05/schema#", "urn:c20:unknown",
        "http://json-schema.org/schema#")]
    if thorough:
        out += [(s, "unknown-uri") for s in (
            "http://json-schema.org/draft-08/schema#", "http://json-schema.org/draft/2019-09/schema",
            "file:///schema", "http://[::1]/schema", "draft7", "Draft7Validator")]
    out += [(s, "non-uri-string") for s in ("", "not a uri", "::", "#")]
    if thorough:
        out += [(s, "non-uri-string") for s in ("[", "]", "urn:[", "http://a/[", "\u00e9", "a b#", "%", "//")]
    out += [(s, "malformed-authority") for s in ("http://[", "http://]", "http://[::1", "//[", "http://[x]",
                                                 "http://a]b/")]
    if thorough:
        out += [(s, "malformed-authority") for s in ("HTTP://[", "x://[", "http://[/", "https://[::1/schema#",
                                                     "http://[v1.x/")]
    return out


INSTANCES_Q = [0, 1, 1.0, 3, "a", [1], ["a"], {}, {"a": 1}, {"a": "s"}, {"ab": 1}]
INSTANCES_T = INSTANCES_Q + [2, -1, 5, 1.5, None, True, [], [1, "a"], {"b": 1}, {"a": 1, "b": 2}, {"a": 1.0}]

STORE = {"http://idbase.test/item.json": {"type": "string"},
         "http://dollarbase.test/item.json": {"type": "integer"}}

# (label, body) — bodies on which at least two drafts disagree (verdict, error, or acceptance of the schema
# itself); for the few on which they do not (own-id:*:fragment-only) the measured non-trivial count says so
BODIES = [
    ("empty", {}),
    ("exclusiveMinimum-boolean", {"minimum": 0, "exclusiveMinimum": True}),
    ("exclusiveMinimum-number", {"exclusiveMinimum": 0}),
    ("integer-valued-float", {"type": "integer"}),
    ("const", {"const": 1}),
    ("contains", {"contains": {"type": "string"}}),
    ("if-then", {"if": {"type": "integer"}, "then": {"minimum": 5}}),
    ("boolean-subschema", {"properties": {"a": False}}),
    ("boolean-items", {"items": True, "additionalItems": False}),
    ("extends", {"extends": {"type": "integer"}}),
    ("disallow", {"disallow": "string"}),
    ("required-boolean", {"properties": {"a": {"required": True}}}),
    ("required-array", {"required": ["a"]}),
    ("dependencies-string", {"dependencies": {"a": "b"}}),
    ("propertyNames", {"propertyNames": {"maxLength": 1}}),
    ("divisibleBy", {"divisibleBy": 2}),
    ("multipleOf", {"multipleOf": 2}),
    ("type-any", {"type": "any"}),
    ("best-match", {"anyOf": [{"type": "string"}, {"properties": {"a": {"const": 1}}}], "minimum": 5}),
    ("id-vs-$id-store", {"id": "http://idbase.test/", "$id": "http://dollarbase.test/",
                         "properties": {"a": {"$ref": "item.json"}}}),
    ("id-vs-$id-file", None),       # built per workspace: file:// ids with real files
]
# Bodies whose behaviour depends on how the selected class reads a schema's own URI (its ID_OF): the root
# declares its URI with `id`, with `$id`, or with both (two different URIs), and a reference reaches one of the
# root's definitions through the `id` URI, through the `$id` URI, relative to the root's own URI, or by a bare
# fragment.  Built per workspace: the URIs are file:// URIs below the scratch directory, and under each of the
# two there IS a document whose definition differs from the root's (and from the other one's), so reading the
# wrong keyword -- or not storing the root under its own URI -- changes verdicts, not only errors.
OWN_ID_BODIES = [("own-id:%s:%s" % (keys, ref), None)
                 for keys, refs in (("id", ("through-id", "relative", "fragment-only")),
                                    ("$id", ("through-$id", "relative", "fragment-only")),
                                    ("both", ("through-id", "through-$id", "relative", "fragment-only")))
                 for ref in refs]
BODIES += OWN_ID_BODIES
BODY_INDEX = {l: i for i, (l, _) in enumerate(BODIES)}


def _tag(validator, value, instance, schema):
    yield exceptions.ValidationError("tag:%s" % getattr(type(validator), "_c20_label", "?"))


def merge_bodies(b1, b2):
    """Union of two bodies; on a keyword clash the first wins, except that `properties` are united."""
    b = dict(b1)
    for k, v in b2.items():
        if k == "properties" and k in b:
            b[k] = dict(v, **b[k])
        elif k not in b:
            b[k] = v
    return b


def make_tag_class(lbl, meta_schema=None, role="class-registered-in-history", **kw):
    c = validators.create(meta_schema=meta_schema or {}, validators={"tag": _tag}, **kw)
    c._c20_label = lbl
    c._c20_role = role
    return c


TAG = make_tag_class("explicit-unregistered-class", role="explicit-unregistered-class")      # create() without version registers nothing
EXPLICIT = [jsonschema.Draft3Validator, jsonschema.Draft4Validator, jsonschema.Draft6Validator,
            jsonschema.Draft7Validator, TAG]
PAIR_CHUNKS = 4
SENTINEL = type("SentinelDefault", (), {"__repr__": lambda s: "<sentinel default>"})()
CLI_VALIDATORS = [None, "Draft4Validator", "jsonschema.validators.Draft6Validator"]
CLI_CLASS = {"Draft4Validator": jsonschema.Draft4Validator,
             "jsonschema.validators.Draft6Validator": jsonschema.Draft6Validator}


# -------------------------------------------------------------- workspace ---
class Workspace(object):
    def __init__(self, instances):
        base = "/dev/shm" if os.path.isdir("/dev/shm") and os.access("/dev/shm", os.W_OK) else None
        self.dir = os.path.realpath(tempfile.mkdtemp(prefix="jsv-c20-", dir=base))
        for d, doc in (("idbase", {"type": "string"}), ("dollarbase", {"type": "integer"})):
            os.mkdir(os.path.join(self.dir, d))
            self.write(os.path.join(d, "item.json"), json.dumps(doc))
        for d, t in (("idroot", "string"), ("dollarroot", "array")):
            os.mkdir(os.path.join(self.dir, d))
            self.write(os.path.join(d, "s.json"), json.dumps({"definitions": {"int": {"type": t}}}))
        self.base_uri = "file://%s/idbase/" % self.dir       # what --base-uri is given
        self.instances = instances
        for i, x in enumerate(instances):
            self.write("x%02d.json" % i, json.dumps(x))
        self.nschema = 0

    def write(self, name, text):
        with open(os.path.join(self.dir, name), "w") as f:
            f.write(text)

    def body(self, lbl):
        b = BODIES[BODY_INDEX[lbl]][1]
        if b is None and lbl.startswith("own-id:"):
            _, keys, ref = lbl.split(":")
            b = self.own_id_body(keys, {"a": ref})
        elif b is None:
            b = {"id": "file://%s/idbase/" % self.dir, "$id": "file://%s/dollarbase/" % self.dir,
                 "properties": {"a": {"$ref": "item.json"}}}
        return b

    def own_id_body(self, keys, props):
        """props: property name -> how its $ref reaches the root's definition `int` (type integer)."""
        uri = {"id": "file://%s/idroot/s.json" % self.dir, "$id": "file://%s/dollarroot/s.json" % self.dir}
        ref = {"through-id": uri["id"] + "#/definitions/int", "through-$id": uri["$id"] + "#/definitions/int",
               "relative": "s.json#/definitions/int", "fragment-only": "#/definitions/int"}
        b = {k: uri[k] for k in (("id", "$id") if keys == "both" else (keys,))}
        b["definitions"] = {"int": {"type": "integer"}}
        b["properties"] = {name: {"$ref": ref[how]} for name, how in sorted(props.items())}
        return b

    def rehome(self, schema):
        """A recorded schema names a scratch directory that is gone: the same schema in this workspace."""
        text = json.dumps(schema)
        for old in sorted(set(re.findall(r"file://(/[^\"]*?/jsv-c20-[^/\"]+)/", text))):
            text = text.replace(old, self.dir)
        return json.loads(text)

    def close(self):
        shutil.rmtree(self.dir, ignore_errors=True)

    def __enter__(self):
        return self

    def __exit__(self, *a):
        self.close()


def build_schema(sp, body):
    if isinstance(body, bool):
        return body
    if sp == ABSENT:
        return dict(body)
    s = {"$schema": sp}
    s.update(body)
    return s


def kwargs_for(lbl, schema):
    if lbl == "id-vs-$id-store":
        return {"resolver": jsonschema.RefResolver("", schema, store=dict(STORE))}
    return {}


# ----------------------------------------------------------- observations ---
def ident(e):
    return (type(e).__name__, e.validator, e.message, tuple(e.path), tuple(e.schema_path),
            repr(e.validator_value), repr(e.instance),
            tuple(sorted((ident(c) for c in e.context), key=repr)))


def recorded(fn):
    """-> (result, all DeprecationWarnings?, schema-related DeprecationWarnings?)"""
    with warnings.catch_warnings(record=True) as ws:
        warnings.simplefilter("always")
        try:
            r = ("ok", fn())
        except Exception as e:
            r = ("raises", type(e).__name__, str(e)[:120])
    dep = [w for w in ws if issubclass(w.category, DeprecationWarning)]
    return r, bool(dep), any("schema" in str(w.message).lower() for w in dep)


def lib_outcome(cls, schema, x, kw):
    """What 'behaving exactly as the selected class does' means for module-level validate()."""
    try:
        cls.check_schema(schema)
    except exceptions.SchemaError as e:
        return ("SchemaError", ident(e))
    except Exception as e:
        return ("raises", type(e).__name__)
    try:
        err = exceptions.best_match(cls(schema, **kw).iter_errors(x))
    except Exception as e:
        return ("raises", type(e).__name__)
    return ("valid",) if err is None else ("ValidationError", ident(err))


def validate_outcome(schema, x, kw, cls=None):
    def call():
        if cls is None:
            jsonschema.validate(x, schema, **kw)
        else:
            jsonschema.validate(x, schema, cls=cls, **kw)
    with warnings.catch_warnings(record=True) as ws:
        warnings.simplefilter("always")
        try:
            call()
            r = ("valid",)
        except exceptions.SchemaError as e:
            r = ("SchemaError", ident(e))
        except exceptions.ValidationError as e:
            r = ("ValidationError", ident(e))
        except Exception as e:
            r = ("raises", type(e).__name__)
    dep = [w for w in ws if issubclass(w.category, DeprecationWarning)]
    return r, bool(dep), any("schema" in str(w.message).lower() for w in dep)


def selection_problem(obs, warned, schema_warned, exp_cls, exp_warn, model, schema, default):
    """obs from recorded(validator_for ...).  The problem names roles, not classes, so that one
    defect gives one signature whichever draft it is seen on."""
    if obs[0] == "raises":
        return "exception-" + obs[1]
    got = obs[1]
    if got is not exp_cls:
        if exp_warn:
            want = "latest-draft-as-fallback"
        elif schema is True or schema is False or "$schema" not in schema:
            want = "the-default"
        else:
            want = "the-class-registered-for-the-id"
        former = [] if want != "the-class-registered-for-the-id" else model.former.get(norm(schema["$schema"]), [])
        if default is not None and got is default:
            seen = "the-callers-default"
        elif any(got is c for c in former):
            seen = "a-class-formerly-registered-for-the-id"
        elif got is LATEST:
            seen = "the-latest-draft"
        elif any(got is c for c in model.ever):
            seen = "another-registered-class"
        else:
            seen = "an-unregistered-object"
        return "selected-%s-instead-of-%s" % (seen, want)
    if exp_warn and not warned:
        return "no-DeprecationWarning"
    if not exp_warn and schema_warned:
        return "unexpected-DeprecationWarning"
    return None


def check_selection(model, schema, plain_only=False):
    """validator_for with and without default=; -> list of (entry, problem, detail).
    A default= variant that shows the same problem as the plain call, or as the other default=
    variant, is dropped (it shrinks to it)."""
    probs = []
    seen = set()
    for entry, default in (("validator_for", None), ("validator_for-default", SENTINEL),
                           ("validator_for-default", jsonschema.Draft3Validator))[:1 if plain_only else 3]:
        if default is None:
            obs, w, sw = recorded(lambda: validators.validator_for(schema))
            exp_cls, exp_warn = model.select(schema)
        else:
            obs, w, sw = recorded(lambda: validators.validator_for(schema, default=default))
            exp_cls, exp_warn = model.select(schema, default)
        p = selection_problem(obs, w, sw, exp_cls, exp_warn, model, schema, default)
        if p is None or p in seen or (default is jsonschema.Draft3Validator and seen):
            continue        # a registered class as default= is ambiguous once anything else is wrong
        seen.add(p)
        probs.append((entry, p, {"expected_class": label(exp_cls), "expected_warning": exp_warn,
                                 "default": None if default is None else label(default),
                                 "observed": [obs[0], label(obs[1]) if obs[0] == "ok" else obs[1:]],
                                 "warned": w}))
    return probs


def check_validate(model, schema, lbl, x, explicit=None):
    """-> (problem or None, detail, outcome class)"""
    kw = kwargs_for(lbl, schema)
    if explicit is None:
        sel, exp_warn = model.select(schema)
    else:
        sel, exp_warn = explicit, None
    exp = lib_outcome(sel, schema, x, kwargs_for(lbl, schema))
    obs, warned, schema_warned = validate_outcome(schema, x, kw, explicit)
    prob = None
    if obs != exp:
        prob = "exception-" + obs[1] if obs[0] == "raises" else "behaves-unlike-the-selected-class"
    elif exp_warn is True and not warned:
        prob = "no-DeprecationWarning"
    elif exp_warn is False and schema_warned:
        prob = "unexpected-DeprecationWarning"
    return prob, {"selected": label(sel), "expected": exp, "observed": obs, "warned": warned}, exp[0]


def check_cli(model, ws, schema, lbl, vname, base_uri=False, only=None):
    """One run of cli.run over ALL instance files (or those numbered in `only`), without or with --base-uri;
    fold model with the class the CLI has to select."""
    ws.nschema += 1
    sname = "schema.json"
    ws.write(sname, json.dumps(schema))
    spath = os.path.join(ws.dir, sname)
    argv = []
    which = list(range(len(ws.instances))) if only is None else list(only)
    for i in which:
        argv += ["-i", os.path.join(ws.dir, "x%02d.json" % i)]
    argv += ["--error-format", MARK]
    if vname:
        argv += ["--validator", vname]
    if base_uri:
        argv += ["--base-uri", ws.base_uri]
    argv.append(spath)
    if vname:
        sel, exp_warn = CLI_CLASS[vname], None
    else:
        sel, exp_warn = model.select(schema)
    sdesc = {"token": sname, "state": "json", "value": schema}
    idesc = [{"token": "x%02d.json" % i, "state": "json", "value": ws.instances[i]} for i in which]
    exp = climodel.expect(jsonschema, sel, sdesc, idesc, base_uri=ws.base_uri if base_uri else None)
    so, se = io.StringIO(), io.StringIO()
    status = raised = None
    with warnings.catch_warnings(record=True) as wl:
        warnings.simplefilter("always")
        try:
            status = cli.run(cli.parse_args(argv), stdout=so, stderr=se, stdin=io.StringIO())
        except BaseException as e:
            if isinstance(e, KeyboardInterrupt):
                raise
            raised = type(e).__name__
    dep = [w for w in wl if issubclass(w.category, DeprecationWarning)]
    obs = {"status": status, "raised": raised, "stdout": so.getvalue(), "stderr": se.getvalue()}
    prob = climodel.compare(exp, obs, "plain", MARK, [sname] + [d["token"] for d in idesc])
    kind = prob[0] if prob else None
    if kind is None and exp_warn is True and not dep:
        kind = "no-DeprecationWarning"
    if kind is None and exp_warn is False and any("schema" in str(w.message).lower() for w in dep):
        kind = "unexpected-DeprecationWarning"
    return kind, {"selected": label(sel), "expected_fold": climodel.coarse(exp), "info": prob and prob[1],
                  "observed": {"status": status, "raised": raised, "stderr": se.getvalue()[:400]}}, climodel.coarse(exp)


# --------------------------------------------------------------- histories ---
# Every history runs in its own forked child of a fresh interpreter (mc.explore.isolated): it starts
# from exactly the state a process has after `import jsonschema` -- no `$schema` was ever looked up,
# nothing was registered -- so lookups are operations of the history like registrations are, and no
# history can reach another one.  A history is checked once, after its last operation; every prefix is
# a history of its own (replayed from the pristine state), so every step of every history is checked,
# without the check's own lookups standing between two operations.
D4ID, D7ID, D3ID, D6ID = DRAFT_IDS[4], DRAFT_IDS[7], DRAFT_IDS[3], DRAFT_IDS[6]
ID_OF_ID = lambda s: s.get("id", "") if isinstance(s, dict) else ""     # noqa: E731
ID_OF_DOLLAR = lambda s: s.get("$id", "") if isinstance(s, dict) else ""     # noqa: E731
IDKEY = {3: "id", 4: "id", 6: "$id", 7: "$id"}      # how each draft spells the id of its own metaschema
U = "http://c20.test/meta-%s"


def OP(name, kind, **p):
    return [name, kind, p]


# [name, kind, parameters] (JSON-able: a violation stores the operations themselves).  Registration kinds --
# the ways a class can reach validates():
#   validates          validates(version)(create(meta_schema={key: uri}, id_of matching key))   [own new id]
#   create             create(meta_schema={key: uri}, version=version)                          [own new id]
#   extend             extend(DraftN, validators={"tag": ...}, version=version)                 [DraftN's id: registry size unchanged]
#   reuse              validates(version)(DraftN)                                               [existing class, its id]
#   extend-reassign    E = extend(DraftN, ...); E.META_SCHEMA = copy of DraftN's with its own id; validates(version)(E)
#                      (the flow the extend() docstring describes)
#   extend-modify      E = extend(DraftN, ...); E.META_SCHEMA[id key] = own id (in place; create() copied it); validates(version)(E)
#   subclass-own-meta  @validates(version) class Sub(DraftN): META_SCHEMA = copy with its own id
#   subclass-own-idof  @validates(version) class Sub(DraftN): META_SCHEMA = {"id": uri}; ID_OF = staticmethod(<reads "id">)
#   subclass           @validates(version) class Sub(DraftN): (metaschema inherited)            [DraftN's id]
#   handwritten        validates(version)(class written by hand with META_SCHEMA / ID_OF / check_schema / iter_errors)
#   create-same-id     create(meta_schema=copy of DraftN's metaschema, ..., version=version)    [DraftN's id]
#   create-reassign    C = create(meta_schema={"$id": uri0}); C.META_SCHEMA = {"$id": uri}; validates(version)(C)
#                      [own id = uri; uri0 was never registered]
# Lookup kinds:
#   lookup-table       entry=validator_for: every spelling of the probe table (3 default= variants each)
#                      entry=validate / cli: every id of the id table in both spellings
#   lookup-one         validator_for({"$schema": uri}) once
REG_Q = [
    OP("validates a/$id", "validates", version="c20-a", key="$id", uri=U % "a#"),
    OP("validates b/id", "validates", version="c20-b", key="id", uri=U % "b"),
    OP("validates c/no-id", "validates", version="c20-c", key=None, uri=None),
    OP("create x", "create", version="c20 x", key="$id", uri="urn:c20:meta-x#"),
    OP("extend Draft4", "extend", version="c20 y4", base=4),
    OP("extend Draft7", "extend", version="c20 y7", base=7),
    OP("validates draft7 (existing name, new class, own id)", "validates", version="draft7", key="$id", uri=U % "r#"),
    OP("validates draft3 := Draft6Validator (existing name, existing class)", "reuse", version="draft3", base=6),
    OP("validates c20-back := Draft7Validator (new name, existing class)", "reuse", version="c20-back", base=7),
    OP("extend Draft7, META_SCHEMA := copy with own $id, validates", "extend-reassign", version="c20 house", base=7,
       uri=U % "h#"),
    OP("subclass of Draft4Validator with own META_SCHEMA, @validates", "subclass-own-meta", version="c20 legacy",
       base=4, uri=U % "l"),
    OP("subclass of Draft6Validator, @validates", "subclass", version="c20 sub6", base=6),
    OP("hand-written class with META_SCHEMA / ID_OF, validates", "handwritten", version="c20-w", key="$id", uri=U % "w#"),
    OP("create(copy of Draft7's metaschema, version=)", "create-same-id", version="c20 s7", base=7),
    OP("create p, META_SCHEMA := {$id: q}, validates", "create-reassign", version="c20 q", uri0=U % "p#", uri=U % "q#"),
]
LOOK_Q = [
    OP("validator_for on the whole table", "lookup-table", entry="validator_for"),
    OP("validate() on every id, both spellings", "lookup-table", entry="validate"),
    OP("CLI on every id, both spellings", "lookup-table", entry="cli"),
    OP("validator_for(draft-07 id as published)", "lookup-one", uri=D7ID),
    OP("validator_for(draft-07 id without '#')", "lookup-one", uri=D7ID[:-1]),
    OP("validator_for(meta-a#)", "lookup-one", uri=U % "a#"),
    OP("validator_for(meta-a)", "lookup-one", uri=U % "a"),
]
OPS_Q = REG_Q + LOOK_Q
REG_T = REG_Q + [
    OP("create x again with a's id", "create", version="c20 x", key="$id", uri=U % "a#"),
    OP("create z/upper-case-scheme id", "create", version="c20 z", key="$id", uri="HTTP://c20.test/meta-z"),
    OP("extend Draft3", "extend", version="c20 y3", base=3),
    OP("validates a again with another id", "validates", version="c20-a", key="$id", uri=U % "a2#"),
    OP("extend Draft4, META_SCHEMA := copy with own id, validates", "extend-reassign", version="c20 house4", base=4,
       uri=U % "h4"),
    OP("extend Draft6, META_SCHEMA[$id] = own id in place, validates", "extend-modify", version="c20 m6", base=6,
       uri=U % "m#"),
    OP("subclass of Draft7Validator with own META_SCHEMA, @validates", "subclass-own-meta", version="c20 legacy7",
       base=7, uri=U % "l7#"),
    OP("subclass of Draft7Validator with own META_SCHEMA and own ID_OF, @validates", "subclass-own-idof",
       version="c20 idof", base=7, uri=U % "i"),
    OP("hand-written class, id key", "handwritten", version="c20-w2", key="id", uri=U % "w2"),
    OP("create(copy of Draft4's metaschema, version=)", "create-same-id", version="c20 s4", base=4),
    OP("subclass of Draft7Validator, @validates", "subclass", version="c20 sub7", base=7),
]
LOOK_T = LOOK_Q + [
    OP("validator_for(draft-04 id as published)", "lookup-one", uri=D4ID),
    OP("validator_for(draft-04 id without '#')", "lookup-one", uri=D4ID[:-1]),
    OP("validator_for(an unknown URI)", "lookup-one", uri="http://example.com/unknown-schema#"),
]
OPS_T = REG_T + LOOK_T
# explored one level deeper than the whole menu of the tier --
# quick: the registrations that give a class a new id or re-use one (all of create / extend / validates /
# re-registration, the reassigned metaschema, the copied metaschema) and lookups through validator_for and validate()
Q3 = [0, 1, 2, 3, 4, 5, 6, 7, 8, 9, 13, 15, 16, 18, 21]
# thorough: the operations that re-use an id, one that adds an id, and lookups
CORE = [5, 8, 9, 13, 0, 15, 16, 18, 19, 20]
MENUS = {"Q": OPS_Q, "T": OPS_T, "Q3": [OPS_Q[i] for i in Q3], "CORE": [OPS_Q[i] for i in CORE]}
assert all(len(set(o[0] for o in ops)) == len(ops) for ops in MENUS.values())
NAMES = {m: set(o[0] for o in ops) for m, ops in MENUS.items()}
UNIT_HISTORIES = 90


def menu_plan(thorough):
    """[(menu, depth)]: every sequence of length 0..depth over the menu, except those an earlier entry covers."""
    return [("CORE", 4), ("Q", 3), ("T", 2)] if thorough else [("Q3", 3), ("Q", 2)]


def custom_uris(thorough):
    """Every id an operation of the tier's menu may register, or gives a class before it is registered."""
    return sorted({u for o in (OPS_T if thorough else OPS_Q) if not is_lookup(o)
                   for u in (o[2].get("uri"), o[2].get("uri0")) if u})


HIST_INSTANCES = [2, {"a": 1, "b": 1}]      # [0]: behind every id; [1]: the own-id references behind custom classes


def is_lookup(spec):
    return spec[1].startswith("lookup")


def own_id_of(spec):
    """The metaschema id the registered class has when validates() sees it (from what the operation built)."""
    kind, p = spec[1], spec[2]
    if kind in ("extend", "reuse", "subclass", "create-same-id"):
        return DRAFT_IDS[p["base"]]
    return p.get("uri")


def role_of(spec):
    kind, p = spec[1], spec[2]
    b = p.get("base")
    return {"validates": "validates-class", "create": "create-class",
            "extend": "extension-of-Draft%sValidator" % b,
            "extend-reassign": "extension-of-Draft%sValidator-with-reassigned-metaschema" % b,
            "extend-modify": "extension-of-Draft%sValidator-with-modified-metaschema" % b,
            "subclass-own-meta": "subclass-of-Draft%sValidator-with-own-metaschema" % b,
            "subclass-own-idof": "subclass-of-Draft%sValidator-with-own-metaschema-and-ID_OF" % b,
            "subclass": "subclass-of-Draft%sValidator" % b,
            "handwritten": "hand-written-class",
            "create-same-id": "create-class-with-Draft%sValidator-metaschema" % b,
            "create-reassign": "create-class-with-reassigned-metaschema"}.get(kind)


def make_handwritten(key, uri):
    class HandWritten(object):
        """Nothing of create(): the attributes validates() documents plus what validate() / the CLI call."""
        META_SCHEMA = {key: uri}
        ID_OF = staticmethod(ID_OF_ID if key == "id" else ID_OF_DOLLAR)
        VALIDATORS = {"tag": _tag}
        TYPE_CHECKER = TAG.TYPE_CHECKER

        def __init__(self, schema, *args, **kwargs):
            self.schema = schema

        @classmethod
        def check_schema(cls, schema):
            pass

        def iter_errors(self, instance, _schema=None):
            yield exceptions.ValidationError("tag:%s" % getattr(type(self), "_c20_label", "?"))

        def is_valid(self, instance, _schema=None):
            return False

        def validate(self, *args, **kwargs):
            for e in self.iter_errors(*args, **kwargs):
                raise e
    return HandWritten


def apply_op(spec, lbl, model):
    """Run one registration on the real registries and mirror it in the model; -> the class."""
    name, kind, p = spec
    v = p["version"]
    if kind == "validates":
        meta = {} if p["key"] is None else {p["key"]: p["uri"]}
        kw = {"id_of": ID_OF_ID} if p["key"] == "id" else {}
        c = make_tag_class(lbl, meta, **kw)
        r = validators.validates(v)(c)
        if r is not c:
            raise AssertionError("validates() did not return the class")
    elif kind == "create":
        c = make_tag_class(lbl, {p["key"]: p["uri"]}, version=v)
    elif kind == "extend":
        c = validators.extend(DRAFTS[p["base"]], validators={"tag": _tag}, version=v)
    elif kind == "reuse":
        c = validators.validates(v)(DRAFTS[p["base"]])
    elif kind in ("extend-reassign", "extend-modify"):
        base = DRAFTS[p["base"]]
        c = validators.extend(base, validators={"tag": _tag})
        if kind == "extend-reassign":
            c.META_SCHEMA = dict(base.META_SCHEMA, **{IDKEY[p["base"]]: p["uri"]})
        else:
            c.META_SCHEMA[IDKEY[p["base"]]] = p["uri"]
        validators.validates(v)(c)
    elif kind in ("subclass-own-meta", "subclass-own-idof", "subclass"):
        base = DRAFTS[p["base"]]
        if kind == "subclass-own-meta":
            @validators.validates(v)
            class c(base):
                META_SCHEMA = dict(base.META_SCHEMA, **{IDKEY[p["base"]]: p["uri"]})
                VALIDATORS = dict(base.VALIDATORS, tag=_tag)
        elif kind == "subclass-own-idof":
            @validators.validates(v)
            class c(base):
                META_SCHEMA = {"id": p["uri"]}
                ID_OF = staticmethod(ID_OF_ID)
                VALIDATORS = dict(base.VALIDATORS, tag=_tag)
        else:
            @validators.validates(v)
            class c(base):
                VALIDATORS = dict(base.VALIDATORS, tag=_tag)
    elif kind == "handwritten":
        c = make_handwritten(p["key"], p["uri"])
        validators.validates(v)(c)
    elif kind == "create-same-id":
        base = DRAFTS[p["base"]]
        c = validators.create(meta_schema=dict(base.META_SCHEMA), validators=dict(base.VALIDATORS, tag=_tag),
                              version=v, type_checker=base.TYPE_CHECKER, id_of=base.ID_OF)
    elif kind == "create-reassign":
        c = make_tag_class(lbl, {"$id": p["uri0"]})
        c.META_SCHEMA = {"$id": p["uri"]}
        validators.validates(v)(c)
    else:
        raise ValueError(kind)
    if kind != "reuse":
        c._c20_label = lbl
        c._c20_role = role_of(spec)
    model.register(v, c, own_id_of(spec))
    return c


def snapshot():
    ms = validators.meta_schemas
    return dict(validators.validators), dict(getattr(ms, "store", ms))


def restore(snap):
    validators.validators.clear()
    validators.validators.update(snap[0])
    ms = validators.meta_schemas
    store = getattr(ms, "store", ms)
    store.clear()
    store.update(snap[1])


def same_registries(a, b):
    return all(set(x) == set(y) and all(x[k] is y[k] for k in x) for x, y in zip(a, b))


def variants_of(u):
    bare = u[:-1] if u.endswith("#") else u
    scheme, rest = bare.split(":", 1)
    other = scheme.lower() if scheme != scheme.lower() else scheme.upper()
    return [bare, bare + "#", other + ":" + rest, bare + "/", bare + "#x"]


def probe_table(thorough):
    """Every $schema spelling probed after each history."""
    sp = [s for s, _ in spellings(thorough)]
    for u in custom_uris(thorough):
        sp += variants_of(u)
    seen, out = set(), []
    for s in sp:
        if s not in seen:
            seen.add(s)
            out.append(s)
    return out


def id_table(thorough):
    """Every id a history may register (and the four drafts'), with and without the empty fragment."""
    out = []
    for u in [DRAFT_IDS[d] for d in sorted(DRAFT_IDS)] + custom_uris(thorough):
        for s in variants_of(u)[:2]:
            if s not in out:
                out.append(s)
    return out


def malformed(sp):
    return sp != ABSENT and re.search(r"//[^/?#]*[\[\]]", sp) is not None


def behaviour_schema(sp):
    return {"$schema": sp, "tag": 1, "const": 1}


def probe_selection(model, table, plain_only=False):
    probs, broken = [], set()
    for sp in table:
        if malformed(sp):
            continue        # reported once by the static part (selection raises); not a registry matter
        for entry, p, detail in check_selection(model, build_schema(sp, {}), plain_only):
            probs.append((entry, p, dict(detail, spelling=sp)))
            if entry == "validator_for":
                broken.add(norm(sp) if sp != ABSENT else sp)
    return probs, broken


def probe_validate(model, ids, broken=()):
    probs = []
    for sp in ids:
        if norm(sp) in broken:
            continue        # validate() cannot be judged apart from a selection that is already wrong
        prob, detail, _ = check_validate(model, behaviour_schema(sp), "tag", 2)
        if prob:
            probs.append(("validate", prob, dict(detail, spelling=sp)))
    return probs


def probe_cli(model, ids, ws, broken=()):
    probs = []
    for sp in ids:
        if norm(sp) in broken:
            continue
        kind, detail, _ = check_cli(model, ws, behaviour_schema(sp), "tag", None, only=[0])
        if kind:
            probs.append(("cli", kind, dict(detail, spelling=sp)))
    return probs


def probe_own_id_refs(model, ids, ws, broken=()):
    """Behind a registered class that is not one of the four stock ones: a schema that declares its own URI
    with `id` AND (another one) with `$id`, one property referring to its definition through the first URI
    and one through the second.  Which of the two stays inside the document is decided by the class's ID_OF;
    validate() and the command line (without / with --base-uri) have to do what the class does."""
    probs = []
    for sp in ids:
        if norm(sp) in broken:
            continue
        schema = build_schema(sp, ws.own_id_body("both", {"a": "through-id", "b": "through-$id"}))
        prob, detail, _ = check_validate(model, schema, "own-id", ws.instances[1])
        if prob:
            probs.append(("validate-own-id-refs", prob, dict(detail, spelling=sp)))
        for base in (False, True):
            kind, detail, _ = check_cli(model, ws, schema, "own-id", None, base, only=[1])
            if kind:
                probs.append(("cli%s-own-id-refs" % ("-base-uri" if base else ""), kind, dict(detail, spelling=sp)))
                break
    return probs


def probe_state(model, table, ids, ws):
    """-> list of (what, problem, detail) comparing the live registries with the model: the whole `$schema`
    table through validator_for (with / without default=), the version-name table, and validate() and the
    command line behind every id the model holds, in both spellings (`ids`, every id any operation may ever
    register, is what the lookup operations go through)."""
    probs, broken = probe_selection(model, table)
    live = validators.validators
    if set(live) != set(model.names) or any(live[k] is not model.names[k] for k in model.names if k in live):
        probs.append(("version-names", "names-table-differs",
                      {"observed": {k: label(v) for k, v in live.items()},
                       "expected": {k: label(v) for k, v in model.names.items()}}))
    held = [s for key in sorted(model.ids) for s in (key, key + "#")]
    probs += probe_validate(model, held, broken)
    probs += probe_cli(model, held, ws, broken)
    stock = list(DRAFTS.values())
    custom = [s for key in sorted(model.ids) if not any(model.ids[key] is c for c in stock) for s in (key, key + "#")]
    probs += probe_own_id_refs(model, custom, ws, broken)
    return probs


def do_lookup(spec, model, table, ids, ws):
    """A lookup as an operation of the history: what it answers is compared with the model as well."""
    kind, p = spec[1], spec[2]
    if kind == "lookup-one":
        return [(e, q, dict(d, spelling=p["uri"])) for e, q, d in check_selection(model, {"$schema": p["uri"]}, True)]
    if p["entry"] == "validator_for":
        return probe_selection(model, table)[0]
    if p["entry"] == "validate":
        return probe_validate(model, ids)
    return probe_cli(model, ids, ws)


def canon(model):
    """Canonical registry state: the key sets and, for each value, its role plus which keys share one
    object (classes are numbered per role in order of first appearance; no step numbers, no addresses)."""
    tags, per_role = {}, {}

    def tag(c):
        if id(c) not in tags:
            r = role(c)
            tags[id(c)] = "%s#%d" % (r, per_role.get(r, 0))
            per_role[r] = per_role.get(r, 0) + 1
        return tags[id(c)]
    return (tuple((k, tag(v)) for k, v in sorted(model.names.items())),
            tuple((k, tag(v)) for k, v in sorted(model.ids.items())))


class Placeholder(object):
    def __init__(self, r):
        self._c20_role = r


def model_only(specs):
    """The same history applied to the model alone (no library call): used to number the states."""
    m = Model()
    for spec in specs:
        if is_lookup(spec):
            continue
        c = DRAFTS[spec[2]["base"]] if spec[1] == "reuse" else Placeholder(role_of(spec))
        m.register(spec[2]["version"], c, own_id_of(spec))
    return m


HISTORIES = {}          # (thorough, plan entry) -> its histories
FIRST_HISTORY = {}      # canonical state -> (plan entry, first history reaching it); built by plan()


def menu_histories(mplan, k):
    """Histories (tuples of operation indexes into the k-th menu) that the k-th entry of the plan contributes."""
    menu, depth = mplan[k]
    ops = MENUS[menu]
    out = []
    for n in range(0, depth + 1):
        for h in itertools.product(range(len(ops)), repeat=n):
            if any(n <= d and all(ops[j][0] in NAMES[m] for j in h) for m, d in mplan[:k]):
                continue        # the same sequence of operations is a history of an earlier entry
            out.append(h)
    return out


def cached_histories(thorough, k):
    if (thorough, k) not in HISTORIES:
        HISTORIES[(thorough, k)] = menu_histories(menu_plan(thorough), k)
    return HISTORIES[(thorough, k)]


def number_states(mplan, thorough):
    FIRST_HISTORY.clear()
    total = 0
    for k, (menu, depth) in enumerate(mplan):
        ops = MENUS[menu]
        for h in cached_histories(thorough, k):
            total += 1
            if h and is_lookup(ops[h[-1]]):
                continue        # a lookup does not move the model: the state was numbered by the prefix
            FIRST_HISTORY.setdefault(canon(model_only([ops[j] for j in h])), (k, h))
    return total, len(FIRST_HISTORY)


def inside_package(e):
    pkg = os.path.dirname(os.path.realpath(jsonschema.__file__)) + os.sep
    return any(os.path.realpath(fr.filename).startswith(pkg) for fr in traceback.extract_tb(e.__traceback__))


def run_history(specs, table, ids, ws, pristine=None):
    """Execute one history on the live registries (in a pristine child) -> JSON-able record.
    pristine: the plain validator_for problems of the untouched registries (from the empty history), with
    which the answers after the restoration are compared (the empty history compares with its own probe)."""
    snap = snapshot()
    model = Model()
    probs = []
    try:
        try:
            for step, spec in enumerate(specs):
                if is_lookup(spec):
                    probs += do_lookup(spec, model, table, ids, ws)
                else:
                    apply_op(spec, "step%d:%s" % (step, spec[0]), model)
            probs += probe_state(model, table, ids, ws)
        except Exception as e:
            if not inside_package(e):
                raise
            probs.append(("operation", "exception-%s-escaped" % type(e).__name__,
                          {"exception": "%s: %s" % (type(e).__name__, str(e)[:200]),
                           "frames": ["%s:%d %s" % (os.path.basename(fr.filename), fr.lineno, fr.name)
                                      for fr in traceback.extract_tb(e.__traceback__)[-5:]]}))
        cs = canon(model)
        takeover = any(model.ids[norm(u)] is not DRAFTS[d] for d, u in DRAFT_IDS.items())
        # validate() and the command line are functions of the selection: where validator_for is wrong for an id
        # anywhere in this history, what they do behind that id is not reported on top (it shrinks to it)
        bad = set(norm(d["spelling"]) for w, _, d in probs if w == "validator_for" and d["spelling"] != ABSENT)
        probs = [x for x in probs if not (x[0].startswith(("validate", "cli")) and norm(x[2]["spelling"]) in bad)]
    finally:
        restore(snap)
    if not same_registries(snap, snapshot()):
        raise RuntimeError("registries not restored after the history %r" % ([s[0] for s in specs],))
    again = [[w, p, d["spelling"]] for w, p, d in probe_selection(Model(), table, True)[0]]
    if pristine is None and not specs:
        pristine = [[w, p, d["spelling"]] for w, p, d in probs if w == "validator_for"]
    return json.loads(harness.jdump({
        "problems": [[w, p, d] for w, p, d in probs], "canon": cs, "takeover": takeover,
        "plain_after_restore": again,
        "answers_differ_after_restore": pristine is not None and again != pristine,
        "probes": sum(1 for s in table if not malformed(s)) * 3 + 4 * len(model.ids)}))


def coarse_kind(spec):
    """For signatures: the way the class reached validates() (whichever draft it was derived from), or `lookup`."""
    return "lookup" if is_lookup(spec) else spec[1]


def hist_signature(specs, what, problem):
    kinds = "none" if not specs else "+".join(coarse_kind(s) for s in specs)
    return "C20|history|%s|%s|ops=%s" % (what, problem, kinds)


def is_subsequence(small, big):
    it = iter(big)
    return all(any(x == y for y in it) for x in small)


class Nursery(object):
    """Nursery side: every history in its own forked child; the first child is the empty history, whose
    problems (wrong before any registration: the static part / the empty history report them) are not
    reported again by the others."""

    def __init__(self, tier, ws, menu=()):
        self.menu = list(menu)
        self.canonical = {}
        self.thorough = tier == "thorough"
        self.tier = tier
        self.table = probe_table(self.thorough)
        self.ids = id_table(self.thorough)
        self.static_sp = set(s for s, _ in spellings(self.thorough))
        self.ws = ws
        self.base = isolated.fork_each([[]], lambda specs: run_history(specs, self.table, self.ids, ws))[0]
        self.before_keys = set((w, d.get("spelling")) for w, _, d in self.base["problems"])
        self.pristine = self.base["plain_after_restore"]
        self.runs = 1

    def run(self, histories):
        """histories: lists of operation specs -> records"""
        self.runs += len(histories)
        return isolated.fork_each(histories, lambda specs: run_history(specs, self.table, self.ids, self.ws, self.pristine))

    def relevant(self, specs, rec):
        out, done = [], set()
        for what, problem, detail in rec["problems"]:
            if specs and (what, detail.get("spelling")) in self.before_keys:
                continue        # wrong before any registration: reported by the empty history / static part
            if not specs and what.startswith("validator_for") and detail.get("spelling") in self.static_sp:
                continue        # the static part reports exactly this probe
            if (what, problem) in done:
                continue
            done.add((what, problem))
            out.append((what, problem, detail))
        return out

    def fails(self, specs, what, problem):
        rec = self.run([specs])[0]
        return any(w == what and p == problem for w, p, _ in self.relevant(specs, rec))

    def shrink(self, specs, what, problem):
        """Operations are deleted while the same problem shows; then each one is replaced by the first operation
        of the menu of its sort (registration / lookup) with which it still shows, so that one defect is described
        by few histories."""
        cur = list(specs)
        while True:
            changed = True
            while changed and len(cur) > 1:     # never to the empty history: pre-existing problems are filtered out before
                changed = False
                for i in range(len(cur)):
                    cand = cur[:i] + cur[i + 1:]
                    if self.fails(cand, what, problem):
                        cur, changed = cand, True
                        break
            key = json.dumps([what, problem, cur])
            if key in self.canonical:
                return self.canonical[key]
            start = list(cur)
            for i in range(len(cur)):
                for op in self.menu:
                    if op == cur[i]:
                        break
                    if is_lookup(op) == is_lookup(cur[i]) and self.fails(cur[:i] + [op] + cur[i + 1:], what, problem):
                        cur = cur[:i] + [op] + cur[i + 1:]
                        break
            self.canonical[key] = cur
            if cur == start:
                return cur

    def violations(self, histories, records):
        viol, shrunk = [], {}
        for specs, rec in zip(histories, records):
            for what, problem, detail in self.relevant(specs, rec):
                # a shrunk history that failed the same way and is contained in this one: this one shrinks to it
                small = next((s for s in shrunk.get((what, problem), []) if is_subsequence(s, specs)), None)
                if small is None:
                    small = self.shrink(specs, what, problem)
                    shrunk.setdefault((what, problem), []).append(small)
                viol.append({"signature": hist_signature(small, what, problem),
                             "case": {"entry": "history", "tier": self.tier, "ops": small,
                                      "what": what, "problem": problem},
                             "detail": dict(detail, unshrunk=[s[0] for s in specs]),
                             "size": len(small)})
        return viol


def nursery_histories(arg):
    """Runs in the fresh interpreter (mc.explore.isolated.run): arg = dict(tier, menu, histories=[[op index]])."""
    ops = MENUS[arg["menu"]]
    histories = [[ops[j] for j in h] for h in arg["histories"]]
    with Workspace(HIST_INSTANCES) as ws:
        n = Nursery(arg["tier"], ws, ops)
        records = n.run(histories)
        viol = n.violations(histories, records)
        return {"records": [{"canon": r["canon"], "takeover": r["takeover"], "probes": r["probes"],
                             "differ": r["answers_differ_after_restore"]} for r in records],
                "violations": viol, "children": n.runs}


def nursery_replay(arg):
    """arg = dict(tier, ops=[spec], what, problem)"""
    with Workspace(HIST_INSTANCES) as ws:
        n = Nursery(arg["tier"], ws)
        rec = n.run([arg["ops"]])[0]
        rel = n.relevant(arg["ops"], rec)
        hit = [(w, p, d) for w, p, d in rel if w == arg["what"] and p == arg["problem"]]
        return {"reproduced": bool(hit), "problems": [[w, p] for w, p, _ in rel][:10],
                "detail": hit[0][2] if hit else None}


# ------------------------------------------------------------------- plan ---
def plan(ctx):
    sps = spellings(ctx.thorough)
    mplan = menu_plan(ctx.thorough)
    units = []
    nb = len(BODIES)
    for i in range(len(sps)):
        units.append(("static", i))
    units.append(("boolean",))
    for i in range(len(sps)):
        if ctx.thorough or sps[i][1] in ("absent", "registered-id"):
            units.extend(("pairs", i, k) for k in range(PAIR_CHUNKS))
    per_menu = {}
    for k, (menu, depth) in enumerate(mplan):
        n = len(cached_histories(ctx.thorough, k))       # the first history of the first entry is the empty one
        per_menu["%s(%d operations, length<=%d)" % (menu, len(MENUS[menu]), depth)] = n
        units.extend(("hist", k, c) for c in range((n + UNIT_HISTORIES - 1) // UNIT_HISTORIES))
    nh, nstates = number_states(mplan, ctx.thorough)
    ops = OPS_T if ctx.thorough else OPS_Q
    nreg = sum(1 for o in ops if not is_lookup(o))
    X = INSTANCES_T if ctx.thorough else INSTANCES_Q
    return {
        "units": units,
        "rule": ("static: $schema spelling (each of the four published metaschema ids as is / without '#' / upper-case "
                 "scheme, near misses of each id, absent, unknown URIs, non-URI strings, malformed authorities) and the "
                 "two boolean schemas x bodies on which drafts disagree, among them %d whose behaviour depends on the "
                 "selected class's ID_OF (root URI declared with id / $id / both, a reference reaching a definition of "
                 "the root through the id URI / the $id URI / relative to the own URI / by fragment only; real "
                 "documents with other definitions lie under both URIs)%s x instances x entry points "
                 "{validator_for, validator_for(default=Draft3Validator / a sentinel), validate(), validate(cls=each of "
                 "4 drafts + an unregistered class), cli.run without and with --validator, each without and with "
                 "--base-uri}; cases are distinct "
                 "by construction (product of alphabets whose members are pairwise different). histories: every "
                 "sequence of operations over a menu of %d registrations (the ways a class reaches validates(): "
                 "create(version=), extend(version=), validates() on a create()d / an extend()ed class whose "
                 "META_SCHEMA was reassigned%s, on a Python subclass of a draft class with / without its own "
                 "META_SCHEMA, on a hand-written class, on an already registered class; each with a new id, an id "
                 "that is already registered, or none) and %d lookups (validator_for over the whole table, validate() "
                 "and the CLI over every id with / without '#', validator_for of single ids), %s; a sequence a deeper "
                 "entry contains is not run twice. Each history runs in its own forked child of a fresh interpreter "
                 "(nothing looked up, nothing registered before), on the real registries (snapshot, restore, "
                 "restoration verified by identity of every entry), and is checked after its last operation - every "
                 "prefix is a history of its own - with %d spellings x validator_for (3 default= variants) + the name "
                 "table + validate() and the CLI behind every id the model holds, with / without '#', + behind every "
                 "id held by a class other than the four stock ones a schema with both id and $id and references "
                 "through each (validate(), CLI without / with --base-uri); what a lookup "
                 "operation answers is checked too. Non-trivial = a case on which at least two draft classes behave "
                 "differently (measured: the four classes' outcomes for the body/instance are not all equal), or a "
                 "non-empty history" % (
                     len(OWN_ID_BODIES), " and all unordered pairs of bodies merged into one schema" + (
                         "" if ctx.thorough else " (pairs: only for an absent $schema and the four ids as published)"),
                     nreg, " / modified in place" if ctx.thorough else "", len(ops) - nreg,
                     "; ".join("length 0..%d over %s" % (d, "the whole menu" if len(MENUS[m]) == len(ops) else
                                                         "%d of them [%s]" % (len(MENUS[m]), " | ".join(
                                                             o[0] for o in MENUS[m])))
                               for m, d in mplan),
                     len(probe_table(ctx.thorough)))),
        "bounds": {"tier": ctx.tier, "spellings": len(sps), "bodies": nb, "instances": len(X),
                   "explicit_classes": len(EXPLICIT), "cli_validator_options": len(CLI_VALIDATORS),
                   "cli_base_uri_options": 2, "own_id_bodies": len(OWN_ID_BODIES),
                   "history_registration_operations": nreg, "history_lookup_operations": len(ops) - nreg,
                   "history_menus": per_menu, "histories": nh,
                   "distinct_canonical_registry_states_in_model": nstates,
                   "probe_spellings_per_history": len(probe_table(ctx.thorough)),
                   "ids_per_lookup_operation": len(id_table(ctx.thorough))},
        "assumptions": [
            "dict model of the documented rule: key = URI with one empty fragment removed and the scheme lower-cased; "
            "last registration under a key wins",
            "the spelling '<id>?' (empty query) and upper-case host names are kept out of the alphabet: the property "
            "does not decide them",
            "extend(DraftN, version=...) re-registers DraftN's metaschema id for the extension: modelled as "
            "'last registration wins' and counted (shared_id_takeover_histories), not judged",
            "a class's own metaschema id is ID_OF(META_SCHEMA) of the class at the moment validates() is applied to "
            "it (known from what the operation built, never asked of the implementation)",
            "what validator_for answers after the registries were put back to their snapshot is compared with the "
            "pristine answers and counted (answers_differ_after_restore), not judged: the property does not "
            "speak of un-registering",
            "only string values of $schema (the property speaks of URIs and non-URI strings)",
        ],
    }


# -------------------------------------------------------------------- run ---
def draft_disagreement(schema, lbl, x):
    outs = set()
    for c in DRAFTS.values():
        o = lib_outcome(c, schema, x, kwargs_for(lbl, schema))
        outs.add(repr(o))
    return len(outs) > 1


SHRINK_SPELLINGS = [(ABSENT, "any-spelling")] + [(DRAFT_IDS[d], "registered-id") for d in sorted(DRAFT_IDS)] + \
    [("http://example.com/unknown-schema#", "unknown-uri")]


def shrink_kind(sp, kind, fails):
    """Coarse spelling class for a signature: the first canonical spelling (absent, the four ids
    as published, one unknown URI) under which the same problem shows, else the spelling's own class."""
    for s2, k2 in SHRINK_SPELLINGS:
        if s2 == sp:
            return k2 if s2 == ABSENT else kind
        if fails(s2):
            return k2
    return kind


def static_cases(ws, model, sp, kind, bodies, X, res, kinds, first=True):
    """All entry points for one spelling over the given (label, body) list.
    first=False: the bare-spelling selection probe belongs to another unit (not counted, not reported again)."""
    # selection first: if it is already wrong, what depends on it cannot be compared
    sel_probs = check_selection(model, build_schema(sp, {}))
    if first:
        res["ev"] += 3
        res["traces"] += 3
    sel_broken = any(entry == "validator_for" for entry, _, _ in sel_probs)
    for entry, p, detail in (sel_probs if first else []):
        k2 = shrink_kind(sp, kind, lambda s2: any(
            (e, q) == (entry, p) for e, q, _ in check_selection(model, build_schema(s2, {}))))
        res["viol"].append({
            "signature": "C20|%s|%s" % (p, k2) if entry == "validator_for" else "C20|%s|%s|%s" % (entry, p, k2),
            "case": {"entry": entry, "schema": build_schema(sp, {}), "default": detail["default"]},
            "detail": detail, "size": len(sp)})
    oc = "select:%s" % kind
    if first:
        res["outcomes"][oc] = res["outcomes"].get(oc, 0) + 1
    if sel_broken:
        # validate() and the command line without an explicit class are functions of a selection
        # that is already reported: they shrink to it.  Explicit classes are still compared.
        res["counters"]["cases_skipped_because_selection_is_wrong"] = \
            res["counters"].get("cases_skipped_because_selection_is_wrong", 0) + len(bodies) * (len(X) + 1)
    shown_without_base = set()
    for lbl, body in bodies:
        if body is None:
            body = ws.body(lbl)
        schema = build_schema(sp, body)
        # validator_for on the full schema as well (the body must not matter)
        for entry, p, detail in ([] if sel_broken else check_selection(model, schema)):
            if any((e, q) == (entry, p) for e, q, _ in sel_probs):
                continue        # shows without the body already
            res["viol"].append({"signature": "C20|%s|%s|%s|only-with-a-body" % (entry, p, kind),
                                "case": {"entry": entry, "schema": schema, "default": detail["default"]},
                                "detail": detail, "size": len(json.dumps(schema))})
        res["ev"] += 3
        for x in X:
            nt = draft_disagreement(schema, lbl, x)
            res["nt"] += 1 if nt else 0
            for explicit in [None] + EXPLICIT:
                if explicit is None and sel_broken:
                    continue
                prob, detail, oclass = check_validate(model, schema, lbl, x, explicit)
                res["ev"] += 1
                res["traces"] += 1
                oc = "validate%s:%s" % ("" if explicit is None else "-cls", oclass)
                res["outcomes"][oc] = res["outcomes"].get(oc, 0) + 1
                if prob:
                    entry = "validate" if explicit is None else "validate-cls"
                    k2 = shrink_kind(sp, kind, lambda s2: check_validate(
                        model, build_schema(s2, body), lbl, x, explicit)[0] == prob)
                    res["viol"].append({"signature": "C20|%s|%s|%s" % (entry, prob, k2),
                                        "case": {"entry": entry, "schema": schema, "instance": x, "body": lbl,
                                                 "cls": None if explicit is None else label(explicit)},
                                        "detail": detail, "size": len(json.dumps(schema)) + len(json.dumps(x))})
        if lbl == "id-vs-$id-store":
            continue        # the command line cannot be handed a store; the file:// twin covers it
        for vname, base in itertools.product(CLI_VALIDATORS, (False, True)):
            if vname is None and sel_broken:
                continue
            kindp, detail, oclass = check_cli(model, ws, schema, lbl, vname, base)
            res["ev"] += 1
            res["traces"] += 1
            entry = ("cli" if vname is None else "cli-validator") + ("-base-uri" if base else "")
            oc = "%s:%s" % (entry, oclass[:40])
            res["outcomes"][oc] = res["outcomes"].get(oc, 0) + 1
            if kindp:
                if base and (lbl, vname, kindp) in shown_without_base:
                    continue        # shows without --base-uri already: shrinks to that case
                if not base:
                    shown_without_base.add((lbl, vname, kindp))
                k2 = shrink_kind(sp, kind, lambda s2: check_cli(
                    model, ws, build_schema(s2, body), lbl, vname, base)[0] == kindp)
                res["viol"].append({"signature": "C20|%s|%s|%s" % (entry, kindp, k2),
                                    "case": {"entry": entry, "schema": schema, "body": lbl, "validator": vname,
                                             "base_uri": base, "instances": ws.instances},
                                    "detail": detail, "size": len(json.dumps(schema)) + 50 + (5 if base else 0)})
        if len(res["samples"]) < 2 and lbl in ("const", "if-then"):
            res["samples"].append({"schema": schema, "instances": X[:4],
                                   "model_selects": label(model.select(schema)[0])})


def run_unit(unit, ctx):
    thorough = ctx.thorough
    sps = spellings(thorough)
    kinds = dict((s, k) for s, k in sps)
    X = INSTANCES_T if thorough else INSTANCES_Q
    res = {"ev": 0, "nt": 0, "traces": 0, "viol": [], "samples": [], "outcomes": {}, "counters": {}}
    states = transitions = 0
    if unit[0] in ("static", "pairs", "boolean"):
        model = Model()
        with Workspace(X) as ws:
            if unit[0] == "static":
                sp, kind = sps[unit[1]]
                static_cases(ws, model, sp, kind, BODIES, X, res, kinds)
            elif unit[0] == "pairs":
                sp, kind = sps[unit[1]]
                merged = []
                plain = [(l, b) for l, b in BODIES if b is not None and l not in ("empty", "id-vs-$id-store")]
                for (l1, b1), (l2, b2) in itertools.combinations(plain, 2):
                    merged.append((l1 + "+" + l2, merge_bodies(b1, b2)))
                static_cases(ws, model, sp, kind, merged[unit[2]::PAIR_CHUNKS], INSTANCES_Q, res, kinds, first=False)
            else:
                for schema in (True, False):
                    for entry, p, detail in check_selection(model, schema):
                        res["viol"].append({"signature": "C20|%s|%s|boolean-schema" % (entry, p),
                                            "case": {"entry": entry, "schema": schema, "default": detail["default"]},
                                            "detail": detail, "size": 1})
                    res["ev"] += 3
                    res["traces"] += 3
                    for x in X:
                        res["nt"] += 1 if draft_disagreement(schema, "bool", x) else 0
                        for explicit in [None] + EXPLICIT:
                            prob, detail, oclass = check_validate(model, schema, "bool", x, explicit)
                            res["ev"] += 1
                            res["traces"] += 1
                            oc = "validate-boolean:%s" % oclass
                            res["outcomes"][oc] = res["outcomes"].get(oc, 0) + 1
                            if prob:
                                entry = "validate" if explicit is None else "validate-cls"
                                res["viol"].append({"signature": "C20|%s|%s|boolean-schema" % (entry, prob),
                                                    "case": {"entry": entry, "schema": schema, "instance": x,
                                                             "body": "bool",
                                                             "cls": None if explicit is None else label(explicit)},
                                                    "detail": detail, "size": 2})
                    for vname, base in itertools.product(CLI_VALIDATORS, (False, True)):
                        kindp, detail, oclass = check_cli(model, ws, schema, "bool", vname, base)
                        res["ev"] += 1
                        res["traces"] += 1
                        if kindp:
                            entry = ("cli" if vname is None else "cli-validator") + ("-base-uri" if base else "")
                            res["viol"].append({"signature": "C20|%s|%s|boolean-schema" % (entry, kindp),
                                                "case": {"entry": entry, "schema": schema, "body": "bool",
                                                         "validator": vname, "base_uri": base,
                                                         "instances": ws.instances},
                                                "detail": detail, "size": 3 + (1 if base else 0)})
    else:
        _, k, chunk = unit
        mplan = menu_plan(thorough)
        menu = mplan[k][0]
        ops = MENUS[menu]
        hists = cached_histories(thorough, k)[chunk * UNIT_HISTORIES:(chunk + 1) * UNIT_HISTORIES]
        r = isolated.run("mc.props.c20", "nursery_histories",
                         {"tier": ctx.tier, "menu": menu, "histories": [list(h) for h in hists]})
        canon_seen = set()
        takeovers = differ = 0
        for hist, rec in zip(hists, r["records"]):
            cs = harness.as_tuples(rec["canon"])
            res["ev"] += 1
            res["nt"] += 1 if hist else 0
            res["traces"] += 1
            transitions += 1 if hist else 0     # the last operation of this history, checked in full
            if FIRST_HISTORY.get(cs) == (k, hist):     # each canonical state is counted by exactly one history
                canon_seen.add(cs)
            takeovers += 1 if rec["takeover"] else 0
            differ += 1 if rec["differ"] else 0
            oc = "history:%d-ops:%s" % (len(hist), "draft-id-taken-over" if rec["takeover"] else "draft-ids-kept")
            res["outcomes"][oc] = res["outcomes"].get(oc, 0) + 1
            if hist:
                oc = "history-ending-with:%s" % coarse_kind(ops[hist[-1]])
                res["outcomes"][oc] = res["outcomes"].get(oc, 0) + 1
            res["counters"]["probes"] = res["counters"].get("probes", 0) + rec["probes"]
            if len(res["samples"]) < 1 and len(hist) == mplan[k][1] and not is_lookup(ops[hist[-1]]) \
                    and is_lookup(ops[hist[-2]]):
                res["samples"].append({"history": [ops[j][0] for j in hist],
                                       "model_ids": {key: v for key, v in cs[1]}})
        res["viol"].extend(r["violations"])
        # every child has put the registries back and verified it (identity of every entry) before answering
        res["counters"]["restorations_verified"] = len(hists)
        res["counters"]["pristine_children"] = r["children"]
        res["counters"]["shared_id_takeover_histories"] = takeovers
        res["counters"]["answers_differ_after_restore"] = differ
        states = len(canon_seen)
    counters = dict(res["counters"])
    counters.update({"states": states, "transitions": transitions, "traces_validated_against_impl": res["traces"]})
    return {"evaluations": res["ev"], "nontrivial": res["nt"], "violations": res["viol"], "samples": res["samples"],
            "outcomes": res["outcomes"], "counters": counters}


def replay(case, ctx):
    model = Model()
    entry = case["entry"]
    if entry == "history":
        return isolated.run("mc.props.c20", "nursery_replay", {"tier": case.get("tier", "quick"), "ops": case["ops"],
                                                               "what": case["what"], "problem": case["problem"]})
    schema = case["schema"]
    if entry.startswith("validator_for"):
        probs = [p for p in check_selection(model, schema) if p[0] == entry]
        return {"reproduced": bool(probs), "problems": probs}
    if entry.startswith("validate"):
        explicit = None
        if case.get("cls"):
            explicit = [c for c in EXPLICIT if label(c) == case["cls"]][0]
        with Workspace([]) as ws:
            prob, detail, _ = check_validate(model, ws.rehome(schema), case["body"], case["instance"], explicit)
        return {"reproduced": prob is not None, "problem": prob, "detail": detail}
    if entry.startswith("cli"):
        with Workspace(case["instances"]) as ws:
            kindp, detail, _ = check_cli(model, ws, ws.rehome(schema), case["body"], case["validator"],
                                         case.get("base_uri", False))
        return {"reproduced": kindp is not None, "problem": kindp, "detail": detail}
    return {"reproduced": False, "error": "unknown entry"}
