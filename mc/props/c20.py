"""C20 — the draft is chosen from $schema, consistently in validate(), CLI and helpers.

Two explorations, one oracle (a dict model of the documented selection rule):

* static: every `$schema` spelling x every body on which the drafts disagree x
  discriminating instances x entry points {validator_for (with / without
  default=), jsonschema.validate (with / without cls=), cli.run (with / without
  --validator)};
* histories (LEVEL model_checking): every sequence of registrations up to the
  depth bound over a menu of validates() / create(version=) / extend(version=) /
  re-registration operations, executed on the real global registries
  (snapshot / restore per history, restoration verified by re-probing); after
  each history the whole `$schema` table, the version-name table and the
  behaviour behind each id are compared with the model.
"""
import io
import itertools
import json
import os
import re
import shutil
import tempfile
import warnings

import jsonschema
from jsonschema import cli, exceptions, validators

from mc.ref import cli as climodel

ID = "C20"
LEVEL = "model_checking"

MARK = "<<{error.message}|{error.instance}>>"

DRAFTS = {3: jsonschema.Draft3Validator, 4: jsonschema.Draft4Validator,
          6: jsonschema.Draft6Validator, 7: jsonschema.Draft7Validator}
LATEST = jsonschema.Draft7Validator
# the metaschema ids as the four specifications publish them (not read from the implementation)
DRAFT_IDS = {d: "http://json-schema.org/draft-0%d/schema#" % d for d in DRAFTS}
ABSENT = "<absent>"


# ------------------------------------------------------------------ model ---
def norm(uri):
    """Documented equivalence: an empty fragment does not count; the scheme is
    case-insensitive (RFC 3986 §6.2.2.1).  Written without urllib."""
    if uri.endswith("#"):
        uri = uri[:-1]
    m = re.match(r"[A-Za-z][A-Za-z0-9+.\-]*(?=:)", uri)
    if m:
        uri = m.group(0).lower() + uri[m.end():]
    return uri


class Model(object):
    """names: version name -> class; ids: normalised metaschema id -> class (last registration wins)."""

    def __init__(self):
        self.names = {"draft%d" % d: c for d, c in DRAFTS.items()}
        self.ids = {norm(u): DRAFTS[d] for d, u in DRAFT_IDS.items()}
        self.ever = list(DRAFTS.values())       # every class ever registered (for describing a wrong answer)

    def register(self, version, cls, own_id):
        self.names[version] = cls
        self.ever.append(cls)
        if own_id:
            self.ids[norm(own_id)] = cls

    def select(self, schema, default=LATEST):
        """-> (class, DeprecationWarning expected)"""
        if schema is True or schema is False or "$schema" not in schema:
            return default, False
        key = norm(schema["$schema"])
        if key in self.ids:
            return self.ids[key], False
        return LATEST, True


LABELS = {c: c.__name__ for c in DRAFTS.values()}


def role(c):
    """Coarse description of a class for signatures (never a step number or an address)."""
    try:
        if c in LABELS:
            return LABELS[c]
    except TypeError:
        pass
    return getattr(c, "_c20_role", None) or ("caller-default" if c is SENTINEL else "other-object")


def label(c):
    try:
        return LABELS.get(c) or getattr(c, "_c20_label", None) or repr(c)
    except TypeError:
        return repr(c)


# --------------------------------------------------------------- alphabet ---
def spellings(thorough):
    """[(spelling, kind)] — kind is the coarse class used in signatures."""
    out = [(ABSENT, "absent")]
    for d, u in sorted(DRAFT_IDS.items()):
        bare = u[:-1]
        out += [(u, "registered-id"), (bare, "registered-id-no-fragment"),
                ("HTTP" + u[4:], "upper-case-scheme"), ("HTTP" + bare[4:], "upper-case-scheme")]
        near = [bare + "/", bare + "#/", "https" + bare[4:] + "#", bare[:-6] + "SCHEMA#", bare + "#a"]
        if thorough:
            near += [bare + "##", bare + ".json", u + " ", bare[:-1], bare + "#/definitions",
                     bare.replace("draft-0", "draft-"), "Http" + u[4:].replace("/draft", "//draft")]
        out += [(s, "near-miss-of-registered-id") for s in near]
        # not URIs at all (RFC 3986 has no whitespace or control characters), hence unrecognised
        ws = [" " + u]
        if thorough:
            ws += ["\n" + u, "\t" + bare, u.replace("/schema", "/sch\tema"), u.replace("/schema", "/sch\nema"),
                   "\x00" + u]
        out += [(s, "id-with-whitespace-or-control-characters") for s in ws]
    out += [(s, "unknown-uri") for s in (
        "http://example.com/unknown-schema#", "http://json-schema.org/draft-05/schema#", "urn:c20:unknown",
        "http://json-schema.org/schema#")]
    if thorough:
        out += [(s, "unknown-uri") for s in (
            "http://json-schema.org/draft-08/schema#", "http://json-schema.org/draft/2019-09/schema",
            "file:///schema", "http://[::1]/schema", "draft7", "Draft7Validator")]
    out += [(s, "non-uri-string") for s in ("", "not a uri", "::", "#")]
    if thorough:
        out += [(s, "non-uri-string") for s in ("[", "]", "urn:[", "http://a/[", "\u00e9", "a b#", "%", "//")]
    out += [(s, "malformed-authority") for s in ("http://[", "http://]", "http://[::1", "//[", "http://[x]",
                                                 "http://a]b/")]
    if thorough:
        out += [(s, "malformed-authority") for s in ("HTTP://[", "x://[", "http://[/", "https://[::1/schema#",
                                                     "http://[v1.x/")]
    return out


INSTANCES_Q = [0, 1, 1.0, 3, "a", [1], ["a"], {}, {"a": 1}, {"a": "s"}, {"ab": 1}]
INSTANCES_T = INSTANCES_Q + [2, -1, 5, 1.5, None, True, [], [1, "a"], {"b": 1}, {"a": 1, "b": 2}, {"a": 1.0}]

STORE = {"http://idbase.test/item.json": {"type": "string"},
         "http://dollarbase.test/item.json": {"type": "integer"}}

# (label, body) — every body is one on which at least two drafts disagree
# (verdict, error, or acceptance of the schema itself)
BODIES = [
    ("empty", {}),
    ("exclusiveMinimum-boolean", {"minimum": 0, "exclusiveMinimum": True}),
    ("exclusiveMinimum-number", {"exclusiveMinimum": 0}),
    ("integer-valued-float", {"type": "integer"}),
    ("const", {"const": 1}),
    ("contains", {"contains": {"type": "string"}}),
    ("if-then", {"if": {"type": "integer"}, "then": {"minimum": 5}}),
    ("boolean-subschema", {"properties": {"a": False}}),
    ("boolean-items", {"items": True, "additionalItems": False}),
    ("extends", {"extends": {"type": "integer"}}),
    ("disallow", {"disallow": "string"}),
    ("required-boolean", {"properties": {"a": {"required": True}}}),
    ("required-array", {"required": ["a"]}),
    ("dependencies-string", {"dependencies": {"a": "b"}}),
    ("propertyNames", {"propertyNames": {"maxLength": 1}}),
    ("divisibleBy", {"divisibleBy": 2}),
    ("multipleOf", {"multipleOf": 2}),
    ("type-any", {"type": "any"}),
    ("best-match", {"anyOf": [{"type": "string"}, {"properties": {"a": {"const": 1}}}], "minimum": 5}),
    ("id-vs-$id-store", {"id": "http://idbase.test/", "$id": "http://dollarbase.test/",
                         "properties": {"a": {"$ref": "item.json"}}}),
    ("id-vs-$id-file", None),       # built per workspace: file:// ids with real files
]
BODY_INDEX = {l: i for i, (l, _) in enumerate(BODIES)}


def _tag(validator, value, instance, schema):
    yield exceptions.ValidationError("tag:%s" % getattr(type(validator), "_c20_label", "?"))


def merge_bodies(b1, b2):
    """Union of two bodies; on a keyword clash the first wins, except that `properties` are united."""
    b = dict(b1)
    for k, v in b2.items():
        if k == "properties" and k in b:
            b[k] = dict(v, **b[k])
        elif k not in b:
            b[k] = v
    return b


def make_tag_class(lbl, meta_schema=None, role="class-registered-in-history", **kw):
    c = validators.create(meta_schema=meta_schema or {}, validators={"tag": _tag}, **kw)
    c._c20_label = lbl
    c._c20_role = role
    return c


TAG = make_tag_class("explicit-unregistered-class", role="explicit-unregistered-class")      # create() without version registers nothing
EXPLICIT = [jsonschema.Draft3Validator, jsonschema.Draft4Validator, jsonschema.Draft6Validator,
            jsonschema.Draft7Validator, TAG]
PAIR_CHUNKS = 4
SENTINEL = type("SentinelDefault", (), {"__repr__": lambda s: "<sentinel default>"})()
CLI_VALIDATORS = [None, "Draft4Validator", "jsonschema.validators.Draft6Validator"]
CLI_CLASS = {"Draft4Validator": jsonschema.Draft4Validator,
             "jsonschema.validators.Draft6Validator": jsonschema.Draft6Validator}


# -------------------------------------------------------------- workspace ---
class Workspace(object):
    def __init__(self, instances):
        base = "/dev/shm" if os.path.isdir("/dev/shm") and os.access("/dev/shm", os.W_OK) else None
        self.dir = os.path.realpath(tempfile.mkdtemp(prefix="jsv-c20-", dir=base))
        for d, doc in (("idbase", {"type": "string"}), ("dollarbase", {"type": "integer"})):
            os.mkdir(os.path.join(self.dir, d))
            self.write(os.path.join(d, "item.json"), json.dumps(doc))
        self.instances = instances
        for i, x in enumerate(instances):
            self.write("x%02d.json" % i, json.dumps(x))
        self.nschema = 0

    def write(self, name, text):
        with open(os.path.join(self.dir, name), "w") as f:
            f.write(text)

    def body(self, lbl):
        b = BODIES[BODY_INDEX[lbl]][1]
        if b is None:
            b = {"id": "file://%s/idbase/" % self.dir, "$id": "file://%s/dollarbase/" % self.dir,
                 "properties": {"a": {"$ref": "item.json"}}}
        return b

    def close(self):
        shutil.rmtree(self.dir, ignore_errors=True)

    def __enter__(self):
        return self

    def __exit__(self, *a):
        self.close()


def build_schema(sp, body):
    if isinstance(body, bool):
        return body
    if sp == ABSENT:
        return dict(body)
    s = {"$schema": sp}
    s.update(body)
    return s


def kwargs_for(lbl, schema):
    if lbl == "id-vs-$id-store":
        return {"resolver": jsonschema.RefResolver("", schema, store=dict(STORE))}
    return {}


# ----------------------------------------------------------- observations ---
def ident(e):
    return (type(e).__name__, e.validator, e.message, tuple(e.path), tuple(e.schema_path),
            repr(e.validator_value), repr(e.instance),
            tuple(sorted((ident(c) for c in e.context), key=repr)))


def recorded(fn):
    """-> (result, all DeprecationWarnings?, schema-related DeprecationWarnings?)"""
    with warnings.catch_warnings(record=True) as ws:
        warnings.simplefilter("always")
        try:
            r = ("ok", fn())
        except Exception as e:
            r = ("raises", type(e).__name__, str(e)[:120])
    dep = [w for w in ws if issubclass(w.category, DeprecationWarning)]
    return r, bool(dep), any("schema" in str(w.message).lower() for w in dep)


def lib_outcome(cls, schema, x, kw):
    """What 'behaving exactly as the selected class does' means for module-level validate()."""
    try:
        cls.check_schema(schema)
    except exceptions.SchemaError as e:
        return ("SchemaError", ident(e))
    except Exception as e:
        return ("raises", type(e).__name__)
    try:
        err = exceptions.best_match(cls(schema, **kw).iter_errors(x))
    except Exception as e:
        return ("raises", type(e).__name__)
    return ("valid",) if err is None else ("ValidationError", ident(err))


def validate_outcome(schema, x, kw, cls=None):
    def call():
        if cls is None:
            jsonschema.validate(x, schema, **kw)
        else:
            jsonschema.validate(x, schema, cls=cls, **kw)
    with warnings.catch_warnings(record=True) as ws:
        warnings.simplefilter("always")
        try:
            call()
            r = ("valid",)
        except exceptions.SchemaError as e:
            r = ("SchemaError", ident(e))
        except exceptions.ValidationError as e:
            r = ("ValidationError", ident(e))
        except Exception as e:
            r = ("raises", type(e).__name__)
    dep = [w for w in ws if issubclass(w.category, DeprecationWarning)]
    return r, bool(dep), any("schema" in str(w.message).lower() for w in dep)


def selection_problem(obs, warned, schema_warned, exp_cls, exp_warn, model, schema, default):
    """obs from recorded(validator_for ...).  The problem names roles, not classes, so that one
    defect gives one signature whichever draft it is seen on."""
    if obs[0] == "raises":
        return "exception-" + obs[1]
    got = obs[1]
    if got is not exp_cls:
        if exp_warn:
            want = "latest-draft-as-fallback"
        elif schema is True or schema is False or "$schema" not in schema:
            want = "the-default"
        else:
            want = "the-class-registered-for-the-id"
        if default is not None and got is default:
            seen = "the-callers-default"
        elif got is LATEST:
            seen = "the-latest-draft"
        elif any(got is c for c in model.ever):
            seen = "another-registered-class"
        else:
            seen = "an-unregistered-object"
        return "selected-%s-instead-of-%s" % (seen, want)
    if exp_warn and not warned:
        return "no-DeprecationWarning"
    if not exp_warn and schema_warned:
        return "unexpected-DeprecationWarning"
    return None


def check_selection(model, schema):
    """validator_for with and without default=; -> list of (entry, problem, detail).
    A default= variant that shows the same problem as the plain call, or as the other default=
    variant, is dropped (it shrinks to it)."""
    probs = []
    seen = set()
    for entry, default in (("validator_for", None), ("validator_for-default", SENTINEL),
                           ("validator_for-default", jsonschema.Draft3Validator)):
        if default is None:
            obs, w, sw = recorded(lambda: validators.validator_for(schema))
            exp_cls, exp_warn = model.select(schema)
        else:
            obs, w, sw = recorded(lambda: validators.validator_for(schema, default=default))
            exp_cls, exp_warn = model.select(schema, default)
        p = selection_problem(obs, w, sw, exp_cls, exp_warn, model, schema, default)
        if p is None or p in seen or (default is jsonschema.Draft3Validator and seen):
            continue        # a registered class as default= is ambiguous once anything else is wrong
        seen.add(p)
        probs.append((entry, p, {"expected_class": label(exp_cls), "expected_warning": exp_warn,
                                 "default": None if default is None else label(default),
                                 "observed": [obs[0], label(obs[1]) if obs[0] == "ok" else obs[1:]],
                                 "warned": w}))
    return probs


def check_validate(model, schema, lbl, x, explicit=None):
    """-> (problem or None, detail, outcome class)"""
    kw = kwargs_for(lbl, schema)
    if explicit is None:
        sel, exp_warn = model.select(schema)
    else:
        sel, exp_warn = explicit, None
    exp = lib_outcome(sel, schema, x, kwargs_for(lbl, schema))
    obs, warned, schema_warned = validate_outcome(schema, x, kw, explicit)
    prob = None
    if obs != exp:
        prob = "exception-" + obs[1] if obs[0] == "raises" else "behaves-unlike-the-selected-class"
    elif exp_warn is True and not warned:
        prob = "no-DeprecationWarning"
    elif exp_warn is False and schema_warned:
        prob = "unexpected-DeprecationWarning"
    return prob, {"selected": label(sel), "expected": exp, "observed": obs, "warned": warned}, exp[0]


def check_cli(model, ws, schema, lbl, vname):
    """One run of cli.run over ALL instance files; fold model with the class the CLI has to select."""
    ws.nschema += 1
    sname = "schema.json"
    ws.write(sname, json.dumps(schema))
    spath = os.path.join(ws.dir, sname)
    argv = []
    for i in range(len(ws.instances)):
        argv += ["-i", os.path.join(ws.dir, "x%02d.json" % i)]
    argv += ["--error-format", MARK]
    if vname:
        argv += ["--validator", vname]
    argv.append(spath)
    if vname:
        sel, exp_warn = CLI_CLASS[vname], None
    else:
        sel, exp_warn = model.select(schema)
    sdesc = {"token": sname, "state": "json", "value": schema}
    idesc = [{"token": "x%02d.json" % i, "state": "json", "value": x} for i, x in enumerate(ws.instances)]
    exp = climodel.expect(jsonschema, sel, sdesc, idesc)
    so, se = io.StringIO(), io.StringIO()
    status = raised = None
    with warnings.catch_warnings(record=True) as wl:
        warnings.simplefilter("always")
        try:
            status = cli.run(cli.parse_args(argv), stdout=so, stderr=se, stdin=io.StringIO())
        except BaseException as e:
            if isinstance(e, KeyboardInterrupt):
                raise
            raised = type(e).__name__
    dep = [w for w in wl if issubclass(w.category, DeprecationWarning)]
    obs = {"status": status, "raised": raised, "stdout": so.getvalue(), "stderr": se.getvalue()}
    prob = climodel.compare(exp, obs, "plain", MARK, [sname] + [d["token"] for d in idesc])
    kind = prob[0] if prob else None
    if kind is None and exp_warn is True and not dep:
        kind = "no-DeprecationWarning"
    if kind is None and exp_warn is False and any("schema" in str(w.message).lower() for w in dep):
        kind = "unexpected-DeprecationWarning"
    return kind, {"selected": label(sel), "expected_fold": climodel.coarse(exp), "info": prob and prob[1],
                  "observed": {"status": status, "raised": raised, "stderr": se.getvalue()[:400]}}, climodel.coarse(exp)


# --------------------------------------------------------------- histories ---
D4ID, D7ID, D3ID, D6ID = DRAFT_IDS[4], DRAFT_IDS[7], DRAFT_IDS[3], DRAFT_IDS[6]
ID_OF_ID = lambda s: s.get("id", "") if isinstance(s, dict) else ""     # noqa: E731

# (name, kind, parameters).  kind:
#   validates : validators.validates(version)(fresh class from create(meta_schema={key: uri}, id_of matching key))
#   create    : validators.create(meta_schema={key: uri}, version=version)
#   extend    : validators.extend(DraftN, validators={"tag": ...}, version=version)   [shares DraftN's metaschema id]
#   reuse     : validators.validates(version)(an already registered class)
OPS_Q = [
    ("validates a/$id", "validates", dict(version="c20-a", key="$id", uri="http://c20.test/meta-a#")),
    ("validates b/id", "validates", dict(version="c20-b", key="id", uri="http://c20.test/meta-b")),
    ("validates c/no-id", "validates", dict(version="c20-c", key=None, uri=None)),
    ("create x", "create", dict(version="c20 x", key="$id", uri="http://c20.test/meta-x#")),
    ("extend Draft4", "extend", dict(version="c20 y4", base=4)),
    ("extend Draft7", "extend", dict(version="c20 y7", base=7)),
    ("validates draft7 (existing name, new class, own id)", "validates",
     dict(version="draft7", key="$id", uri="http://c20.test/meta-r#")),
    ("validates draft3 := Draft6Validator (existing name, existing class)", "reuse", dict(version="draft3", base=6)),
]
OPS_T = OPS_Q + [
    ("create x again with a's id", "create", dict(version="c20 x", key="$id", uri="http://c20.test/meta-a#")),
    ("create z/upper-case-scheme id", "create", dict(version="c20 z", key="$id", uri="HTTP://c20.test/meta-z")),
    ("extend Draft3", "extend", dict(version="c20 y3", base=3)),
    ("validates a again with another id", "validates", dict(version="c20-a", key="$id", uri="http://c20.test/meta-a2#")),
]
CUSTOM_URIS = sorted({o[2]["uri"] for o in OPS_T if o[2].get("uri")})


def apply_op(op, lbl, model):
    """Run the operation on the real registries and mirror it in the model; -> the class."""
    name, kind, p = op
    if kind == "validates":
        meta = {} if p["key"] is None else {p["key"]: p["uri"]}
        kw = {"id_of": ID_OF_ID} if p["key"] == "id" else {}
        c = make_tag_class(lbl, meta, role="validates-class", **kw)
        r = validators.validates(p["version"])(c)
        if r is not c:
            raise AssertionError("validates() did not return the class")
        own = p["uri"]
    elif kind == "create":
        c = make_tag_class(lbl, {p["key"]: p["uri"]}, role="create-class", version=p["version"])
        own = p["uri"]
    elif kind == "extend":
        c = validators.extend(DRAFTS[p["base"]], validators={"tag": _tag}, version=p["version"])
        c._c20_label = lbl
        c._c20_role = "extension-of-Draft%dValidator" % p["base"]
        own = DRAFT_IDS[p["base"]]
    else:
        c = validators.validates(p["version"])(DRAFTS[p["base"]])
        own = DRAFT_IDS[p["base"]]
    model.register(p["version"], c, own)
    return c


def snapshot():
    ms = validators.meta_schemas
    return dict(validators.validators), dict(getattr(ms, "store", ms))


def restore(snap):
    validators.validators.clear()
    validators.validators.update(snap[0])
    ms = validators.meta_schemas
    store = getattr(ms, "store", ms)
    store.clear()
    store.update(snap[1])


def probe_table(thorough):
    """Every $schema spelling probed after each history."""
    sp = [s for s, _ in spellings(thorough)]
    for u in CUSTOM_URIS:
        bare = u[:-1] if u.endswith("#") else u
        sp += [bare, bare + "#", ("HTTP" if bare.startswith("http") else "http") + bare[4:], bare + "/", bare + "#x"]
    seen, out = set(), []
    for s in sp:
        if s not in seen:
            seen.add(s)
            out.append(s)
    return out


def malformed(sp):
    return sp != ABSENT and re.search(r"//[^/?#]*[\[\]]", sp) is not None


def probe_state(model, table):
    """-> list of (what, problem, detail) comparing the live registries with the model."""
    probs = []
    broken = set()
    for sp in table:
        if malformed(sp):
            continue        # reported once by the static part (selection raises); not a registry matter
        schema = build_schema(sp, {})
        for entry, p, detail in check_selection(model, schema):
            probs.append((entry, p, dict(detail, spelling=sp)))
            if entry == "validator_for":
                broken.add(norm(sp) if sp != ABSENT else sp)
    live = validators.validators
    if set(live) != set(model.names) or any(live[k] is not model.names[k] for k in model.names if k in live):
        probs.append(("version-names", "names-table-differs",
                      {"observed": {k: label(v) for k, v in live.items()},
                       "expected": {k: label(v) for k, v in model.names.items()}}))
    # behaviour behind every id the model knows
    for key, c in sorted(model.ids.items()):
        if key in broken:
            continue        # validate() cannot be judged apart from a selection that is already wrong
        schema = {"$schema": key, "tag": 1, "const": 1}
        prob, detail, _ = check_validate(model, schema, "tag", 2)
        if prob:
            probs.append(("validate", prob, dict(detail, spelling=key)))
    return probs


def canon(model):
    """Canonical registry state: the key sets and, for each value, its role plus which keys share one
    object (classes are numbered per role in order of first appearance; no step numbers, no addresses)."""
    tags, per_role = {}, {}

    def tag(c):
        if id(c) not in tags:
            r = role(c)
            tags[id(c)] = "%s#%d" % (r, per_role.get(r, 0))
            per_role[r] = per_role.get(r, 0) + 1
        return tags[id(c)]
    return (tuple((k, tag(v)) for k, v in sorted(model.names.items())),
            tuple((k, tag(v)) for k, v in sorted(model.ids.items())))


class Placeholder(object):
    def __init__(self, r):
        self._c20_role = r


def model_only(ops, hist):
    """The same history applied to the model alone (no library call): used to number the states."""
    m = Model()
    for j in hist:
        _, kind, p = ops[j]
        if kind == "validates":
            m.register(p["version"], Placeholder("validates-class"), p["uri"])
        elif kind == "create":
            m.register(p["version"], Placeholder("create-class"), p["uri"])
        elif kind == "extend":
            m.register(p["version"], Placeholder("extension-of-Draft%dValidator" % p["base"]), DRAFT_IDS[p["base"]])
        else:
            m.register(p["version"], DRAFTS[p["base"]], DRAFT_IDS[p["base"]])
    return m


FIRST_HISTORY = {}      # canonical state -> first history (shortest, then lexicographic) reaching it; built by plan()


def number_states(ops, depth):
    FIRST_HISTORY.clear()
    for n in range(0, depth + 1):
        for hist in itertools.product(range(len(ops)), repeat=n):
            FIRST_HISTORY.setdefault(canon(model_only(ops, hist)), hist)
    return len(FIRST_HISTORY)


def run_history(ops, hist, table):
    """Execute one history on the live registries; -> (problems, canonical state, takeover?)"""
    snap = snapshot()
    model = Model()
    try:
        for step, j in enumerate(hist):
            apply_op(ops[j], "step%d:%s" % (step, ops[j][0]), model)
        probs = probe_state(model, table)
        cs = canon(model)
        takeover = any(model.ids[norm(u)] is not DRAFTS[d] for d, u in DRAFT_IDS.items())
    finally:
        restore(snap)
    return probs, cs, takeover


def hist_signature(ops, hist, what, problem):
    kinds = "none" if not hist else "+".join(ops[j][1] + ("-" + str(ops[j][2]["base"]) if "base" in ops[j][2] else "") for j in hist)
    return "C20|history|%s|%s|ops=%s" % (what, problem, kinds)


def shrink_history(ops, hist, table, what, problem):
    def fails(h):
        probs, _, _ = run_history(ops, h, table)
        return any(w == what and p == problem for w, p, _ in probs)
    cur = list(hist)
    changed = True
    while changed and len(cur) > 1:     # never to the empty history: pre-existing problems are filtered out before
        changed = False
        for i in range(len(cur)):
            cand = cur[:i] + cur[i + 1:]
            if fails(cand):
                cur, changed = cand, True
                break
    return cur


# ------------------------------------------------------------------- plan ---
def plan(ctx):
    sps = spellings(ctx.thorough)
    ops = OPS_T if ctx.thorough else OPS_Q
    depth = 4 if ctx.thorough else 3
    units = []
    nb = len(BODIES)
    for i in range(len(sps)):
        units.append(("static", i))
    units.append(("boolean",))
    for i in range(len(sps)):
        if ctx.thorough or sps[i][1] in ("absent", "registered-id"):
            units.extend(("pairs", i, k) for k in range(PAIR_CHUNKS))
    units.append(("hist", 0, ()))          # the empty history: the registries as imported
    for j in range(len(ops)):
        if ctx.thorough:
            for k in range(len(ops)):
                units.append(("hist", depth, (j, k)))
            units.append(("hist", 1, (j,)))
        else:
            units.append(("hist", depth, (j,)))
    nh = sum(len(ops) ** n for n in range(0, depth + 1))
    nstates = number_states(ops, depth)
    X = INSTANCES_T if ctx.thorough else INSTANCES_Q
    return {
        "units": units,
        "rule": ("static: $schema spelling (each of the four published metaschema ids as is / without '#' / upper-case "
                 "scheme, near misses of each id, absent, unknown URIs, non-URI strings, malformed authorities) and the "
                 "two boolean schemas x bodies on which drafts disagree%s x instances x entry points "
                 "{validator_for, validator_for(default=Draft3Validator / a sentinel), validate(), validate(cls=each of "
                 "4 drafts + an unregistered class), cli.run without and with --validator}; cases are distinct "
                 "by construction (product of alphabets whose members are pairwise different). histories: every "
                 "sequence of length 0..%d over %d registration operations, each executed from a fresh snapshot of "
                 "the real registries and probed with %d spellings + the name table + the behaviour behind every id; "
                 "histories are distinct sequences. Non-trivial = a case on which at least two draft classes behave "
                 "differently (measured: the four classes' outcomes for the body/instance are not all equal), or a "
                 "history (every one changes a registry)" % (
                     " and all unordered pairs of bodies merged into one schema" + (
                         "" if ctx.thorough else " (pairs: only for an absent $schema and the four ids as published)"),
                     depth, len(ops), len(probe_table(ctx.thorough)))),
        "bounds": {"tier": ctx.tier, "spellings": len(sps), "bodies": nb, "instances": len(X),
                   "explicit_classes": len(EXPLICIT), "cli_validator_options": len(CLI_VALIDATORS),
                   "history_operations": len(ops), "history_depth_unmerged": depth, "histories": nh,
                   "distinct_canonical_registry_states_in_model": nstates,
                   "probe_spellings_per_history": len(probe_table(ctx.thorough))},
        "assumptions": [
            "dict model of the documented rule: key = URI with one empty fragment removed and the scheme lower-cased; "
            "last registration under a key wins",
            "the spelling '<id>?' (empty query) and upper-case host names are kept out of the alphabet: the property "
            "does not decide them",
            "extend(DraftN, version=...) re-registers DraftN's metaschema id for the extension: modelled as "
            "'last registration wins' and counted (shared_id_takeover_histories), not judged",
            "only string values of $schema (the property speaks of URIs and non-URI strings)",
        ],
    }


# -------------------------------------------------------------------- run ---
def draft_disagreement(schema, lbl, x):
    outs = set()
    for c in DRAFTS.values():
        o = lib_outcome(c, schema, x, kwargs_for(lbl, schema))
        outs.add(repr(o))
    return len(outs) > 1


SHRINK_SPELLINGS = [(ABSENT, "any-spelling")] + [(DRAFT_IDS[d], "registered-id") for d in sorted(DRAFT_IDS)] + \
    [("http://example.com/unknown-schema#", "unknown-uri")]


def shrink_kind(sp, kind, fails):
    """Coarse spelling class for a signature: the first canonical spelling (absent, the four ids
    as published, one unknown URI) under which the same problem shows, else the spelling's own class."""
    for s2, k2 in SHRINK_SPELLINGS:
        if s2 == sp:
            return k2 if s2 == ABSENT else kind
        if fails(s2):
            return k2
    return kind


def static_cases(ws, model, sp, kind, bodies, X, res, kinds, first=True):
    """All entry points for one spelling over the given (label, body) list.
    first=False: the bare-spelling selection probe belongs to another unit (not counted, not reported again)."""
    # selection first: if it is already wrong, what depends on it cannot be compared
    sel_probs = check_selection(model, build_schema(sp, {}))
    if first:
        res["ev"] += 3
        res["traces"] += 3
    sel_broken = any(entry == "validator_for" for entry, _, _ in sel_probs)
    for entry, p, detail in (sel_probs if first else []):
        k2 = shrink_kind(sp, kind, lambda s2: any(
            (e, q) == (entry, p) for e, q, _ in check_selection(model, build_schema(s2, {}))))
        res["viol"].append({
            "signature": "C20|%s|%s" % (p, k2) if entry == "validator_for" else "C20|%s|%s|%s" % (entry, p, k2),
            "case": {"entry": entry, "schema": build_schema(sp, {}), "default": detail["default"]},
            "detail": detail, "size": len(sp)})
    oc = "select:%s" % kind
    if first:
        res["outcomes"][oc] = res["outcomes"].get(oc, 0) + 1
    if sel_broken:
        # validate() and the command line without an explicit class are functions of a selection
        # that is already reported: they shrink to it.  Explicit classes are still compared.
        res["counters"]["cases_skipped_because_selection_is_wrong"] = \
            res["counters"].get("cases_skipped_because_selection_is_wrong", 0) + len(bodies) * (len(X) + 1)
    for lbl, body in bodies:
        if body is None:
            body = ws.body(lbl)
        schema = build_schema(sp, body)
        # validator_for on the full schema as well (the body must not matter)
        for entry, p, detail in ([] if sel_broken else check_selection(model, schema)):
            if any((e, q) == (entry, p) for e, q, _ in sel_probs):
                continue        # shows without the body already
            res["viol"].append({"signature": "C20|%s|%s|%s|only-with-a-body" % (entry, p, kind),
                                "case": {"entry": entry, "schema": schema, "default": detail["default"]},
                                "detail": detail, "size": len(json.dumps(schema))})
        res["ev"] += 3
        for x in X:
            nt = draft_disagreement(schema, lbl, x)
            res["nt"] += 1 if nt else 0
            for explicit in [None] + EXPLICIT:
                if explicit is None and sel_broken:
                    continue
                prob, detail, oclass = check_validate(model, schema, lbl, x, explicit)
                res["ev"] += 1
                res["traces"] += 1
                oc = "validate%s:%s" % ("" if explicit is None else "-cls", oclass)
                res["outcomes"][oc] = res["outcomes"].get(oc, 0) + 1
                if prob:
                    entry = "validate" if explicit is None else "validate-cls"
                    k2 = shrink_kind(sp, kind, lambda s2: check_validate(
                        model, build_schema(s2, body), lbl, x, explicit)[0] == prob)
                    res["viol"].append({"signature": "C20|%s|%s|%s" % (entry, prob, k2),
                                        "case": {"entry": entry, "schema": schema, "instance": x, "body": lbl,
                                                 "cls": None if explicit is None else label(explicit)},
                                        "detail": detail, "size": len(json.dumps(schema)) + len(json.dumps(x))})
        if lbl == "id-vs-$id-store":
            continue        # the command line cannot be handed a store; the file:// twin covers it
        for vname in CLI_VALIDATORS:
            if vname is None and sel_broken:
                continue
            kindp, detail, oclass = check_cli(model, ws, schema, lbl, vname)
            res["ev"] += 1
            res["traces"] += 1
            oc = "cli%s:%s" % ("" if vname is None else "-validator", oclass[:40])
            res["outcomes"][oc] = res["outcomes"].get(oc, 0) + 1
            if kindp:
                entry = "cli" if vname is None else "cli-validator"
                k2 = shrink_kind(sp, kind, lambda s2: check_cli(
                    model, ws, build_schema(s2, body), lbl, vname)[0] == kindp)
                res["viol"].append({"signature": "C20|%s|%s|%s" % (entry, kindp, k2),
                                    "case": {"entry": entry, "schema": schema, "body": lbl, "validator": vname,
                                             "instances": ws.instances},
                                    "detail": detail, "size": len(json.dumps(schema)) + 50})
        if len(res["samples"]) < 2 and lbl in ("const", "if-then"):
            res["samples"].append({"schema": schema, "instances": X[:4],
                                   "model_selects": label(model.select(schema)[0])})


def run_unit(unit, ctx):
    thorough = ctx.thorough
    sps = spellings(thorough)
    kinds = dict((s, k) for s, k in sps)
    X = INSTANCES_T if thorough else INSTANCES_Q
    res = {"ev": 0, "nt": 0, "traces": 0, "viol": [], "samples": [], "outcomes": {}, "counters": {}}
    states = transitions = 0
    if unit[0] in ("static", "pairs", "boolean"):
        model = Model()
        with Workspace(X) as ws:
            if unit[0] == "static":
                sp, kind = sps[unit[1]]
                static_cases(ws, model, sp, kind, BODIES, X, res, kinds)
            elif unit[0] == "pairs":
                sp, kind = sps[unit[1]]
                merged = []
                plain = [(l, b) for l, b in BODIES if b is not None and l not in ("empty", "id-vs-$id-store")]
                for (l1, b1), (l2, b2) in itertools.combinations(plain, 2):
                    merged.append((l1 + "+" + l2, merge_bodies(b1, b2)))
                static_cases(ws, model, sp, kind, merged[unit[2]::PAIR_CHUNKS], INSTANCES_Q, res, kinds, first=False)
            else:
                for schema in (True, False):
                    for entry, p, detail in check_selection(model, schema):
                        res["viol"].append({"signature": "C20|%s|%s|boolean-schema" % (entry, p),
                                            "case": {"entry": entry, "schema": schema, "default": detail["default"]},
                                            "detail": detail, "size": 1})
                    res["ev"] += 3
                    res["traces"] += 3
                    for x in X:
                        res["nt"] += 1 if draft_disagreement(schema, "bool", x) else 0
                        for explicit in [None] + EXPLICIT:
                            prob, detail, oclass = check_validate(model, schema, "bool", x, explicit)
                            res["ev"] += 1
                            res["traces"] += 1
                            oc = "validate-boolean:%s" % oclass
                            res["outcomes"][oc] = res["outcomes"].get(oc, 0) + 1
                            if prob:
                                entry = "validate" if explicit is None else "validate-cls"
                                res["viol"].append({"signature": "C20|%s|%s|boolean-schema" % (entry, prob),
                                                    "case": {"entry": entry, "schema": schema, "instance": x,
                                                             "body": "bool",
                                                             "cls": None if explicit is None else label(explicit)},
                                                    "detail": detail, "size": 2})
                    for vname in CLI_VALIDATORS:
                        kindp, detail, oclass = check_cli(model, ws, schema, "bool", vname)
                        res["ev"] += 1
                        res["traces"] += 1
                        if kindp:
                            entry = "cli" if vname is None else "cli-validator"
                            res["viol"].append({"signature": "C20|%s|%s|boolean-schema" % (entry, kindp),
                                                "case": {"entry": entry, "schema": schema, "body": "bool",
                                                         "validator": vname, "instances": ws.instances},
                                                "detail": detail, "size": 3})
    else:
        _, depth, prefix = unit
        ops = OPS_T if thorough else OPS_Q
        table = probe_table(thorough)
        canon_seen = set()
        takeovers = 0
        static_sp = set(kinds)
        snap0 = snapshot()
        before = [(w, p, d.get("spelling")) for w, p, d in probe_state(Model(), table)]
        before_keys = set((w, sp) for w, _, sp in before)
        for n in range(0, depth - len(prefix) + 1):
            for rest in itertools.product(range(len(ops)), repeat=n):
                hist = tuple(prefix) + rest
                probs, cs, takeover = run_history(ops, hist, table)
                res["ev"] += 1
                res["nt"] += 1 if hist else 0
                res["traces"] += 1
                transitions += 1 if hist else 0     # the last operation of this history, probed in full
                if FIRST_HISTORY.get(cs) == hist:     # each canonical state is counted by exactly one history
                    canon_seen.add(cs)
                takeovers += 1 if takeover else 0
                oc = "history:%d-ops:%s" % (len(hist), "draft-id-taken-over" if takeover else "draft-ids-kept")
                res["outcomes"][oc] = res["outcomes"].get(oc, 0) + 1
                res["counters"]["probes"] = res["counters"].get("probes", 0) + len(table) * 3 + len(cs[1])
                done = set()
                for what, problem, detail in probs:
                    if hist and (what, detail.get("spelling")) in before_keys:
                        continue        # wrong before any registration: reported by the empty history / static part
                    if not hist and what.startswith("validator_for") and detail.get("spelling") in static_sp:
                        continue        # the static part reports exactly this probe
                    if (what, problem) in done:
                        continue
                    done.add((what, problem))
                    small = shrink_history(ops, list(hist), table, what, problem)
                    res["viol"].append({"signature": hist_signature(ops, small, what, problem),
                                        "case": {"entry": "history", "tier": ctx.tier,
                                                 "ops": [ops[j][0] for j in small], "op_indexes": small,
                                                 "what": what, "problem": problem},
                                        "detail": dict(detail, unshrunk=[ops[j][0] for j in hist]),
                                        "size": len(small)})
                if len(res["samples"]) < 2 and hist and len(hist) == depth and hist[-1] == 3:
                    res["samples"].append({"history": [ops[j][0] for j in hist],
                                           "model_ids": {k: v for k, v in cs[1]}})
        # restoration: same registry contents (identity of every class) and same answers to every probe
        snap1 = snapshot()
        after = [(w, p, d.get("spelling")) for w, p, d in probe_state(Model(), table)]
        same = all(set(a) == set(b) and all(a[k] is b[k] for k in a) for a, b in zip(snap0, snap1))
        if not same or after != before:
            raise RuntimeError("registries not restored after the histories: %r / %r" % (before[:2], after[:2]))
        res["counters"]["restorations_verified"] = 1
        res["counters"]["shared_id_takeover_histories"] = takeovers
        states = len(canon_seen)
    counters = dict(res["counters"])
    counters.update({"states": states, "transitions": transitions, "traces_validated_against_impl": res["traces"]})
    return {"evaluations": res["ev"], "nontrivial": res["nt"], "violations": res["viol"], "samples": res["samples"],
            "outcomes": res["outcomes"], "counters": counters}


def replay(case, ctx):
    model = Model()
    entry = case["entry"]
    if entry == "history":
        thorough = case.get("tier") == "thorough"
        ops = OPS_T if thorough else OPS_Q
        probs, cs, _ = run_history(ops, case["op_indexes"], probe_table(thorough))
        hit = [(w, p, d) for w, p, d in probs if w == case["what"] and p == case["problem"]]
        return {"reproduced": bool(hit), "problems": [(w, p) for w, p, _ in probs][:10],
                "detail": hit[0][2] if hit else None}
    schema = case["schema"]
    if entry.startswith("validator_for"):
        probs = [p for p in check_selection(model, schema) if p[0] == entry]
        return {"reproduced": bool(probs), "problems": probs}
    if entry.startswith("validate"):
        explicit = None
        if case.get("cls"):
            explicit = [c for c in EXPLICIT if label(c) == case["cls"]][0]
        prob, detail, _ = check_validate(model, schema, case["body"], case["instance"], explicit)
        return {"reproduced": prob is not None, "problem": prob, "detail": detail}
    if entry.startswith("cli"):
        with Workspace(case["instances"]) as ws:
            if case["body"] == "id-vs-$id-file":     # the recorded schema names a scratch directory that is gone
                old = re.search(r"file://(.*?)/idbase/", json.dumps(schema)).group(1)
                schema = json.loads(json.dumps(schema).replace(old, ws.dir))
            kindp, detail, _ = check_cli(model, ws, schema, case["body"], case["validator"])
        return {"reproduced": kindp is not None, "problem": kindp, "detail": detail}
    return {"reproduced": False, "error": "unknown entry"}
