"""C04 — all entry points agree: is_valid, iter_errors, validate(), jsonschema.validate.

Relations between the implementation's own entry points on every
(schema, instance, draft, class-selection, format-checker) of the enumeration,
for metaschema-valid and metaschema-invalid schemas.
"""
import json

import jsonschema
from jsonschema import FormatChecker, exceptions

from mc.enum import jsonvals
from mc.props import _e1, c11

ID = "C04"
LEVEL = "exploration"

SCHEMA_ID = {3: "http://json-schema.org/draft-03/schema#", 4: "http://json-schema.org/draft-04/schema#",
             6: "http://json-schema.org/draft-06/schema#", 7: "http://json-schema.org/draft-07/schema#"}


def ident(e):
    """keyword, message, paths, keyword value, instance, context recursively (order kept: same process)."""
    return (e.validator, e.message, tuple(e.path), tuple(e.schema_path), repr(e.validator_value),
            repr(e.instance), tuple(ident(c) for c in e.context))


def full_fields(e):
    return (type(e).__name__,) + ident(e) + (repr(e.schema), repr(e.cause), tuple(e.relative_path),
                                              tuple(e.relative_schema_path))


def leaves_and_tops(errors):
    out = set()

    def walk(e, top):
        if top or not e.context:
            out.add(ident(e))
        for c in e.context:
            walk(c, False)
    for e in errors:
        walk(e, True)
    return out


class TripWire(object):
    """An 'instance' that records every attempt to look at it."""
    touched = None

    def __init__(self):
        object.__setattr__(self, "touched", [])

    def _t(self, what):
        self.touched.append(what)

    def __eq__(self, o):
        self._t("eq"); return False

    def __ne__(self, o):
        self._t("ne"); return True

    def __hash__(self):
        self._t("hash"); return 0

    def __len__(self):
        self._t("len"); return 0

    def __iter__(self):
        self._t("iter"); return iter(())

    def __getitem__(self, k):
        self._t("getitem"); raise KeyError(k)

    def __contains__(self, k):
        self._t("contains"); return False

    def __bool__(self):
        self._t("bool"); return True

    def __repr__(self):
        self._t("repr"); return "<tripwire>"

    def __str__(self):
        self._t("str"); return "<tripwire>"

    def __getattr__(self, name):
        if name.startswith("__") and name.endswith("__"):
            raise AttributeError(name)
        self._t("getattr:" + name); raise AttributeError(name)


def call(fn):
    try:
        return ("ret", fn())
    except exceptions.ValidationError as e:
        return ("ValidationError", ident(e))
    except exceptions.SchemaError as e:
        return ("SchemaError", full_fields(e))
    except exceptions.RefResolutionError:
        return ("RefResolutionError",)
    except exceptions.UnknownType:
        return ("UnknownType",)
    except Exception as e:
        return ("EXC", type(e).__name__)


def check_valid_schema(d, S, x, fc, via_schema):
    """S passes check_schema.  Returns problem string or None, plus number of errors."""
    cls = _e1.CLS[d]
    kw = {"format_checker": fc} if fc is not None else {}
    S_use = S
    if via_schema:
        if not isinstance(S, dict):
            return None, 0
        S_use = dict(S)
        S_use["$schema"] = SCHEMA_ID[d]
        if jsonschema.validators.validator_for(S_use) is not cls:
            return "validator_for did not select the draft of $schema", 0
    v = cls(S_use, **kw)
    r1 = call(lambda: [ident(e) for e in v.iter_errors(x)])
    if r1[0] == "UnknownType":
        # documented for Draft 3; all entry points must then agree on it
        for fn in (lambda: v.is_valid(x), lambda: v.validate(x)):
            if call(fn)[0] != "UnknownType":
                return "entry points disagree on UnknownType", 0
        return None, 0
    if r1[0] != "ret":
        return "iter_errors raised %s" % (r1,), 0
    errs = r1[1]
    r1b = call(lambda: [ident(e) for e in v.iter_errors(x)])
    if r1b != r1:
        return "iter_errors differs when repeated", len(errs)
    iv = call(lambda: v.is_valid(x))
    if iv != ("ret", not errs):
        return "is_valid=%r but iter_errors yields %d error(s)" % (iv, len(errs)), len(errs)
    if call(lambda: v.is_valid(x)) != iv:
        return "is_valid differs when repeated", len(errs)
    va = call(lambda: v.validate(x))
    if errs:
        if va != ("ValidationError", errs[0]):
            return "validate() did not raise the first error of iter_errors: %r" % (va,), len(errs)
    elif va != ("ret", None):
        return "validate() raised/returned %r for a valid instance" % (va,), 0
    if call(lambda: v.validate(x)) != va:
        return "validate() differs when repeated", len(errs)
    # module-level validate, explicit class or class from $schema
    if via_schema:
        mv = call(lambda: jsonschema.validate(x, S_use, **kw))
    else:
        mv = call(lambda: jsonschema.validate(x, S_use, cls=cls, **kw))
    if errs:
        if mv[0] != "ValidationError":
            return "module validate() gave %r for an invalid instance" % (mv,), len(errs)
        bm = exceptions.best_match(cls(S_use, **kw).iter_errors(x))
        if mv[1] != ident(bm):
            return "module validate() did not raise best_match(iter_errors)", len(errs)
        pool = leaves_and_tops(cls(S_use, **kw).iter_errors(x))
        if mv[1] not in pool:
            return "module validate() raised an error that is neither one of iter_errors' nor a context-free descendant", len(errs)
    elif mv != ("ret", None):
        return "module validate() gave %r for a valid instance" % (mv,), 0
    mv2 = call(lambda: jsonschema.validate(x, S_use, **kw) if via_schema else jsonschema.validate(x, S_use, cls=cls, **kw))
    if mv2 != mv:
        return "module validate() differs when repeated", len(errs)
    return None, len(errs)


def check_invalid_schema(d, S):
    """S fails check_schema: module validate must raise the same SchemaError before touching the instance."""
    cls = _e1.CLS[d]
    first = next(cls(cls.META_SCHEMA).iter_errors(S), None)
    if first is None:
        return "internal: schema is not invalid"
    want = ("SchemaError",) + ident(first) + (repr(first.schema), repr(first.cause), tuple(first.relative_path),
                                              tuple(first.relative_schema_path))
    cs = call(lambda: cls.check_schema(S))
    if cs != ("SchemaError", want):
        return "check_schema raised %r, first metaschema violation is %r" % (cs, want)
    trip = TripWire()
    mv = call(lambda: jsonschema.validate(trip, S, cls=cls))
    if mv != ("SchemaError", want):
        return "module validate() raised %r instead of the metaschema violation" % (mv,)
    if trip.touched:
        return "module validate() looked at the instance (%s) before rejecting the schema" % ",".join(trip.touched[:4])
    if call(lambda: jsonschema.validate(TripWire(), S, cls=cls)) != mv:
        return "module validate() differs when repeated on an invalid schema"
    return None


def invalid_prehistories(d, S):
    out = []
    for d2 in _e1.DRAFTS:
        if d2 != d and _e1.accepted(d2, S):
            out.append(("accepted-by-draft", d2))
    if isinstance(S, dict):
        out.append(("edited-in-place", 0))
    return out


def run_prehistory(d, S, pre):
    """Build the schema object, let the earlier operations see it, then demand what check_invalid_schema demands."""
    S2 = json.loads(json.dumps(S))
    if pre[0] == "accepted-by-draft":
        cls2 = _e1.CLS[pre[1]]
        call(lambda: cls2.check_schema(S2))
        call(lambda: jsonschema.validate(None, S2, cls=cls2))
    else:
        keep = dict(S2)
        S2.clear()
        cls = _e1.CLS[d]
        call(lambda: cls.check_schema(S2))                  # {} is accepted by every draft
        call(lambda: jsonschema.validate(None, S2, cls=cls))
        S2.update(keep)                                     # the caller edits the object it owns
    return S2, check_invalid_schema(d, S2)


_invalid = {}


def invalid_candidates(d, tier):
    key = (d, tier)
    if key not in _invalid:
        base = c11.base_candidates()
        out, seen = [], set()
        wraps = c11.WRAP[:4] if tier == "quick" else c11.WRAP[:12]
        for wname, wr in wraps:
            for c in base:
                s = wr(c)
                if not isinstance(s, (dict, bool)):
                    # validator_for / RefResolver need a mapping or boolean at the root; other JSON values
                    # offered as a schema are C11's business (check_schema alone)
                    continue
                t = json.dumps(s)
                if t in seen:
                    continue
                seen.add(t)
                if not _e1.accepted(d, s):
                    out.append(s)
        _invalid[key] = out
    return _invalid[key]


def reduced_pairs(d, tier):
    """Quick tier: all ordered pairs over a reduced single alphabet (first two values per keyword)."""
    sg = _e1.get_singles(d, tier)
    per = {}
    for k, v in sg:
        per.setdefault(k, [])
        if len(per[k]) < 2:
            per[k].append(v)
    red = [(k, v) for k, vs in per.items() for v in vs]
    from mc.enum import schemas
    return list(schemas.ordered_pairs(red))


# ---- sessions: every order of entry-point calls on ONE validator object -------
SES_STORE = {
    "r.json": {"d": {"type": "integer"}, "definitions": {"a": {"type": "boolean"}}},
    "http://h.invalid/r.json": {"d": {"type": "null"}, "definitions": {"a": {"type": "array"}}},
    "http://h.invalid/sub/r.json": {"d": {"type": "string"}, "definitions": {"a": {"type": "string"}}},
}
SES_INSTANCES = [{}, {"x": 1}, {"r": 1}, {"r": "s"}, {"x": 1, "r": 1}, {"x": "s", "r": "s"}, [1, 1], ["s", "s"], [1, "s"],
                 {"x": {"y": 1}}]
SES_OPS = ("is_valid", "take1", "validate", "iter_errors")
SES_NUM = [2, 2.0, 2.5, True, "2", None, [2.0], [2.5], {"a": 2.0}, {"a": 2.5}, 0, -0.0]


def session_schemas(d):
    idk = "id" if d in (3, 4) else "$id"
    sub = {idk: "http://h.invalid/sub/", "type": "string"}
    rel = {"$ref": "r.json#/d"}
    out = []
    for root in (None, "http://h.invalid/root.json"):
        fam = [
            {"properties": {"x": dict(sub), "r": dict(rel)}},
            {"properties": {"x": {idk: "http://h.invalid/sub/", "properties": {"q": {}}, "type": "string"}, "r": dict(rel)}},
            {"items": [dict(sub), dict(rel)]},
            {"definitions": {"a": {"type": "integer"}},
             "properties": {"x": {"$ref": "http://h.invalid/sub/r.json#/d"}, "r": {"$ref": "#/definitions/a"}}},
            {"definitions": {"a": {"type": "integer"}},
             "items": [{"$ref": "http://h.invalid/sub/r.json#/d"}, {"$ref": "#/definitions/a"}]},
            {"properties": {"x": {idk: "sub/", "type": "string", "properties": {"y": dict(rel)}}, "r": dict(rel)}},
        ]
        # an id that cannot be joined to the base in effect: the call that meets it ends in RefResolutionError
        # and every other call on the same object must be unaffected
        fam += [{"properties": {"x": {idk: "http://[", "type": "string"}, "r": dict(rel)}},
                {"properties": {"x": {idk: "http://h.invalid/sub/", "properties": {"y": {idk: "http://["}}},
                                "r": dict(rel)}}]
        if d >= 4:
            fam += [{"not": dict(sub, properties={"x": {"type": "string"}}), "properties": {"r": dict(rel)}},
                    {"anyOf": [dict(sub), {"properties": {"r": dict(rel)}, "type": "object"}]},
                    {"properties": {"x": {"not": {"$ref": "http://h.invalid/sub/r.json#/d"}},
                                    "r": {"$ref": "#/definitions/a"}}, "definitions": {"a": {"type": "integer"}}}]
        else:
            fam += [{"disallow": [dict(sub, properties={"x": {"type": "string"}})], "properties": {"r": dict(rel)}},
                    {"extends": [dict(sub)], "properties": {"r": dict(rel)}}]
        if d >= 6:
            fam += [{"contains": dict(sub), "items": [True, dict(rel)]}]
        if d == 7:
            fam += [{"if": {"properties": {"x": dict(sub)}}, "then": {"properties": {"r": dict(rel)}},
                     "else": {"properties": {"r": dict(rel)}}}]
        for S in fam:
            if root:
                S = dict(S)
                S[idk] = root
            out.append(S)
    return out


def ses_validator(d, S, with_store):
    cls = _e1.CLS[d]
    if not with_store:
        return cls(S)
    r = jsonschema.RefResolver.from_schema(S, id_of=cls.ID_OF, store={k: json.loads(json.dumps(v)) for k, v in SES_STORE.items()})
    return cls(S, resolver=r)


def ses_observe(v, op, x):
    if op == "is_valid":
        return call(lambda: v.is_valid(x))
    if op == "iter_errors":
        return call(lambda: [ident(e) for e in v.iter_errors(x)])
    if op == "validate":
        return call(lambda: v.validate(x))

    def take1():
        it = v.iter_errors(x)
        e = next(it, None)
        del it
        return [] if e is None else [ident(e)]
    return call(take1)


def ses_problem(op, got, fresh):
    """fresh = call-result of a complete iteration on a new validator object."""
    if fresh[0] != "ret":
        return None     # the complete iteration does not finish normally: nothing to compare an early stop with
    errs = fresh[1]
    if op == "is_valid":
        want = ("ret", not errs)
    elif op == "iter_errors":
        want = ("ret", errs)
    elif op == "take1":
        want = ("ret", errs[:1])
    else:
        want = ("ValidationError", errs[0]) if errs else ("ret", None)
    if got != want:
        return "%s on a used validator gave %.200r, a new validator object gives %.200r" % (op, got, want)
    return None


def run_session(d, S, hist, with_store, fresh_cache):
    v = ses_validator(d, S, with_store)
    for i, (op, x) in enumerate(hist):
        key = json.dumps(x)
        if key not in fresh_cache:
            vv = ses_validator(d, S, with_store)
            fresh_cache[key] = call(lambda: [ident(e) for e in vv.iter_errors(x)])
        got = ses_observe(v, op, x)
        p = ses_problem(op, got, fresh_cache[key])
        if p:
            return i, p
    return None


def session_units(d, tier):
    """(family, schema, instances, with_store)"""
    out = []
    for S in session_schemas(d):
        if _e1.accepted(d, S):
            out.append(("scoped", S, SES_INSTANCES, True))
    sub = [None, 0, 1.5, 2.0, "a", [0, "a"], ["a", "a"], {"a": 0}, {"a": "a", "b": 0}, {"b": 0, "ab": 0}, [[0], [0]], True]
    for S in _e1.get_list("singles", d, tier):
        out.append(("single", S, sub, False))
    for S in ({"type": "integer"}, {"type": ["integer", "string"]}, {"items": {"type": "integer"}},
              {"properties": {"a": {"type": "integer"}}}, {"type": "number"}, {"enum": [2, "2"]},
              {"multipleOf" if d >= 4 else "divisibleBy": 1}, {"uniqueItems": True}, {"type": ["number", "null"]}):
        if _e1.accepted(d, S):
            out.append(("numeric", S, SES_NUM, False))
    return out


def run_sessions(unit, ctx):
    import itertools
    d, _, shard, n = unit
    allu = session_units(d, ctx.tier)
    ev = nt = 0
    viol, samples, outcomes = [], [], {}
    for ui in range(shard, len(allu), n):
        fam, S, insts, with_store = allu[ui]
        fresh_cache = {}
        if fam == "single":
            hists = [((o1, x1), ("iter_errors", x2)) for o1 in ("is_valid", "take1", "validate") for x1 in insts for x2 in insts]
        else:
            ops = [(o, x) for o in SES_OPS for x in insts]
            L = 3 if (ctx.thorough and fam == "scoped") else 2
            hists = itertools.product(ops, repeat=L)
        for hist in hists:
            ev += 1
            r = run_session(d, S, hist, with_store, fresh_cache)
            if r is None:
                outcomes["session-agrees"] = outcomes.get("session-agrees", 0) + 1
            else:
                nt += 1
                outcomes["SESSION-DISAGREES"] = outcomes.get("SESSION-DISAGREES", 0) + 1
                viol.append({"signature": "C04|session|%s|%s" % (fam, r[1].split(" ")[0]), "size": len(str(S)) + 50 * (r[0] + 1),
                             "case": {"draft": d, "schema": S, "config": {"kind": "session", "with_store": with_store},
                                      "history": [[op, x] for op, x in hist[:r[0] + 1]]},
                             "detail": {"problem": r[1], "failing_call": r[0]}})
        nt += sum(1 for k, f in fresh_cache.items() if f[0] == "ret" and f[1])
        if not samples and fam == "scoped":
            samples.append({"draft": d, "schema": S, "session": [["is_valid", insts[1]], ["iter_errors", insts[2]]]})
    return {"evaluations": ev, "nontrivial": min(nt, ev), "violations": viol, "samples": samples, "outcomes": outcomes,
            "counters": {"sessions": ev}}


# ---- keywords written next to $ref, and classes whose keywords were replaced ------------------------------
def ref_sibling_schemas(d, tier):
    """{"$ref": target, sibling keyword} for every single keyword of the draft x three targets: whatever the
    sibling says is ignored, and every entry point has to ignore it alike."""
    out = []
    targets = [("any", {}), ("int", {"type": "integer"}), ("none", {"not": {}} if d >= 4 else {"disallow": "any"})]
    for k, v in _e1.get_singles(d, tier):
        if k in ("$ref", "definitions"):
            continue
        for tname, T in targets:
            out.append({"definitions": {"t": T}, "$ref": "#/definitions/t", k: v})
            out.append({k: v, "definitions": {"t": T}, "$ref": "#/definitions/t"})
    return out


_ext = {}


def extended_classes(d):
    """Classes whose keyword implementations differ from the draft's: whatever shortcut an entry point takes must
    go through the class's own table and type checker."""
    if d not in _ext:
        from jsonschema import validators as jv
        cls = _e1.CLS[d]

        def lenient_type(validator, types, instance, schema):
            return
            yield

        def strict_enum(validator, enums, instance, schema):
            yield exceptions.ValidationError("enum replaced")
        _ext[d] = [
            ("type-lenient", jv.extend(cls, {"type": lenient_type})),
            ("enum-always-fails", jv.extend(cls, {"enum": strict_enum})),
            ("string-is-anything", jv.extend(cls, type_checker=cls.TYPE_CHECKER.redefine("string", lambda c, i: True))),
            ("no-integers", jv.extend(cls, type_checker=cls.TYPE_CHECKER.redefine("integer", lambda c, i: False))),
        ]
    return _ext[d]


def check_with_class(cls, S, x):
    """The entry-point relations for an arbitrary class (no module-level $schema selection involved)."""
    v = cls(S)
    r1 = call(lambda: [ident(e) for e in v.iter_errors(x)])
    if r1[0] != "ret":
        return None, 0
    errs = r1[1]
    iv = call(lambda: v.is_valid(x))
    if iv != ("ret", not errs):
        return "is_valid=%r but iter_errors yields %d error(s)" % (iv, len(errs)), len(errs)
    va = call(lambda: v.validate(x))
    if errs:
        if va != ("ValidationError", errs[0]):
            return "validate() did not raise the first error of iter_errors: %.200r" % (va,), len(errs)
    elif va != ("ret", None):
        return "validate() raised/returned %.200r for a valid instance" % (va,), 0
    mv = call(lambda: jsonschema.validate(x, S, cls=cls))
    if errs:
        if mv[0] != "ValidationError":
            return "module validate() gave %.200r for an invalid instance" % (mv,), len(errs)
        if mv[1] not in leaves_and_tops(cls(S).iter_errors(x)):
            return "module validate() raised an error that is neither one of iter_errors' nor a context-free descendant", len(errs)
    elif mv != ("ret", None):
        return "module validate() gave %.200r for a valid instance" % (mv,), 0
    return None, len(errs)


def run_refsib(unit, ctx):
    d, _, shard, n = unit
    U = jsonvals.universe_small()
    lst = ref_sibling_schemas(d, ctx.tier)
    ev = nt = 0
    viol, outcomes = [], {}
    for i in range(shard, len(lst), n):
        S = lst[i]
        if not _e1.accepted(d, S):
            continue
        for x in U:
            ev += 1
            p, k = check_valid_schema(d, S, x, None, False)
            if k:
                nt += 1
            outcomes["ref-sibling:" + ("invalid" if k else "valid")] = outcomes.get("ref-sibling:" + ("invalid" if k else "valid"), 0) + 1
            if p:
                sib = [kk for kk in S if kk not in ("$ref", "definitions")][0]
                viol.append({"signature": "C04|next-to-$ref|%s|%s" % (sib, p.split(" ")[0]), "size": len(str(S)) + len(str(x)),
                             "case": {"draft": d, "schema": S, "instance": x, "config": {"format_checker": False, "via_schema": False}},
                             "detail": {"problem": p}})
    return {"evaluations": ev, "nontrivial": nt, "violations": viol, "samples": [], "outcomes": outcomes,
            "counters": {"ref_sibling_cases": ev}}


def run_extended(unit, ctx):
    d, _, ci, shard, n = unit
    name, cls = extended_classes(d)[ci]
    U = jsonvals.universe_small()
    lst = [S for S in _e1.get_list("singles", d, ctx.tier)] + \
          [S for S in _e1.get_list("groups", d, ctx.tier) if isinstance(S, dict) and ("type" in S or "enum" in S)]
    ev = nt = 0
    viol, outcomes = [], {}
    for i in range(shard, len(lst), n):
        S = lst[i]
        try:
            cls.check_schema(S)         # the extended class's own verdict: its type checker reads the metaschema too
        except Exception:
            continue
        for x in U:
            ev += 1
            try:
                p, k = check_with_class(cls, S, x)
            except Exception as e:
                p, k = "relations could not be evaluated: %s" % type(e).__name__, 0
            if k:
                nt += 1
            if p:
                viol.append({"signature": "C04|extended-class|%s|%s" % (name, p.split(" ")[0]), "size": len(str(S)) + len(str(x)),
                             "case": {"draft": d, "schema": S, "instance": x, "config": {"kind": "extended", "class_index": ci}},
                             "detail": {"problem": p}})
    outcomes["extended:%s" % name] = ev
    return {"evaluations": ev, "nontrivial": nt, "violations": viol, "samples": [], "outcomes": outcomes,
            "counters": {"extended_class_cases": ev}}


# ---- the entry points given an explicit subschema (the `_schema` argument) ---------------------------------
def explicit_subschemas(d, tier):
    subs = [{}, True, False, {"type": "string"}, {"enum": []}, {"not": {}} if d >= 4 else {"disallow": "any"}]
    subs += [S for S in _e1.get_list("singles", d, tier)][::3]
    return subs


def run_explicit(unit, ctx):
    """One validator whose own schema rejects (or accepts) everything is asked about OTHER schemas through
    is_valid(x, s) / iter_errors(x, s) / validate(x, s): each answers for s, not for its own schema, and they agree."""
    d, _, shard, n = unit
    U = jsonvals.universe_small()
    roots = [{"not": {}} if d >= 4 else {"disallow": "any"}, {}]
    subs = explicit_subschemas(d, ctx.tier)
    ev = nt = 0
    viol, outcomes = [], {}
    for i in range(shard, len(subs), n):
        s = subs[i]
        if isinstance(s, bool) is False and not _e1.accepted(d, s):
            continue
        for ri, root in enumerate(roots):
            v = _e1.CLS[d](root)
            own = _e1.CLS[d](s) if not isinstance(s, bool) or d >= 6 else None
            for x in U:
                ev += 1
                if own is not None:
                    want = call(lambda: [ident(e) for e in own.iter_errors(x)])
                else:           # boolean subschema handed to a draft 3/4 validator: true accepts, false rejects
                    want = None
                got = call(lambda: [ident(e) for e in v.iter_errors(x, s)])
                p = None
                if want is not None and got != want:
                    p = "iter_errors(x, s) differs from a validator built for s"
                elif got[0] == "ret":
                    errs = got[1]
                    if errs:
                        nt += 1
                    iv = call(lambda: v.is_valid(x, s))
                    va = call(lambda: v.validate(x, s))
                    if iv != ("ret", not errs):
                        p = "is_valid(x, s)=%.80r but iter_errors(x, s) yields %d error(s)" % (iv, len(errs))
                    elif errs and va != ("ValidationError", errs[0]):
                        p = "validate(x, s) did not raise the first error of iter_errors(x, s): %.120r" % (va,)
                    elif not errs and va != ("ret", None):
                        p = "validate(x, s) raised/returned %.120r although iter_errors(x, s) is empty" % (va,)
                outcomes["explicit-subschema"] = outcomes.get("explicit-subschema", 0) + 1
                if p:
                    viol.append({"signature": "C04|explicit-subschema|%s|%s" % (p.split("(")[0], "falsy" if not s else "truthy"),
                                 "size": len(str(s)) + len(str(x)),
                                 "case": {"draft": d, "schema": s, "instance": x,
                                          "config": {"kind": "explicit", "root_index": ri}},
                                 "detail": {"problem": p}})
    return {"evaluations": ev, "nontrivial": nt, "violations": viol, "samples": [], "outcomes": outcomes,
            "counters": {"explicit_subschema_cases": ev}}


def plan(ctx):
    sizes = {}
    units = []
    for d in _e1.DRAFTS:
        for kind in ("singles", "groups", "nested"):
            lst = _e1.get_list(kind, d, ctx.tier)
            n = max(1, min(16, len(lst) // 60))
            units += [(d, kind, i, n) for i in range(n)]
            sizes["%s_d%d" % (kind, d)] = len(lst)
        if ctx.thorough:
            units += [(d, "pairs", i, 48) for i in range(48)]
        else:
            rp = reduced_pairs(d, ctx.tier)
            _e1._cache[("rpairs", d, ctx.tier)] = rp
            sizes["reduced_pairs_d%d" % d] = len(rp)
            units += [(d, "rpairs", i, 8) for i in range(8)]
    for d in _e1.DRAFTS:
        sizes["ref_sibling_schemas_d%d" % d] = len(ref_sibling_schemas(d, ctx.tier))
        units += [(d, "refsib", i, 6) for i in range(6)]
        units += [(d, "explicit", i, 2) for i in range(2)]
        for ci in range(len(extended_classes(d))):
            units += [(d, "extended", ci, i, 2) for i in range(2)]
    for d in _e1.DRAFTS:
        sizes["session_schemas_d%d" % d] = len(session_units(d, ctx.tier))
        units += [(d, "sessions", i, 12) for i in range(12)]
    n = 4 if ctx.tier == "quick" else 8
    for d in _e1.DRAFTS:
        sizes["invalid_schemas_d%d" % d] = len(invalid_candidates(d, ctx.tier))
        units += [(d, "invalid", i, n) for i in range(n)]
    return {
        "units": units,
        "rule": ("valid schemas: G(draft): singles x U x {explicit class, class selected through $schema}, sibling "
                 "groups and nested applicators x U_small, ordered pairs (quick: all ordered pairs over two values "
                 "per keyword; thorough: all ordered pairs of the full single alphabet) x a 10-instance universe, "
                 "each with FormatChecker() too when the schema uses `format`; invalid schemas: every candidate of "
                 "C11's table (4-12 positions) that the draft's check_schema rejects, with a trip-wire instance, "
                 "also after the same schema object was accepted by another draft's class or was accepted by this "
                 "class and then edited in place; "
                 "all relations of the property are evaluated on each; EXPLICIT SUBSCHEMA: is_valid / iter_errors / "
                 "validate given another schema (`{}`, true, false, a third of the singles) by a validator whose own "
                 "schema accepts or rejects everything; NEXT TO $ref: every single keyword written next "
                 "to a $ref (before and after it) x 3 targets x 29 instances; EXTENDED CLASSES: the relations for 4 "
                 "classes whose `type` / `enum` function or type checker was replaced, over singles and the groups "
                 "with type / enum; SESSIONS: on ONE validator object every sequence "
                 "of 2 (thorough: 3) calls (is_valid / first error then drop / validate / complete iteration) x "
                 "instance, for schemas with base-changing ids, relative and cross-document references (documents in "
                 "the store), for integer/number schemas on 2 / 2.0 / 2.5 / true, and (state-leaving call, then a "
                 "complete iteration) for every single-keyword schema over 12 instances; every call must give what "
                 "a new validator object gives; distinct by construction; non-trivial = the "
                 "instance is invalid (>= 1 error) or the schema is invalid"),
        "bounds": dict(sizes, tier=ctx.tier),
        "assumptions": ["error identity = (keyword, message, path, schema path, keyword value, instance, context "
                        "recursively); iteration order is compared within one process only"],
    }


PAIR_U = [None, 1, 1.5, "a", "ab", [], [0, "a"], {}, {"a": "a", "b": 0}, {"ba": 0, "ab": "a"}]


def run_unit(unit, ctx):
    d, kind = unit[0], unit[1]
    ev = nt = 0
    viol, samples, outcomes = [], [], {}

    def report(kindname, S, x, problem, cfg):
        sig = "C04|%s|%s" % (kindname, problem.split(" ")[0] + " " + " ".join(problem.split(" ")[1:4]))
        viol.append({"signature": sig[:120], "size": len(str(S)) + len(str(x)),
                     "case": {"draft": d, "schema": S, "instance": x, "config": cfg},
                     "detail": {"problem": problem}})

    if kind == "sessions":
        return run_sessions(unit, ctx)
    if kind == "refsib":
        return run_refsib(unit, ctx)
    if kind == "explicit":
        return run_explicit(unit, ctx)
    if kind == "extended":
        return run_extended(unit, ctx)
    if kind == "invalid":
        cands = invalid_candidates(d, ctx.tier)
        for i in range(unit[2], len(cands), unit[3]):
            S = cands[i]
            ev += 1
            nt += 1
            p = check_invalid_schema(d, S)
            outcomes["invalid-schema"] = outcomes.get("invalid-schema", 0) + 1
            if p:
                report("invalid-schema", S, None, p, {"kind": "invalid"})
            # the same schema OBJECT was seen before: accepted by another draft's class, or accepted by this
            # class before the caller edited it in place
            for pre in invalid_prehistories(d, S):
                ev += 1
                nt += 1
                S2, p = run_prehistory(d, S, pre)
                outcomes["invalid-schema-after-" + pre[0]] = outcomes.get("invalid-schema-after-" + pre[0], 0) + 1
                if p:
                    report("invalid-schema-after-" + pre[0], S, None, p, {"kind": "invalid", "prehistory": list(pre)})
            if len(samples) < 1 and i % 499 == 3:
                samples.append({"draft": d, "invalid_schema": S})
        return {"evaluations": ev, "nontrivial": nt, "violations": viol, "samples": samples,
                "outcomes": outcomes, "counters": {}}

    if kind in ("pairs", "rpairs"):
        U = PAIR_U
    elif kind == "singles":
        U = _e1.get_universe(ctx.tier)
    else:
        U = jsonvals.universe_small()
    fcs = (None, FormatChecker())
    nsch = 0
    if kind == "rpairs":
        rp = _e1._cache[("rpairs", d, ctx.tier)]
        it = (rp[i] for i in range(unit[2], len(rp), unit[3]))
    else:
        it = _e1.iter_unit(unit, ctx.tier)
    for S in it:
        if kind != "singles" and not _e1.accepted(d, S):
            continue
        nsch += 1
        has_format = isinstance(S, dict) and "format" in json.dumps(S)
        for x in U:
            for fi, fc in enumerate(fcs):
                if fc is not None and not has_format:
                    continue
                for via in (False, True):
                    if via and kind != "singles":
                        continue
                    ev += 1
                    p, n = check_valid_schema(d, S, x, fc, via)
                    if n:
                        nt += 1
                    key = "valid" if not n else "invalid"
                    outcomes[key] = outcomes.get(key, 0) + 1
                    if p:
                        report("valid-schema", S, x, p, {"format_checker": bool(fc), "via_schema": via})
        if len(samples) < 1 and nsch % 113 == 9:
            samples.append({"draft": d, "schema": S, "instance": U[nsch % len(U)]})
    return {"evaluations": ev, "nontrivial": nt, "violations": viol, "samples": samples, "outcomes": outcomes,
            "counters": {"schemas": nsch}}


def replay(case, ctx):
    d, S, cfg = case["draft"], case["schema"], case["config"]
    if cfg.get("kind") == "explicit":
        root = [{"not": {}} if d >= 4 else {"disallow": "any"}, {}][cfg["root_index"]]
        v = _e1.CLS[d](root)
        x = case["instance"]
        got = call(lambda: [ident(e) for e in v.iter_errors(x, S)])
        iv = call(lambda: v.is_valid(x, S))
        va = call(lambda: v.validate(x, S))
        bad = got[0] == "ret" and (iv != ("ret", not got[1]) or (got[1] and va != ("ValidationError", got[1][0]))
                                   or (not got[1] and va != ("ret", None)))
        if not bad and (not isinstance(S, bool) or d >= 6):
            bad = got != call(lambda: [ident(e) for e in _e1.CLS[d](S).iter_errors(x)])
        return {"reproduced": bool(bad), "iter_errors": got, "is_valid": iv, "validate": va}
    if cfg.get("kind") == "extended":
        p, k = check_with_class(extended_classes(d)[cfg["class_index"]][1], S, case["instance"])
        return {"reproduced": bool(p), "problem": p}
    if cfg.get("kind") == "session":
        r = run_session(d, S, [tuple(h) for h in case["history"]], cfg["with_store"], {})
        return {"reproduced": r is not None, "problem": r}
    if cfg.get("kind") == "invalid" and cfg.get("prehistory"):
        S2, p = run_prehistory(d, S, tuple(cfg["prehistory"]))
    elif cfg.get("kind") == "invalid":
        p = check_invalid_schema(d, S)
    else:
        p, n = check_valid_schema(d, S, case["instance"], FormatChecker() if cfg["format_checker"] else None,
                                  cfg["via_schema"])
    return {"reproduced": bool(p), "problem": p}
