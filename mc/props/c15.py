"""C15 — reference retrieval and caching are transparent, frugal and offline-safe.

E2 over histories of validations and direct resolutions x {cache_remote on/off}
x {default lru caches, pass-through functions, lru_cache(1)} x handler faults
(deviation bounded).  Oracle: a fetch-count / availability model that predicts
the result of every operation and the exact handler call log, plus the
invariants of the property stated directly.
"""
import collections
import copy
import functools
import sys
import types
from urllib.parse import urldefrag, urljoin

import jsonschema
from jsonschema import RefResolver, exceptions, validators as jsv

from mc.explore import history
from mc.props import _e1
from mc.ref import pointer, resolver as refmodel

ID = "C15"
LEVEL = "model_checking"

H = "http://h.invalid/dir/"
META = {3: "http://json-schema.org/draft-03/schema", 4: "http://json-schema.org/draft-04/schema",
        6: "http://json-schema.org/draft-06/schema", 7: "http://json-schema.org/draft-07/schema"}

REMOTE = {
    H + "d.json": {"x": {"type": "integer"}, "y": {"type": "string"}, "z": {"items": {"$ref": "#/x"}},
                   "e": {"$ref": "e.json#/t"}},
    H + "e.json": {"t": {"minimum": 5}},
    # whole documents that are boolean schemas (not containers): cached and counted like any other document
    H + "t.json": True,
    H + "f.json": False,
}
STORE = {H + "s.json#": {"t": {"type": "boolean"}}}        # as ids are usually written: not in normal form


class Odd(Exception):
    pass


FAILURES = [IOError, KeyError, RuntimeError, Odd, TypeError, LookupError]


def driver(d):
    idk = refmodel.IDK[d]
    S = {idk: H + "root.json",
         "properties": {
             "a": {"$ref": "d.json#/x"},
             "b": {"$ref": "d.json#/y"},
             "c": {"$ref": "d.json#/z"},
             "e": {"$ref": "d.json#/e"},
             "s": {"$ref": "s.json#/t"},
             "m": {"$ref": META[d] + "#"},
             "w": {"$ref": "d.json#"},
             "u": {"$ref": "HTTP" + H[4:] + "d.json#/x"},
             "t": {"$ref": "t.json"},
             "tt": {"$ref": "t.json#"},
             "f": {"$ref": "f.json"},
         }}
    inst = [{"a": 1, "b": "s", "s": True, "t": 1, "tt": 2},
            {"a": "no", "c": [1, "no"], "e": 1, "u": "no", "f": 1, "t": 0, "tt": None},
            {"m": {"type": 12}, "s": 1, "b": 2},
            {"w": 1, "a": 2, "c": [3]}]
    refs = ["d.json#/x", "d.json", "d.json#", "d.json#/nope", "HTTP" + H[4:] + "d.json#/y", "HTTP" + H[4:] + "d.json",
            "e.json#/t", "t.json", "f.json#",
            "s.json#/t", META[d] + "#/properties", META[d]]
    urls = [H + "d.json#/y", H + "e.json", "HTTP" + H[4:] + "e.json"]
    return {"schema": S, "instances": inst, "refs": refs, "urls": urls}


# (cache_remote, cache functions, transport): the handler transport with every cache kind; the urlopen and
# requests fallbacks (no handler registered for the scheme) with the default and the pass-through caches
CONFIGS = [(cr, ck, "handler") for cr in (True, False) for ck in ("default", "passthrough", "lru1")] + \
          [(cr, ck, tr) for tr in ("urlopen", "requests") for cr in (True, False) for ck in ("default", "passthrough")]


def norm(url):
    u, _ = urldefrag(url)
    i = u.find(":")
    return u[:i].lower() + u[i:] if i > 0 else u


class _Resp(object):
    def __init__(self, doc):
        self.doc = doc

    def read(self):
        import json as _json
        return _json.dumps(self.doc).encode("utf-8")

    def json(self):
        return copy.deepcopy(self.doc)

    def __enter__(self):
        return self

    def __exit__(self, *a):
        return False


class Net(object):
    """Everything that could reach the network, replaced by recorders.  They fail, except for the world whose
    transport they are: then they serve that world's documents through its fetch function (which logs)."""

    def __init__(self):
        self.calls = []         # calls that no world asked for: each is a violation
        self.world = None

    def install(self):
        self.saved_urlopen = jsv.urlopen
        self.had_requests = "requests" in sys.modules
        self.saved_requests = sys.modules.get("requests", None)
        net = self

        def urlopen(uri, *a, **k):
            w = net.world
            if w is not None and w.cfg[2] == "urlopen":
                return _Resp(w.fetch(uri))
            net.calls.append(("urlopen", uri))
            raise IOError("network disabled: " + str(uri))
        fake = types.ModuleType("requests")

        def get(uri, *a, **k):
            w = net.world
            if w is not None and w.cfg[2] == "requests":
                return _Resp(w.fetch(uri))
            net.calls.append(("requests.get", uri))
            raise IOError("network disabled: " + str(uri))
        fake.get = get
        self.fake = fake
        jsv.urlopen = urlopen
        sys.modules["requests"] = fake

    def select(self, world):
        """Before every operation: the requests module is importable unless the transport is urlopen."""
        self.world = world
        sys.modules["requests"] = self.fake if world.cfg[2] != "urlopen" else None

    def uninstall(self):
        jsv.urlopen = self.saved_urlopen
        self.world = None
        if not self.had_requests:
            sys.modules.pop("requests", None)
        else:
            sys.modules["requests"] = self.saved_requests


NET = Net()


class World(object):
    def __init__(self, d, cfg, always_ok=False):
        self.d, self.cfg = d, cfg
        cache_remote, kind, transport = cfg
        self.mode = "ok"
        self.always_ok = always_ok
        self.calls = []           # handler call log (normalised document URLs)
        self.ok_fetches = collections.Counter()
        self.failures = collections.Counter()
        drv = driver(d)
        self.drv = drv
        self.schema = copy.deepcopy(drv["schema"])

        def handler(uri):
            key = norm(uri)
            self.calls.append(key)
            if (self.mode != "ok" and not self.always_ok) or key not in REMOTE:
                self.failures[key] += 1
                # any exception whatsoever from a handler must surface as RefResolutionError
                raise FAILURES[sum(self.failures.values()) % len(FAILURES)]("cannot fetch " + uri)
            self.ok_fetches[key] += 1
            return copy.deepcopy(REMOTE[key])
        self.fetch = handler
        handlers = {"http": handler, "https": handler} if transport == "handler" else {}
        cls = _e1.CLS[d]
        r = RefResolver.from_schema(self.schema, id_of=cls.ID_OF, store=copy.deepcopy(STORE),
                                    cache_remote=cache_remote, handlers=handlers)
        if kind == "passthrough":
            # the remote cache must wrap the resolver's own method: build it in two steps
            r = RefResolver(base_uri=cls.ID_OF(self.schema), referrer=self.schema, store=copy.deepcopy(STORE),
                            cache_remote=cache_remote, handlers=handlers,
                            urljoin_cache=urljoin, remote_cache=lambda url: r.resolve_from_url(url))
        elif kind == "lru1":
            holder = {}
            r = RefResolver(base_uri=cls.ID_OF(self.schema), referrer=self.schema, store=copy.deepcopy(STORE),
                            cache_remote=cache_remote, handlers=handlers,
                            urljoin_cache=functools.lru_cache(1)(urljoin),
                            remote_cache=functools.lru_cache(1)(lambda url: holder["r"].resolve_from_url(url)))
            holder["r"] = r
        self.resolver = r
        self.v = cls(self.schema, resolver=r)
        self.store_keys0 = sorted(r.store)
        # ---- the reference model's state
        self.m_store = set(norm(k) for k in STORE) | {norm(cls.ID_OF(self.schema))}
        self.m_urlcache = collections.OrderedDict()
        self.m_calls = []


def ident(e):
    return (e.validator, e.message, tuple(e.absolute_path), tuple(e.absolute_schema_path))


# ---- evaluation-order traces: which URLs does validating instance i resolve, in order?
_trace = {}


def trace(d, i):
    key = (d, i)
    if key not in _trace:
        w = World(d, (True, "passthrough", "handler"), always_ok=True)
        urls = []
        orig = w.resolver.resolve

        def logging_resolve(ref):
            url, res = orig(ref)
            urls.append(url)
            return url, res
        w.resolver.resolve = logging_resolve
        try:
            errs = tuple(sorted((ident(e) for e in w.v.iter_errors(copy.deepcopy(w.drv["instances"][i]))), key=repr))
        except Exception as e:      # with every document available nothing may fail: shows up as a disagreement
            errs = ("all-available-run-raised", type(e).__name__)
        _trace[key] = (urls, errs)
    return _trace[key]


def is_local(url):
    n = norm(url)
    return n.startswith("http://json-schema.org/") or n in (norm(k) for k in STORE) or n == norm(H + "root.json")


def model_resolve_url(w, url, through_cache=True):
    """The boring model of one URL resolution; returns value-description or raises KeyError('RRE')."""
    cache_remote, kind, transport = w.cfg
    if through_cache and kind != "passthrough" and url in w.m_urlcache:
        w.m_urlcache.move_to_end(url)
        return w.m_urlcache[url]
    doc_url, frag = urldefrag(url)
    key = norm(url)
    if key in w.m_store or key.startswith("http://json-schema.org/"):
        if key.startswith("http://json-schema.org/"):
            doc = META_DOCS[key]
        elif key in REMOTE:
            doc = REMOTE[key]
        elif key == norm(H + "root.json"):
            doc = w.drv["schema"]
        else:
            doc = {norm(k): v for k, v in STORE.items()}[key]
    else:
        w.m_calls.append(key)
        if w.mode != "ok" or key not in REMOTE:
            raise KeyError("RRE")
        doc = REMOTE[key]
        if cache_remote:
            w.m_store.add(key)
    try:
        val = pointer.resolve(doc, frag)
    except pointer.PointerError:
        raise KeyError("RRE")
    val = repr(val)
    if through_cache and kind != "passthrough":
        w.m_urlcache[url] = val
        cap = 1 if kind == "lru1" else 1024
        while len(w.m_urlcache) > cap:
            w.m_urlcache.popitem(last=False)
    return val


META_DOCS = {}


def _load_meta():
    for d, cls in _e1.CLS.items():
        META_DOCS[norm(cls.ID_OF(cls.META_SCHEMA))] = cls.META_SCHEMA


def run_op(w, op):
    """Returns (observation, model prediction)."""
    kind = op[0]
    if kind == "mode":
        w.mode = op[1]
        return ("mode", op[1]), ("mode", op[1])
    base = w.resolver.resolution_scope
    n0 = len(w.calls)
    m0 = len(w.m_calls)
    # ---- prediction
    try:
        if kind == "validate":
            urls, errs = trace(w.d, op[1])
            for u in urls:
                model_resolve_url(w, u)
            pred = ("ok", errs)
        elif kind in ("resolve", "resolving"):
            url = urljoin(base, w.drv["refs"][op[1]])
            pred = ("ok", url, model_resolve_url(w, url))
        else:
            url = w.drv["urls"][op[1]]
            pred = ("ok", model_resolve_url(w, url, through_cache=False))
    except KeyError:
        pred = ("RefResolutionError",)
    pred = pred + (tuple(w.m_calls[m0:]),)
    # ---- implementation
    try:
        if kind == "validate":
            x = copy.deepcopy(w.drv["instances"][op[1]])
            obs = ("ok", tuple(sorted((ident(e) for e in w.v.iter_errors(x)), key=repr)))
        elif kind == "resolve":
            url, res = w.resolver.resolve(w.drv["refs"][op[1]])
            obs = ("ok", url, repr(res))
        elif kind == "resolving":
            with w.resolver.resolving(w.drv["refs"][op[1]]) as res:
                inside = w.resolver.resolution_scope
            obs = ("ok", inside, repr(res))
        else:
            obs = ("ok", repr(w.resolver.resolve_from_url(w.drv["urls"][op[1]])))
    except exceptions.RefResolutionError:
        obs = ("RefResolutionError",)
    except Exception as e:
        obs = ("EXC", type(e).__name__, str(e)[:80])
    obs = obs + (tuple(w.calls[n0:]),)
    return obs, pred


class Model(object):
    def __init__(self, d, cfg):
        self.d, self.cfg = d, cfg
        drv = driver(d)
        ops = [("mode", "fail"), ("mode", "ok")]
        ops += [("validate", i) for i in range(len(drv["instances"]))]
        ops += [("resolve", i) for i in range(len(drv["refs"]))]
        ops += [("resolving", 0), ("resolve_from_url", 0), ("resolve_from_url", 1), ("resolve_from_url", 2)]
        self.all_ops = ops

    def new_world(self):
        return World(self.d, self.cfg)

    def ops(self, w):
        return [op for op in self.all_ops if not (op[0] == "mode" and op[1] == w.mode)]

    def deviation(self, op):
        return 1 if op == ("mode", "fail") else 0

    def apply(self, w, op):
        NET.select(w)
        n_net = len(NET.calls)
        obs, pred = run_op(w, op)
        w.last_pred = pred
        w.net_calls = NET.calls[n_net:]
        return obs

    def outcome_class(self, op, obs):
        return "%s:%s:%d-fetches" % (op[0], obs[0], len(obs[-1]) if isinstance(obs[-1], tuple) else 0)

    def canon(self, w):
        kind = w.cfg[1]
        # what the code can still read: the handler mode, the store's key set, the URL cache's contents (as a
        # set when it is effectively unbounded, in order for lru_cache(1), nothing for pass-through), and for the
        # frugality invariant the per-document fetch counts (capped at 2: the invariant only distinguishes <= 1)
        cache = frozenset(w.m_urlcache) if kind == "default" else (tuple(w.m_urlcache) if kind == "lru1" else ())
        return (w.mode, tuple(sorted(w.resolver.store)), cache,
                tuple(sorted((k, min(n, 2)) for k, n in w.ok_fetches.items())))

    def check(self, w, hist, op, obs):
        cache_remote, kind, transport = w.cfg
        if obs != w.last_pred:
            return ("differs-from-cache-model|%s|%s" % (op[0], "+".join(map(str, w.cfg))),
                    {"observed": obs, "model": w.last_pred})
        if w.net_calls:
            return ("network-touched|" + op[0], {"calls": w.net_calls})
        if obs[0] == "EXC":
            return ("foreign-exception|" + op[0], {"observed": obs})
        for k in w.calls:
            if k.startswith("http://json-schema.org/") or k in (norm(s) for s in STORE):
                return ("handler-called-for-local-document|" + op[0], {"url": k})
        if cache_remote:
            for k, n in w.ok_fetches.items():
                if n > 1:
                    return ("fetched-twice-with-caching-on|" + op[0], {"url": k, "fetches": n})
        else:
            if sorted(w.resolver.store) != w.store_keys0:
                return ("store-grew-with-caching-off|" + op[0], {"store": sorted(w.resolver.store)})
        if not any(self.deviation(o) for o in hist + (op,)) and op[0] != "mode":
            # handler constantly ok: results are independent of the cache configuration
            if obs[0] == "RefResolutionError" and not (op[0] in ("resolve", "resolving") and
                                                        w.drv["refs"][op[1]].endswith("#/nope")):
                return ("failure-without-handler-failure|" + op[0], {"observed": obs})
        return None


def depths(ctx):
    return (3, 4, 2) if ctx.tier == "quick" else (4, 6, 2)


_models = {}


def get_model(d, ci):
    if (d, ci) not in _models:
        _models[(d, ci)] = Model(d, CONFIGS[ci])
    return _models[(d, ci)]


# ---- base URIs and references of every shape x every cache configuration (differential) ----
J_BASES = [None, "urn:example:root", "tag:example.com,2020:root", "mem://docs/root.json", H + "root.json",
           "file:///x/y/root.json", "mailto:a@b", "x-custom:thing", "HTTP://H.INVALID/Root.json", H + "root.json?q=1",
           H, "//h.invalid/x.json", "root.json", "mem:opaque", H + "a/b/../root.json"]
J_REFS = ["#/definitions/a", "#", "", "other.json#/t", "./other.json#/t", "../up.json#/t", "/abs.json#/t",
          "//h2.invalid/n.json#/t", "?q#/t", "mem://docs/other.json#/t", "urn:example:other#/t", "#/t", "other.json"]
J_SUBIDS = [None, "sub/", "urn:example:sub", "mem://docs/sub/x.json", "#frag", "../z.json"]
J_CONFIGS = [(cr, ck) for cr in (True, False) for ck in ("default", "passthrough", "lru1", "lru-unbounded", "dict-memo")]
J_SCHEMES = ["http", "https", "mem", "urn", "tag", "file", "mailto", "x-custom", ""]


def j_doc(url):
    """What every URL serves: a document whose subschemas name the URL they were retrieved from."""
    return {"t": {"enum": ["t of " + url]}, "definitions": {"a": {"enum": ["a of " + url]}}, "enum": ["whole " + url]}


def j_schema(d, base, ref, subid):
    idk = refmodel.IDK[d]
    props = {"p": {"$ref": ref}}
    if subid is not None:
        props["q"] = {idk: subid, "properties": {"r": {"$ref": ref}}}
    S = {"definitions": {"a": {"enum": ["a of the root"]}}, "t": {"enum": ["t of the root"]}, "properties": props}
    if base is not None:
        S[idk] = base
    return S


def j_resolver(d, S, cfg):
    cr, ck = cfg
    cls = _e1.CLS[d]
    handlers = {sch: (lambda uri: j_doc(uri)) for sch in J_SCHEMES}
    kw = {}
    if ck == "passthrough":
        holder = {}
        kw = dict(urljoin_cache=urljoin, remote_cache=lambda url: holder["r"].resolve_from_url(url))
    elif ck in ("lru1", "lru-unbounded"):
        holder = {}
        size = 1 if ck == "lru1" else None
        kw = dict(urljoin_cache=functools.lru_cache(size)(urljoin),
                  remote_cache=functools.lru_cache(size)(lambda url: holder["r"].resolve_from_url(url)))
    elif ck == "dict-memo":
        holder = {}
        memo = {}

        def join(a, b):
            if (a, b) not in memo:
                memo[(a, b)] = urljoin(a, b)
            return memo[(a, b)]
        kw = dict(urljoin_cache=join, remote_cache=lambda url: holder["r"].resolve_from_url(url))
    r = RefResolver.from_schema(S, id_of=cls.ID_OF, handlers=handlers, cache_remote=cr, **kw)
    if kw:
        holder["r"] = r
    return r


def j_observe(d, S, cfg):
    cls = _e1.CLS[d]
    out = []
    try:
        r = j_resolver(d, S, cfg)
        v = cls(S, resolver=r)
    except Exception as e:
        return ("construct", type(e).__name__)
    for x in ({"p": 0, "q": {"r": 0}}, {"q": {"r": 0}, "p": 0}):
        for _ in range(2):          # the second pass meets warm caches
            try:
                out.append(tuple(sorted((e.validator, e.message, tuple(e.absolute_path)) for e in v.iter_errors(x))))
            except exceptions.RefResolutionError:
                out.append("RefResolutionError")
            except Exception as e:
                out.append("EXC " + type(e).__name__)
    return tuple(out)


def run_joins(unit, ctx):
    d, _, shard, n = unit
    NET.install()
    ev = nt = 0
    viol, outcomes, samples = [], {}, []
    try:
        combos = [(b, rf, si) for b in J_BASES for rf in J_REFS for si in J_SUBIDS]
        for i in range(shard, len(combos), n):
            base, ref, subid = combos[i]
            S = j_schema(d, base, ref, subid)
            if not _e1.accepted(d, S):
                continue
            seen = {}
            for cfg in J_CONFIGS:
                ev += 1
                seen[cfg] = j_observe(d, copy.deepcopy(S), cfg)
            ref0 = seen[J_CONFIGS[0]]
            kinds = set("errors" if isinstance(o, tuple) else o for o in (ref0 if isinstance(ref0, tuple) and ref0 and ref0[0] != "construct" else [ref0]))
            for k in kinds:
                outcomes["joins:" + str(k)[:30]] = outcomes.get("joins:" + str(k)[:30], 0) + 1
            nt += len(J_CONFIGS)
            for cfg in J_CONFIGS[1:]:
                if seen[cfg] != ref0:
                    scheme = (base or "").split(":")[0] if base and ":" in base.split("/")[0] else ("none" if base is None else "relative")
                    viol.append({"signature": "C15|cache-configurations-disagree|cache_remote=%s,%s|base-scheme=%s" % (
                        cfg[0], cfg[1], scheme.lower()), "size": len(str(S)),
                                 "case": {"kind": "joins", "draft": d, "schema": S, "configs": [list(J_CONFIGS[0]), list(cfg)]},
                                 "detail": {"default_caches": ref0, "this_configuration": seen[cfg]}})
            if NET.calls:
                viol.append({"signature": "C15|network-touched|joins", "size": len(str(S)),
                             "case": {"kind": "joins", "draft": d, "schema": S, "configs": [list(c) for c in J_CONFIGS]},
                             "detail": {"calls": NET.calls[:4]}})
                del NET.calls[:]
            if not samples:
                samples.append({"kind": "joins", "draft": d, "schema": S, "configs": [list(c) for c in J_CONFIGS]})
    finally:
        NET.uninstall()
    return {"evaluations": ev, "nontrivial": nt, "violations": viol, "samples": samples, "outcomes": outcomes,
            "counters": {"states": ev, "transitions": ev * 4, "traces_validated_against_impl": ev, "join_cases": ev}}


# ---- many documents through one resolver -------------------------------------------------------------------
MANY_N = 300
MANY_BASE = "http://h.invalid/many/"


def many_world(d, cache_remote=True):
    """(validator, fetch counter, supplied-store key): a schema referring to MANY_N handler-served documents, one
    supplied store document, the bundled metaschema and a local definition."""
    cls = _e1.CLS[d]
    props = dict(("p%d" % i, {"$ref": "%s%d.json#/d" % (MANY_BASE, i)}) for i in range(MANY_N))
    props.update(dict(("q%d" % i, {"$ref": "%s%d.json#/e" % (MANY_BASE, i)}) for i in (0, 1, 2, 150)))
    props["s"] = {"$ref": MANY_BASE + "supplied.json#/t"}
    props["m"] = {"$ref": META[d] + "#"}
    props["l"] = {"$ref": "#/definitions/loc"}
    S = {"definitions": {"loc": {"type": "boolean"}}, "properties": props}
    counts = collections.Counter()

    def handler(uri):
        counts[norm(uri)] += 1
        return {"d": {"type": "integer"}, "e": {"type": "string"}}
    r = RefResolver.from_schema(S, id_of=cls.ID_OF, store={MANY_BASE + "supplied.json": {"t": {"type": "null"}}},
                                handlers={"http": handler}, cache_remote=cache_remote)
    return cls(S, resolver=r), counts, S


def many_problems(d):
    """None or (kind, detail).  The big instance touches every document once; the small ones come afterwards."""
    v, counts, S = many_world(d)
    big = dict(("p%d" % i, "x" if i % 50 == 0 else i) for i in range(MANY_N))
    small = [{"q0": 1, "q1": "s", "q150": 2}, {"s": 1, "l": 1, "m": {"type": 12}}, {"p0": "x", "p299": "y", "q2": 0}]

    def errs(val, x):
        try:
            return sorted((e.validator, e.message, tuple(e.absolute_path)) for e in val.iter_errors(x))
        except exceptions.RefResolutionError as e:
            return "RefResolutionError"
        except Exception as e:
            return "EXC " + type(e).__name__
    first = errs(v, big)
    again = errs(v, big)
    if first != again:
        return ("big-instance-differs-when-repeated", {"first": str(first)[:200], "again": str(again)[:200]})
    for x in small:
        got = errs(v, x)
        fresh_v, _, _ = many_world(d)
        want = errs(fresh_v, x)
        if got != want:
            return ("differs-from-a-new-validator-after-%d-documents" % MANY_N, {"instance": x, "got": str(got)[:300], "fresh": str(want)[:300]})
    over = dict((u, c) for u, c in counts.items() if c > 1)
    if over:
        return ("documents-fetched-more-than-once", {"how_many": len(over), "example": sorted(over.items())[:2]})
    if len(counts) != MANY_N:
        return ("unexpected-number-of-retrievals", {"distinct": len(counts)})
    if v.resolver.resolution_scope != "":
        return ("scope-not-restored", {"scope": v.resolver.resolution_scope})
    # caching off: verdicts identical, the store gains nothing
    v2, counts2, _ = many_world(d, cache_remote=False)
    keys0 = set(v2.resolver.store)
    for x in small:
        if errs(v2, x) != errs(many_world(d)[0], x):
            return ("caching-off-differs", {"instance": x})
    if set(v2.resolver.store) != keys0:
        return ("store-gained-entries-with-caching-off", {"gained": len(set(v2.resolver.store) - keys0)})
    return None


def plan(ctx):
    _load_meta()
    drafts = (4, 7) if ctx.tier == "quick" else _e1.DRAFTS
    units = []
    for d in drafts:
        for ci in range(len(CONFIGS)):
            if ctx.tier == "quick" and CONFIGS[ci][2] != "handler" and d != 7:
                continue        # the fallback transports meet one draft in the quick tier
            m = get_model(d, ci)
            units += [(d, ci, i) for i in range(len(m.all_ops))]
    for d in _e1.DRAFTS:
        units += [(d, "joins", i, 6) for i in range(6)]
        units.append((d, "many", 0, 1))
    D0, D1, dev = depths(ctx)
    return {
        "units": units,
        "rule": ("MANY DOCUMENTS: one resolver retrieves 300 distinct documents in one validation, then small instances "
                 "reach early documents under another fragment, a supplied store document, the metaschema and a local "
                 "definition: results as for a new validator, every document fetched once, nothing gained with "
                 "caching off.  JOINS: 15 base URIs (none, urn:, tag:, mem://, opaque, file:, mailto:, upper-case, query, directory, "
                 "scheme-relative, relative, dot segments) x 13 reference spellings x 6 subschema ids x 4 drafts, every "
                 "URL served by a handler with a document that names its URL; each validated twice on two instances "
                 "under 10 cache configurations (cache_remote on/off x default / pass-through / lru_cache(1) / "
                 "unbounded lru / dict memo): all configurations must report the same errors.  HISTORIES: "
                 "a driver schema referring to two handler-served documents through 6 distinct references "
                 "(several fragments, '#', no fragment, upper-case scheme, a document that refers on), one "
                 "store-supplied document and the bundled metaschema; configurations {cache_remote on, off} x "
                 "{default lru, pass-through, lru_cache(1)} with a scheme handler, and x {default, pass-through} with "
                 "the urlopen and the requests fallbacks (no handler; served by recording stubs); operations: validate 4 instances, resolve 9 "
                 "reference spellings, resolving, resolve_from_url, handler fail/ok toggles (failures are "
                 "deviations, bound 2); all histories un-merged to D0, merged by canonical state to D1; every "
                 "transition is compared with the fetch-count/availability model (result and exact handler call "
                 "log) and with the property's invariants; urlopen and requests are replaced by failing recorders"),
        "bounds": {"configs": len(CONFIGS), "ops": len(get_model(drafts[0], 0).all_ops), "unmerged_depth": D0,
                   "merged_depth": D1, "deviation_bound": dev, "drafts": list(drafts), "tier": ctx.tier},
        "assumptions": ["evaluation order of references inside one validation is taken from a traced run of the "
                        "implementation (the thing under test is caching, not evaluation order)"],
    }


def run_unit(unit, ctx):
    _load_meta()
    if unit[1] == "joins":
        return run_joins(unit, ctx)
    if unit[1] == "many":
        NET.install()
        try:
            p = many_problems(unit[0])
            calls = list(NET.calls)
            del NET.calls[:]
        finally:
            NET.uninstall()
        viol = []
        if p is not None:
            viol.append({"signature": "C15|many-documents|" + p[0], "size": MANY_N,
                         "case": {"kind": "many", "draft": unit[0]}, "detail": p[1]})
        if calls:
            viol.append({"signature": "C15|network-touched|many-documents", "size": MANY_N,
                         "case": {"kind": "many", "draft": unit[0]}, "detail": {"calls": calls[:3]}})
        return {"evaluations": MANY_N + 10, "nontrivial": MANY_N + 10, "violations": viol, "samples": [],
                "outcomes": {"many-documents:" + ("ok" if p is None else p[0]): 1},
                "counters": {"states": 8, "transitions": 8, "traces_validated_against_impl": 8, "documents_through_one_resolver": MANY_N}}
    d, ci, first = unit
    m = get_model(d, ci)
    D0, D1, dev = depths(ctx)
    NET.install()
    try:
        r = history.explore(m, [m.all_ops[first]], D0, D1, dev)
    finally:
        NET.uninstall()
    viol = []
    for hist, (sig, detail) in r["violations"]:
        viol.append({"signature": "C15|" + sig, "size": len(hist) * 100 + len(str(hist)),
                     "case": {"draft": d, "config": ci, "history": [list(op) for op in hist]}, "detail": detail})
    nontrivial = sum(v for k, v in r["outcomes"].items() if not k.startswith("mode") and not k.endswith(":0-fetches"))
    return {"evaluations": r["transitions"], "nontrivial": nontrivial, "violations": viol,
            "samples": [dict(s, draft=d, config=list(CONFIGS[ci])) for s in r["samples"][:1]],
            "outcomes": dict(r["outcomes"]),
            "counters": {"states": len(r["states"]), "transitions": r["transitions"],
                         "traces_validated_against_impl": r["transitions"],
                         "unmerged_histories": r["unmerged_histories"], "merged_expansions": r["merged_expansions"],
                         "max_depth": r["max_depth"],
                         "transitions_with_0_deviations": r["by_deviations"].get(0, 0),
                         "transitions_with_1_deviation": r["by_deviations"].get(1, 0),
                         "transitions_with_2_deviations": r["by_deviations"].get(2, 0)}}


def replay(case, ctx):
    _load_meta()
    if case.get("kind") == "many":
        NET.install()
        try:
            p = many_problems(case["draft"])
        finally:
            NET.uninstall()
        return {"reproduced": p is not None, "problem": p}
    if case.get("kind") == "joins":
        NET.install()
        try:
            outs = [j_observe(case["draft"], copy.deepcopy(case["schema"]), tuple(c)) for c in case["configs"]]
        finally:
            NET.uninstall()
        return {"reproduced": len(set(map(repr, outs))) > 1, "observations": outs}
    m = get_model(case["draft"], case["config"])
    hist = tuple(tuple(op) for op in case["history"])
    NET.install()
    try:
        w = history.rebuild(m, hist[:-1])
        obs = m.apply(w, hist[-1])
        bad = m.check(w, hist[:-1], hist[-1], obs)
    finally:
        NET.uninstall()
    return {"reproduced": bad is not None, "observation": obs, "problem": bad}
