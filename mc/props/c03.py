"""C03 — validation is total: accepted schema + JSON instance never crashes or hangs.

Every {keyword: w} over the hostile value universe W (and the sibling-group
products), alone and wrapped one level inside every subschema position, is
filtered through the real check_schema and run against U+ through the four
entry points; the only exceptions that may escape are ValidationError,
RefResolutionError and (Draft 3) UnknownType.
"""
import itertools
import json
import os
import signal
import traceback

import jsonschema
from jsonschema import FormatChecker, exceptions

from mc.enum import jsonvals
from mc.props import _e1
from mc.ref import pointer

ID = "C03"
LEVEL = "exploration"

KW = ["$ref", "additionalItems", "additionalProperties", "allOf", "anyOf", "const", "contains", "dependencies",
      "disallow", "divisibleBy", "enum", "exclusiveMaximum", "exclusiveMinimum", "extends", "format", "if", "then",
      "else", "items", "maxItems", "maxLength", "maxProperties", "maximum", "minItems", "minLength", "minProperties",
      "minimum", "multipleOf", "not", "oneOf", "pattern", "patternProperties", "properties", "propertyNames",
      "required", "type", "uniqueItems", "id", "$id", "definitions", "default", "$schema"]
REFS = ["#", "#/definitions/a", "#/nope", "http://unresolvable.invalid/x", "", "#/definitions/a/b", "http://[",
        "a b", "#/%zz", "#~2", "http://localhost:port/item.json", "file:///nonexistent/verif-x.json", "urn:x:y",
        "mailto:a@b",
        # pointers that walk into array-valued keywords of the enclosing document (empty, negative, padded,
        # past-the-end and well-formed tokens); the wrap positions items/0, allOf/0, anyOf/1, oneOf/0, type/0,
        # disallow/0 and extends/0 put such arrays into the root document
        "#/items/", "#/items//type", "#/items/0", "#/items/-1", "#/items/00", "#/items/1", "#/items/-",
        "#/allOf/", "#/allOf/0/", "#/anyOf/0", "#/anyOf//", "#/anyOf/1/", "#/oneOf/", "#/oneOf/1", "#/type/",
        "#/type/0/", "#/disallow/", "#/extends/", "#/extends/1", "#/properties/x/", "#/enum/", "#//", "#/"]
# a reference to the draft's own bundled metaschema is in the domain (its target is a valid schema of the
# draft); a reference to another draft's metaschema is not (the target is not a schema of this draft)
OWN_META_REFS = {
    3: ["http://json-schema.org/draft-03/schema#"],
    4: ["http://json-schema.org/draft-04/schema#", "http://json-schema.org/draft-04/schema#/definitions/positiveInteger"],
    6: ["http://json-schema.org/draft-06/schema#", "http://json-schema.org/draft-06/schema#/definitions/nonNegativeInteger"],
    7: ["http://json-schema.org/draft-07/schema#", "http://json-schema.org/draft-07/schema"],
}
W = jsonvals.W + ["ipv4", "regex", "date", -0.0, 5e-324, 2 ** 53 + 1, -10 ** 400, "%s", "{0}", ["%d", "{}"], {"%s": {}, "{a}": {}},
                  {"a": {"$ref": "#"}}, [{"$ref": "#"}], {"$ref": "#"}, {"a": {"items": True}}, "^a", "(", "a{99999999999}",
                  "http://["]
GROUPS = [("items", "additionalItems"), ("properties", "additionalProperties"),
          ("patternProperties", "additionalProperties"), ("minimum", "exclusiveMinimum"),
          ("maximum", "exclusiveMaximum"), ("if", "then"), ("if", "else"), ("properties", "required"),
          ("properties", "dependencies"), ("type", "disallow"), ("enum", "uniqueItems")]

HUGE = 10 ** 400


def deep(n):
    x = []
    for _ in range(n):
        x = [x]
    return x


def uplus(tier):
    u = [None, True, False, 0, 1, -1, 1.5, 1.0, 2 ** 53 + 1, HUGE, -HUGE, 1e308, 5e-324, -0.0,
         -int("9" * 400), "", "a", "ab", "\U0001F600", [], [1], [1, 1], [1, "a"], [[], {}], [1, 2, 3],
         {}, {"a": 1}, {"a": 1, "b": 2}, {"b": []}, {"a": {"a": 1}}, {"": 0}, [HUGE, 1.5], {"a": HUGE},
         deep(10), [True, 1, 1.0], {"a": None, "b": "x"},
         # sizes beyond anything a message helper might special-case
         dict(("k%d" % i, i) for i in range(25)), list(range(25)), "a" * 5000,
         # characters that mean something to %-formatting, str.format and reprs
         "100%", "%s %(a)s %d", "{0} {a} {", "\\ ' \" \n", {"50%": 1, "{x}": 2, "%(k)s": 3}, ["%", "{}"]]
    if tier == "thorough":
        u += [dict(("p%d" % i, "v") for i in range(120)), list(range(300)),
              2, 0.5, 3, "é", "aa", [0], ["a", "a"], [None], [{"a": 1}], {"ab": 0, "b": 1}, {"a": [1, "a"]},
              [[1], [True]], 1e-320, float(2 ** 53), {"a": {}, "b": {}, "ab": {}}, deep(12),
              [1, 2, 3, 4, 5, 6, 7, 8, 9, 10]]
    return u


# (name, drafts, wrap schema, wrap instance)
WRAPS = [
    ("id", (3, 4, 6, 7), lambda s: s, lambda x: x),
    ("properties/x", (3, 4, 6, 7), lambda s: {"properties": {"x": s}}, lambda x: {"x": x}),
    ("items", (3, 4, 6, 7), lambda s: {"items": s}, lambda x: [x]),
    ("items/0", (3, 4, 6, 7), lambda s: {"items": [s]}, lambda x: [x]),
    ("additionalProperties", (3, 4, 6, 7), lambda s: {"additionalProperties": s}, lambda x: {"k": x}),
    ("patternProperties/a", (3, 4, 6, 7), lambda s: {"patternProperties": {"a": s}}, lambda x: {"a": x}),
    ("dependencies/x", (3, 4, 6, 7), lambda s: {"dependencies": {"a": s}}, lambda x: x),
    ("additionalItems", (3, 4, 6, 7), lambda s: {"items": [], "additionalItems": s}, lambda x: [x]),
    ("not", (4, 6, 7), lambda s: {"not": s}, lambda x: x),
    ("allOf/0", (4, 6, 7), lambda s: {"allOf": [s]}, lambda x: x),
    ("anyOf/1", (4, 6, 7), lambda s: {"anyOf": [{"type": "null"}, s]}, lambda x: x),
    ("oneOf/0", (4, 6, 7), lambda s: {"oneOf": [s, {"type": "null"}]}, lambda x: x),
    ("contains", (6, 7), lambda s: {"contains": s}, lambda x: [x]),
    ("propertyNames", (6, 7), lambda s: {"propertyNames": s}, lambda x: x),
    ("if", (7,), lambda s: {"if": s, "then": {"type": "null"}}, lambda x: x),
    ("then", (7,), lambda s: {"if": {}, "then": s}, lambda x: x),
    ("else", (7,), lambda s: {"if": {"type": "null"}, "else": s}, lambda x: x),
    ("type/0", (3,), lambda s: {"type": [s]}, lambda x: x),
    ("disallow/0", (3,), lambda s: {"disallow": [s]}, lambda x: x),
    ("extends", (3,), lambda s: {"extends": s}, lambda x: x),
    ("extends/0", (3,), lambda s: {"extends": [s, {}]}, lambda x: x),
    ("definitions+ref", (3, 4, 6, 7), lambda s: {"definitions": {"x": s}, "$ref": "#/definitions/x"}, lambda x: x),
]
QUICK_WRAPS = {"id", "properties/x", "items/0", "additionalProperties", "not", "anyOf/1", "contains", "then",
               "type/0", "extends", "definitions+ref", "dependencies/x"}


U_CYCLIC = [None, 1, "a", [1], {"a": 1}, [[[]]]]


class Hang(Exception):
    pass


def _alarm(signum, frame):
    raise Hang()


_inner = {}


def inner_schemas(d):
    """All accepted {k: w} and sibling-group products for draft d (deduplicated)."""
    if d in _inner:
        return _inner[d]
    cands = []
    for k in KW:
        vals = REFS + OWN_META_REFS[d] if k == "$ref" else W
        cands += [{k: w} for w in vals]
    acc = {}
    for c in cands:
        (k, w), = c.items()
        if ok_schema(d, c):
            acc.setdefault(k, []).append(w)
    out = [{k: w} for k, ws in acc.items() for w in ws]
    known = set(_e1.CLS[d].VALIDATORS) | {"then", "else", "exclusiveMinimum", "exclusiveMaximum", "required"}
    for a, b in GROUPS:
        if a not in known or b not in known:
            continue    # two names the draft does not define: every value is accepted and nothing runs
        was = acc.get(a) or [None]
        wbs = acc.get(b) or W
        for wa, wb in itertools.product(was, wbs):
            s = {b: wb} if wa is None else {a: wa, b: wb}
            if len(s) == 2 and ok_schema(d, s):
                out.append(s)
                out.append({b: wb, a: wa})
    seen, res = set(), []
    for s in out:
        t = json.dumps(s)
        if t not in seen:
            seen.add(t)
            res.append(s)
    _inner[d] = res
    return res


_pairs = {}
PAIR_U = [None, True, 0, HUGE, 1.5, "", "a", [], [1, "a"], [[], {}], {}, {"a": 1}, {"a": 1, "b": 2}, {"": 0}]


def pair_schemas(d):
    """All ordered pairs of accepted hostile singles (at most 5 values per keyword), accepted as a pair."""
    if d not in _pairs:
        per = {}
        for sch in inner_schemas(d):
            if len(sch) == 1 and usable(sch):
                (k, w), = sch.items()
                if k in _e1.CLS[d].VALIDATORS or k in ("then", "else", "exclusiveMinimum", "exclusiveMaximum"):
                    per.setdefault(k, [])
                    if len(per[k]) < 5:
                        per[k].append(w)
        singles = [(k, w) for k, ws in per.items() for w in ws]
        out = []
        for (k1, w1), (k2, w2) in itertools.permutations(singles, 2):
            if k1 != k2:
                out.append({k1: w1, k2: w2})
        _pairs[d] = out
    return _pairs[d]


def ok_schema(d, s):
    try:
        _e1.CLS[d].check_schema(s)
        return True
    except exceptions.SchemaError:
        return False
    except Exception:
        return False    # check_schema crashing is C11's business


def usable(s):
    """Domain of C03: every pattern compiles in `re` and every $ref is a string."""
    import re
    if isinstance(s, dict):
        for k, v in s.items():
            if k == "$ref" and not isinstance(v, str):
                return False
            if k == "pattern" and isinstance(v, str):
                try:
                    re.compile(v)
                except (re.error, OverflowError, RecursionError):
                    return False
            if k == "patternProperties" and isinstance(v, dict):
                for p in v:
                    try:
                        re.compile(p)
                    except (re.error, OverflowError, RecursionError):
                        return False
            if not usable(v):
                return False
    elif isinstance(s, list):
        return all(usable(e) for e in s)
    return True


# ---- classification helpers -------------------------------------------------

def inplace_edges(d, node, root):
    """Subschemas applied to the *same* instance as `node`."""
    if not isinstance(node, dict):
        return []
    if "$ref" in node:
        ref = node["$ref"]
        if isinstance(ref, str) and (ref == "" or ref.startswith("#")):
            try:
                return [pointer.resolve(root, ref[1:] if ref else "")]
            except Exception:
                return []
        return []
    out = []
    for k in ("allOf", "anyOf", "oneOf", "extends", "type", "disallow"):
        v = node.get(k)
        if isinstance(v, list):
            out += [e for e in v if isinstance(e, dict)]
        elif isinstance(v, dict) and k == "extends":
            out.append(v)
    for k in ("not", "if", "then", "else"):
        if isinstance(node.get(k), dict):
            out.append(node[k])
    dep = node.get("dependencies")
    if isinstance(dep, dict):
        out += [e for e in dep.values() if isinstance(e, dict)]
    return out


def all_nodes(s, acc):
    if isinstance(s, dict):
        acc.append(s)
        for v in s.values():
            all_nodes(v, acc)
    elif isinstance(s, list):
        for e in s:
            all_nodes(e, acc)


def has_inplace_cycle(d, root):
    nodes = []
    all_nodes(root, nodes)
    for start in nodes:
        stack, seen = [start], set()
        first = True
        while stack:
            n = stack.pop()
            if n is start and not first:
                return True
            first = False
            if id(n) in seen:
                continue
            seen.add(id(n))
            stack.extend(inplace_edges(d, n, root))
    return False


def site(exc):
    tb = traceback.extract_tb(exc.__traceback__)
    pkg = jsonschema.__file__.rsplit("/", 1)[0]
    name = tb[-1].name if tb else "?"
    for fr in reversed(tb):
        if fr.filename.startswith(pkg):
            name = fr.name
            break
    return name


ENTRY = ("is_valid", "iter_errors", "validate", "module_validate", "iter_errors+FormatChecker")


def cli_entry(d, S, x):
    """The command line as one more entry point (in-process, files in a private scratch directory): whatever the
    instance, it ends with an exit status; the errors it prints go through str.format with the pretty output."""
    import io
    import json as _json
    import shutil
    import tempfile
    from jsonschema import cli
    root = tempfile.mkdtemp(prefix="c03-cli.", dir="/dev/shm" if os.path.isdir("/dev/shm") else None)
    try:
        with open(os.path.join(root, "s.json"), "w") as f:
            _json.dump(S, f)
        with open(os.path.join(root, "i.json"), "w") as f:
            _json.dump(x, f)
        for out in ("plain", "pretty"):
            args = cli.parse_args(["-i", os.path.join(root, "i.json"), "-V", "Draft%dValidator" % d, "--output", out,
                                   os.path.join(root, "s.json")])
            cli.run(args, stdout=io.StringIO(), stderr=io.StringIO())
    finally:
        shutil.rmtree(root, ignore_errors=True)


def render(e, depth=0):
    """A reported error can be shown: str / repr / unicode message / json_path / paths are total too."""
    str(e), repr(e), e.message, e.json_path, list(e.absolute_path), list(e.absolute_schema_path)
    if depth < 3:
        for c in e.context:
            render(c, depth + 1)


def execute(d, S, x, entry):
    cls = _e1.CLS[d]
    if entry == "is_valid":
        cls(S).is_valid(x)
    elif entry == "iter_errors":
        for e in list(cls(S).iter_errors(x)):
            render(e)
    elif entry == "validate":
        try:
            cls(S).validate(x)
        except exceptions.ValidationError as e:
            render(e)
    elif entry == "module_validate":
        try:
            jsonschema.validate(x, S, cls=cls)
        except exceptions.ValidationError as e:
            render(e)
    elif entry == "cli":
        cli_entry(d, S, x)
    else:
        list(cls(S, format_checker=FormatChecker()).iter_errors(x))


def run_one(d, S, x, entry):
    """None if fine, else (kind, detail)."""
    signal.setitimer(signal.ITIMER_REAL, 5.0)
    try:
        execute(d, S, x, entry)
    except exceptions.RefResolutionError:
        return None
    except exceptions.UnknownType:
        if d == 3:
            return None
        return ("UnknownType", "validators.is_type")
    except Hang:
        return ("Hang", "5s")
    except RecursionError as e:
        return ("RecursionError", "in-place-ref-cycle" if has_inplace_cycle(d, S) else "no-in-place-cycle:" + site(e))
    except BaseException as e:
        return (type(e).__name__, site(e))
    finally:
        signal.setitimer(signal.ITIMER_REAL, 0)
    return None


# ---- reuse of one validator object (histories) ------------------------------
ROOT_IDS = [None, "http://h.invalid/root.json"]
SUB_IDS = ["http://[", "//[", "#frag", "sub/", "http://h.invalid/other.json", "urn:x:y", "http://a]b/", "?q", ""]
REUSE_REFS = ["#/definitions/a", "def.json#/x", "#/nope", "#frag", "http://h.invalid/other.json#/definitions/a"]
REUSE_INSTANCES = [{}, {"x": 1}, {"x": {"y": 1}}, {"r": "s"}, {"x": {"y": 1}, "r": "s"}, {"r": 1, "x": 1}]
REUSE_OPS = ("is_valid", "iter_errors", "iter_errors-take1", "validate", "module_validate")


def reuse_schemas(d):
    idk = "id" if d in (3, 4) else "$id"
    out = []
    for rid in ROOT_IDS:
        for sid in SUB_IDS:
            for nest in (False, True):
                for ref in REUSE_REFS:
                    bad = {idk: sid, "type": "string"}
                    if nest:
                        sub = {idk: "http://h.invalid/a/", "properties": {"y": bad}}
                    else:
                        sub = dict(bad, properties={"y": {"type": "string"}})
                    S = {"definitions": {"a": {"type": "integer"}},
                         "properties": {"x": sub, "r": {"$ref": ref}}}
                    if rid:
                        S[idk] = rid
                    out.append(S)
    return out


def reuse_call(v, d, S, op, x):
    if op == "is_valid":
        v.is_valid(x)
    elif op == "iter_errors":
        list(v.iter_errors(x))
    elif op == "iter_errors-take1":
        it = v.iter_errors(x)
        next(it, None)
        del it
    elif op == "validate":
        try:
            v.validate(x)
        except exceptions.ValidationError:
            pass
    else:
        try:
            jsonschema.validate(x, S, cls=_e1.CLS[d])
        except exceptions.ValidationError:
            pass


def run_history(d, S, hist):
    """One validator object, the calls of `hist` in order; None or (index, kind, site) of the first undocumented escape.
    "hold" starts an iteration, takes its first error and keeps the iterator; "resume" finishes the oldest held one."""
    v = _e1.CLS[d](S)
    held = []
    for i, (op, xi) in enumerate(hist):
        signal.setitimer(signal.ITIMER_REAL, 5.0)
        try:
            if op == "hold":
                it = v.iter_errors(REUSE_INSTANCES[xi])
                next(it, None)
                held.append(it)
            elif op == "lend-store":
                # the caller builds a second resolver (for another schema without id) from this resolver's store
                other = {"definitions": {"a": [{"type": "null"}, 1], "nope": 7}, "frag": "text", "items": [{"type": "null"}], "x": 0}
                r2 = jsonschema.RefResolver.from_schema(other, id_of=_e1.CLS[d].ID_OF, store=v.resolver.store)
                r2.resolve("#/x")            # the second resolver is used (never validated with: `other` is no schema)
            elif op == "resume":
                if held:
                    list(held.pop(0))
            else:
                reuse_call(v, d, S, op, REUSE_INSTANCES[xi])
        except exceptions.RefResolutionError:
            pass
        except exceptions.UnknownType:
            if d != 3:
                return (i, "UnknownType", "validators.is_type")
        except Hang:
            return (i, "Hang", "5s")
        except BaseException as e:
            return (i, type(e).__name__, site(e))
        finally:
            signal.setitimer(signal.ITIMER_REAL, 0)
    return None


def run_reuse(unit, ctx):
    d, _, shard, n = unit
    signal.signal(signal.SIGALRM, _alarm)
    schemas_ = [S for S in reuse_schemas(d) if ok_schema(d, S)]
    ops = [(op, xi) for op in REUSE_OPS for xi in range(len(REUSE_INSTANCES))]
    hold_ops = [("hold", xi) for xi in range(len(REUSE_INSTANCES))]
    depth = 3 if ctx.thorough else 2
    ev = nsch = 0
    viol, outcomes, samples = [], {}, []
    for i in range(shard, len(schemas_), n):
        S = schemas_[i]
        nsch += 1
        for L in range(1, depth + 1):
            for hist in itertools.product(ops, repeat=L):
                if L == 3 and hist[0][0] in ("module_validate",):
                    continue        # the module-level function builds its own validator: no state to carry
                ev += 1
                r = run_history(d, S, hist)
                key = "ok" if r is None else r[1]
                outcomes[key] = outcomes.get(key, 0) + 1
                if r is not None:
                    viol.append({"signature": "C03|reuse|%s|%s" % (r[1], r[2]), "size": len(str(S)) + 40 * (r[0] + 1),
                                 "case": {"kind": "reuse", "draft": d, "schema": S,
                                          "history": [[op, REUSE_INSTANCES[xi]] for op, xi in hist[:r[0] + 1]]},
                                 "detail": {"exception": r[1], "where": r[2], "failing_call": r[0]}})
        # an iteration that is started, left suspended while another call runs, finished, and followed by a call
        for h in hold_ops:
            for mid in (ops if ctx.thorough else ops[::3]):
                for last in (ops[::3] if ctx.thorough else ops[::6]):
                    hist = (h, mid, ("resume", 0), last)
                    ev += 1
                    r = run_history(d, S, hist)
                    key = "ok" if r is None else r[1]
                    outcomes[key] = outcomes.get(key, 0) + 1
                    if r is not None:
                        viol.append({"signature": "C03|reuse|suspended-iterator|%s|%s" % (r[1], r[2]), "size": len(str(S)) + 200,
                                     "case": {"kind": "reuse", "draft": d, "schema": S,
                                              "history": [[op, REUSE_INSTANCES[xi]] for op, xi in hist[:r[0] + 1]]},
                                     "detail": {"exception": r[1], "where": r[2], "failing_call": r[0]}})
        # use, lend the store to a second resolver, use again
        for first in (ops[::2] if ctx.thorough else ops[::3]):
            for last in (ops if ctx.thorough else ops[::2]):
                hist = (first, ("lend-store", 3), last)
                ev += 1
                r = run_history(d, S, hist)
                key = "ok" if r is None else r[1]
                outcomes[key] = outcomes.get(key, 0) + 1
                if r is not None:
                    viol.append({"signature": "C03|reuse|store-lent-to-another-resolver|%s|%s" % (r[1], r[2]), "size": len(str(S)) + 150,
                                 "case": {"kind": "reuse", "draft": d, "schema": S,
                                          "history": [[op, REUSE_INSTANCES[xi]] for op, xi in hist[:r[0] + 1]]},
                                 "detail": {"exception": r[1], "where": r[2], "failing_call": r[0]}})
        if not samples:
            samples.append({"kind": "reuse", "draft": d, "schema": S, "history": [[op, REUSE_INSTANCES[xi]] for op, xi in ops[:2]]})
    return {"evaluations": ev, "nontrivial": ev, "violations": viol, "samples": samples, "outcomes": outcomes,
            "counters": {"reuse_schemas_run": nsch, "reuse_histories": ev}}


# ---- several errors at once through every entry point (best_match included) --
MULTI_SUBS = [False, True, {"type": "string"}, {"minimum": 5}, {"required": ["q"]}, {"enum": []}, {"not": {}},
              {"anyOf": [False, {"type": "string"}]}, {"oneOf": [{"type": "integer"}, {"minimum": 0}]},
              {"type": ["string", "null"]}, {"items": False}, {"additionalProperties": False},
              {"const": None}, {"maxLength": 0}, {"format": "ipv4"}, {"dependencies": {"a": ["zz"]}}]
MULTI_INSTANCES = [1, "a", None, [1], {"a": 1}, {}, [], 7.5, [1, "a"], {"a": 1, "b": 2}]
MULTI_POS = [
    ("properties", lambda a, b: {"properties": {"a": a, "b": b}}, lambda x: {"a": x, "b": x}),
    ("items-array", lambda a, b: {"items": [a, b]}, lambda x: [x, x]),
    ("anyOf", lambda a, b: {"anyOf": [a, b]}, lambda x: x),
    ("allOf", lambda a, b: {"allOf": [a, b]}, lambda x: x),
    ("oneOf", lambda a, b: {"oneOf": [a, b]}, lambda x: x),
    ("siblings", lambda a, b: {"items": a, "additionalProperties": b, "not": {"anyOf": [a, b]}}, lambda x: x),
    ("extends", lambda a, b: {"extends": [a, b]}, lambda x: x),
    ("type-union", lambda a, b: {"type": [a, b]}, lambda x: x),
    ("nested-anyOf", lambda a, b: {"properties": {"a": {"anyOf": [a, b]}, "b": b}}, lambda x: {"a": x, "b": x}),
]


def run_multi(unit, ctx):
    d, _, shard, n = unit
    signal.signal(signal.SIGALRM, _alarm)
    ev = nsch = 0
    viol, outcomes, samples = [], {}, []
    combos = [(pn, mk, wi, a, b) for pn, mk, wi in MULTI_POS for a in MULTI_SUBS for b in MULTI_SUBS]
    for i in range(shard, len(combos), n):
        pn, mk, wi, a, b = combos[i]
        S = mk(a, b)
        if not ok_schema(d, S):
            continue
        nsch += 1
        for x0 in (MULTI_INSTANCES if ctx.thorough else MULTI_INSTANCES[:7]):
            x = wi(x0)
            for entry in (ENTRY + ("cli",) if i % (2 if ctx.thorough else 8) == 0 else ENTRY):
                if entry.endswith("FormatChecker") and "format" not in json.dumps(S):
                    continue
                ev += 1
                r = run_one(d, S, x, entry)
                key = "ok" if r is None else r[0]
                outcomes[key] = outcomes.get(key, 0) + 1
                if r is not None:
                    viol.append({"signature": "C03|%s|%s" % r, "size": len(str(S)) + len(str(x)[:50]),
                                 "case": {"draft": d, "schema": S, "instance": x, "entry": entry},
                                 "detail": {"exception": r[0], "where": r[1], "position": "several-errors/" + pn}})
        if not samples:
            samples.append({"draft": d, "schema": S, "instance": wi(MULTI_INSTANCES[0]), "entries": list(ENTRY)})
    return {"evaluations": ev, "nontrivial": ev, "violations": viol, "samples": samples, "outcomes": outcomes,
            "counters": {"multi_error_schemas_run": nsch}}


# ---- deep chains: one applicator nested N times around a leaf (time must stay linear) -------
CHAIN_N = 30
CHAIN_LEAVES = [{"type": "string"}, {"type": "integer"}, {"enum": [0]}, {}]


def chain_cases(d):
    out = []
    for wname, drafts, ws, wi in WRAPS:
        if d not in drafts or wname in ("id", "definitions+ref", "dependencies/x", "propertyNames"):
            continue
        for leaf in CHAIN_LEAVES:
            S, xs = leaf, [1, "s"]
            for _ in range(CHAIN_N):
                S = ws(S)
                xs = [wi(x) for x in xs]
            out.append((wname, S, xs))
    # the same applicator written twice at every level keeps the schema linear in N but doubles the work per level
    if d >= 4:
        for kw in ("allOf", "anyOf", "oneOf"):
            S = {"type": "string"}
            for _ in range(CHAIN_N):
                S = {kw: [S, {"type": "null"}]}
            out.append((kw + "+null", S, [1, "s", None]))
    return out


def run_chains(unit, ctx):
    d, _, shard, n = unit
    signal.signal(signal.SIGALRM, _alarm)
    cases = chain_cases(d)
    ev = 0
    viol, outcomes = [], {}
    for i in range(shard, len(cases), n):
        wname, S, xs = cases[i]
        if not ok_schema(d, S):
            continue
        for x in xs:
            for entry in ("is_valid", "iter_errors", "validate", "module_validate"):
                ev += 1
                r = run_one(d, S, x, entry)
                key = "ok" if r is None else r[0]
                outcomes[key] = outcomes.get(key, 0) + 1
                if r is not None:
                    viol.append({"signature": "C03|deep-chain|%s|%s|%s" % (r[0], r[1], wname), "size": len(str(S)),
                                 "case": {"draft": d, "schema": S, "instance": x, "entry": entry},
                                 "detail": {"exception": r[0], "where": r[1], "position": "%s nested %d times" % (wname, CHAIN_N)}})
    return {"evaluations": ev, "nontrivial": ev, "violations": viol, "samples": [], "outcomes": outcomes,
            "counters": {"deep_chain_executions": ev}}


# ---- a schema object that was accepted, then edited in place by its owner ------------------------
_rejected = {}


def rejected_singles(d):
    """Every {keyword: w} of the hostile alphabet that the draft's check_schema refuses."""
    if d not in _rejected:
        out = []
        for k in KW:
            for w in (REFS + OWN_META_REFS[d] if k == "$ref" else W):
                c = {k: w}
                try:
                    json.dumps(c)
                except Exception:
                    continue
                if not ok_schema(d, c):
                    out.append(c)
        _rejected[d] = out
    return _rejected[d]


INPLACE_U = [None, 1, "a", [1, "a"], {"a": 1}, [], {}, 1.5, [[]], {"a": {"a": 1}}]


def run_inplace(unit, ctx):
    """{} is accepted; its owner then writes a keyword into the same object.  If check_schema (asked again, as
    the property's premise requires) still accepts the object, validation must keep its promise."""
    d, _, shard, n = unit
    signal.signal(signal.SIGALRM, _alarm)
    cls = _e1.CLS[d]
    cands = rejected_singles(d) + [sc for sc in inner_schemas(d) if len(sc) == 1 and usable(sc)][::7]
    ev = accepted_again = 0
    viol, outcomes = [], {}
    for i in range(shard, len(cands), n):
        c = cands[i]
        for first in ({}, {"title": "t"}):
            obj = dict(first)
            if not ok_schema(d, obj):
                continue
            try:
                cls(obj).is_valid(None)
            except Exception:
                pass
            obj.update(json.loads(json.dumps(c)))
            if not ok_schema(d, obj) or not usable(obj):
                outcomes["rejected-after-edit"] = outcomes.get("rejected-after-edit", 0) + 1
                continue
            accepted_again += 1
            for x in INPLACE_U:
                for entry in ("iter_errors", "module_validate"):
                    ev += 1
                    r = run_one(d, obj, x, entry)
                    key = "ok" if r is None else r[0]
                    outcomes[key] = outcomes.get(key, 0) + 1
                    if r is not None and not (r[0] == "RecursionError" and r[1] == "in-place-ref-cycle"):
                        viol.append({"signature": "C03|edited-in-place|%s|%s" % r, "size": len(str(c)),
                                     "case": {"kind": "inplace", "draft": d, "first": first, "then": c, "instance": x,
                                              "entry": entry},
                                     "detail": {"exception": r[0], "where": r[1]}})
    return {"evaluations": ev, "nontrivial": ev, "violations": viol, "samples": [], "outcomes": outcomes,
            "counters": {"inplace_candidates": len(range(shard, len(cands), n)), "inplace_accepted_after_edit": accepted_again}}


def plan(ctx):
    units = []
    sizes = {}
    U = uplus(ctx.tier)
    for d in _e1.DRAFTS:
        inner = [s for s in inner_schemas(d) if usable(s)]
        sizes["inner_d%d" % d] = len(inner)
        wraps = [w for w in WRAPS if d in w[1] and (ctx.thorough or w[0] in QUICK_WRAPS)]
        sizes["wraps_d%d" % d] = len(wraps)
        n = 8 if ctx.tier == "quick" else 16
        for w in wraps:
            for i in range(n if w[0] == "id" else max(1, n // 4)):
                units.append((d, w[0], i, n if w[0] == "id" else max(1, n // 4)))
    if ctx.thorough:
        for d in _e1.DRAFTS:
            sizes["hostile_pairs_d%d" % d] = len(pair_schemas(d))
            units += [(d, "pairs", i, 32) for i in range(32)]
    for d in _e1.DRAFTS:
        sizes["reuse_schemas_d%d" % d] = len(reuse_schemas(d))
        nr = 48 if ctx.thorough else 8
        units += [(d, "reuse", i, nr) for i in range(nr)]
        units += [(d, "multi", i, 4) for i in range(4)]
        units += [(d, "chains", i, 4) for i in range(4)]
        units += [(d, "inplace", i, 4) for i in range(4)]
    sizes["chain_depth"] = CHAIN_N
    for d in _e1.DRAFTS:
        sizes["chains_d%d" % d] = len(chain_cases(d))
    sizes["reuse_ops"] = len(REUSE_OPS) * len(REUSE_INSTANCES)
    sizes["reuse_depth"] = 3 if ctx.thorough else 2
    sizes["multi_error_combinations"] = len(MULTI_POS) * len(MULTI_SUBS) ** 2
    return {
        "units": units,
        "rule": ("(thorough tier also: all ordered pairs of accepted hostile singles, <= 5 values per keyword, "
                 "x 14 instances) every {keyword: w} for every keyword name of any draft and every w in the hostile universe W "
                 "(every $ref from a list of local / dangling / remote / malformed strings), plus sibling-group "
                 "products over W, kept iff the draft's real check_schema accepts it and its regexes compile; "
                 "each alone (through is_valid, list(iter_errors), validate, jsonschema.validate, and iter_errors "
                 "with FormatChecker()) and wrapped at every subschema position (through list(iter_errors)), "
                 "x every instance of U+ (routed into the wrapped position); REUSE: schemas with a root id (or none), a "
                 "subschema id (malformed, fragment-only, relative, absolute; directly or below another id) and a "
                 "$ref sibling, on ONE validator object every sequence of <= depth calls (entry point x instance), "
                 "every call may only end in a documented way (also: an iteration started, left suspended during another "
                 "call, finished, then a further call); SEVERAL ERRORS: every ordered pair of small "
                 "subschemas (false included) in 9 two-slot positions x 10 instances through every entry point "
                 "(best_match sees ties between errors of different origin); DEEP CHAINS: every one-slot applicator "
                 "position nested 30 times around 4 leaves (schema size linear in the depth) x matching instances x 4 "
                 "entry points under the 5 s watchdog (work that doubles per level does not finish); EDITED IN PLACE: an "
                 "accepted schema object ({} / {title}) into which its owner then writes each hostile {keyword: w} "
                 "(those check_schema refuses, and a seventh of those it accepts): check_schema is asked again, and "
                 "whatever it still accepts is validated x 10 instances x 2 entry points; distinct by construction; "
                 "non-trivial = every execution (each is a distinct accepted-schema/instance/entry-point triple)"),
        "bounds": dict(sizes, W=len(W), uplus=len(U), tier=ctx.tier),
        "assumptions": ["watchdog of 5 s per execution stands for 'hangs'",
                        "every error obtained through iter_errors / validate / jsonschema.validate is also rendered "
                        "(str, repr, message, json_path, absolute paths, context recursively): reporting an error "
                        "includes being able to show it",
                        "patterns that do not compile in `re` and non-string $ref are outside the property's domain"],
    }


def run_pairs(unit, ctx):
    d, _, shard, n = unit
    signal.signal(signal.SIGALRM, _alarm)
    ps = pair_schemas(d)
    ev = nsch = 0
    viol, outcomes = [], {}
    for i in range(shard, len(ps), n):
        S = ps[i]
        if not ok_schema(d, S):
            continue
        nsch += 1
        cyc = has_inplace_cycle(d, S)
        for x in (U_CYCLIC if cyc else PAIR_U):
            ev += 1
            r = run_one(d, S, x, "iter_errors")
            key = "ok" if r is None else r[0]
            outcomes[key] = outcomes.get(key, 0) + 1
            if r is not None:
                viol.append({"signature": "C03|%s|%s" % r, "size": len(str(S)) + len(str(x)[:50]),
                             "case": {"draft": d, "schema": S, "instance": x, "entry": "iter_errors"},
                             "detail": {"exception": r[0], "where": r[1], "position": "ordered pair"}})
    return {"evaluations": ev, "nontrivial": ev, "violations": viol, "samples": [], "outcomes": outcomes,
            "counters": {"pair_schemas_run": nsch}}


def run_unit(unit, ctx):
    if unit[1] == "pairs":
        return run_pairs(unit, ctx)
    if unit[1] == "reuse":
        return run_reuse(unit, ctx)
    if unit[1] == "multi":
        return run_multi(unit, ctx)
    if unit[1] == "chains":
        return run_chains(unit, ctx)
    if unit[1] == "inplace":
        return run_inplace(unit, ctx)
    d, wname, shard, n = unit
    signal.signal(signal.SIGALRM, _alarm)
    U = uplus(ctx.tier)
    wrap = [w for w in WRAPS if w[0] == wname][0]
    inner = [s for s in inner_schemas(d) if usable(s)]
    ev = ncyc = 0
    viol, samples, outcomes = [], [], {}
    entries = ENTRY if wname == "id" else ("iter_errors",)
    nsch = 0
    for i in range(shard, len(inner), n):
        S = wrap[2](inner[i])
        if wname != "id" and not ok_schema(d, S):
            continue
        nsch += 1
        cyclic = has_inplace_cycle(d, S)
        if cyclic:
            ncyc += 1
        # a schema with an in-place reference cycle recurses without bound whatever the instance is (known
        # finding F04); it meets one instance per JSON type instead of all of U+ (each costs ~20 ms)
        for x0 in (U_CYCLIC if cyclic else U):
            x = wrap[3](x0)
            for entry in entries:
                if entry.endswith("FormatChecker") and "format" not in inner[i]:
                    continue
                ev += 1
                r = run_one(d, S, x, entry)
                key = "ok" if r is None else r[0]
                outcomes[key] = outcomes.get(key, 0) + 1
                if r is not None:
                    sig = "C03|%s|%s" % r
                    viol.append({"signature": sig, "size": len(str(S)) + len(str(x)[:50]),
                                 "case": {"draft": d, "schema": S, "instance": x, "entry": entry},
                                 "detail": {"exception": r[0], "where": r[1], "inner": inner[i], "position": wname}})
        if len(samples) < 1 and nsch % 61 == 7:
            samples.append({"draft": d, "schema": S, "instance": wrap[3](U[nsch % len(U)]), "entries": list(entries)})
    return {"evaluations": ev, "nontrivial": ev, "violations": viol, "samples": samples, "outcomes": outcomes,
            "counters": {"schemas_run": nsch, "schemas_with_inplace_reference_cycle": ncyc}}


def replay(case, ctx):
    signal.signal(signal.SIGALRM, _alarm)
    if case.get("kind") == "inplace":
        d = case["draft"]
        obj = dict(case["first"])
        ok_schema(d, obj)
        try:
            _e1.CLS[d](obj).is_valid(None)
        except Exception:
            pass
        obj.update(case["then"])
        if not ok_schema(d, obj):
            return {"reproduced": False, "note": "check_schema refuses the edited object"}
        r = run_one(d, obj, case["instance"], case["entry"])
        return {"reproduced": r is not None, "observed": r}
    if case.get("kind") == "reuse":
        d, S = case["draft"], case["schema"]
        v = _e1.CLS[d](S)
        obs = None
        held = []
        for i, (op, x) in enumerate(case["history"]):
            try:
                if op == "hold":
                    it = v.iter_errors(x)
                    next(it, None)
                    held.append(it)
                elif op == "lend-store":
                    other = {"definitions": {"a": [{"type": "null"}, 1], "nope": 7}, "frag": "text", "items": [{"type": "null"}], "x": 0}
                    r2 = jsonschema.RefResolver.from_schema(other, id_of=_e1.CLS[d].ID_OF, store=v.resolver.store)
                    r2.resolve("#/x")
                elif op == "resume":
                    if held:
                        list(held.pop(0))
                else:
                    reuse_call(v, d, S, op, x)
            except exceptions.RefResolutionError:
                pass
            except exceptions.UnknownType:
                if d != 3:
                    obs = (i, "UnknownType")
            except BaseException as e:
                obs = (i, type(e).__name__, site(e))
                break
        return {"reproduced": obs is not None, "observed": obs}
    r = run_one(case["draft"], case["schema"], case["instance"], case["entry"])
    return {"reproduced": r is not None, "observed": r}
