"""C09 — numeric keywords are exact for numbers of any magnitude and never raise.

ALL ordered pairs (instance i, bound-or-divisor b) of the number universe N
(mc/enum/numvals.py) x every numeric keyword form of the draft x 4 drafts:

  drafts 3/4   minimum, maximum, each alone, with exclusive* true (both key
               orders) and with exclusive* false; minimum+maximum on one bound;
               divisibleBy (3) / multipleOf (4)
  drafts 6/7   minimum, maximum, exclusiveMinimum, exclusiveMaximum,
               minimum+maximum, exclusiveMinimum+exclusiveMaximum, minimum+exclusiveMinimum
               and maximum+exclusiveMaximum on one value (both orders, both number types),
               multipleOf

Every schema goes through the real check_schema first (divisors <= 0 are
refused there).  Observation: list(iter_errors(i)) -> set of failing keywords,
or the exception that escaped.  Oracle: mc/ref/numbers.py — exact rationals for
the bounds (all cases); for multipleOf the verdict is compared only inside the
exact sub-domain of the property's quantifier text, outside it only the absence
of exceptions is checked.
"""
import json

from jsonschema import (Draft3Validator, Draft4Validator, Draft6Validator,
                        Draft7Validator, exceptions)

from mc.enum import numvals
from mc.ref import numbers as num

ID = "C09"
LEVEL = "exploration"

CLS = {3: Draft3Validator, 4: Draft4Validator, 6: Draft6Validator, 7: Draft7Validator}
DRAFTS = (3, 4, 6, 7)

_N = {}


def get_N(tier):
    if tier not in _N:
        _N[tier] = numvals.universe(tier)
    return _N[tier]


def other_type(b):
    """The same mathematical value as the other JSON number type where that is exact, else b itself."""
    if isinstance(b, int):
        try:
            f = float(b)
        except OverflowError:
            return b
        return f if num.Fraction(f) == b else b
    return int(b) if b == int(b) else b


def forms(d):
    """[(form name, builder b -> schema)] in a fixed order."""
    out = []
    if d <= 4:
        for lo, ex in (("minimum", "exclusiveMinimum"), ("maximum", "exclusiveMaximum")):
            out.append((lo, lambda b, lo=lo: {lo: b}))
            out.append((lo + "+" + ex + ":true", lambda b, lo=lo, ex=ex: {lo: b, ex: True}))
            out.append((ex + ":true+" + lo, lambda b, lo=lo, ex=ex: {ex: True, lo: b}))
            out.append((lo + "+" + ex + ":false", lambda b, lo=lo, ex=ex: {lo: b, ex: False}))
        out.append(("minimum+maximum", lambda b: {"minimum": b, "maximum": b}))
    else:
        for k in ("minimum", "maximum", "exclusiveMinimum", "exclusiveMaximum"):
            out.append((k, lambda b, k=k: {k: b}))
        out.append(("minimum+maximum", lambda b: {"minimum": b, "maximum": b}))
        out.append(("exclusiveMinimum+exclusiveMaximum", lambda b: {"exclusiveMinimum": b, "exclusiveMaximum": b}))
        # an inclusive and an exclusive bound side by side (numeric keywords in drafts 6/7: each decides alone),
        # on the same value, in both key orders, and with the value written as the other number type
        for lo, ex in (("minimum", "exclusiveMinimum"), ("maximum", "exclusiveMaximum")):
            out.append((lo + "+" + ex, lambda b, lo=lo, ex=ex: {lo: b, ex: b}))
            out.append((ex + "+" + lo, lambda b, lo=lo, ex=ex: {ex: b, lo: b}))
            out.append((lo + "+" + ex + ":other-type", lambda b, lo=lo, ex=ex: {lo: b, ex: other_type(b)}))
            out.append((lo + ":other-type+" + ex, lambda b, lo=lo, ex=ex: {lo: other_type(b), ex: b}))
    m = num.MULT[d]
    out.append((m, lambda b, m=m: {m: b}))
    return out


FORMS = {d: forms(d) for d in DRAFTS}


def plan(ctx):
    N = get_N(ctx.tier)
    chunks = 16 if ctx.tier == "quick" else 40
    units = [(d, c, chunks) for d in DRAFTS for c in range(chunks)]
    nforms = {"d%d" % d: len(FORMS[d]) for d in DRAFTS}
    return {
        "units": units,
        "rule": ("every ordered pair (instance, bound/divisor) of the number universe N (ints and finite floats; "
                 "N is de-duplicated by (type, repr), so 1 / 1.0 and 0.0 / -0.0 are distinct members) x every "
                 "numeric keyword form of the draft x 4 drafts; schemas refused by the real check_schema (divisor "
                 "<= 0) are skipped and counted; each (draft, form, bound, instance) is generated once.  "
                 "Non-trivial = the exact verdict is claimed and compared (all bound forms; multipleOf inside the "
                 "exact sub-domain); multipleOf cases outside it are executed for exception-freedom only and "
                 "counted separately"),
        "bounds": {"N": len(N), "ints": sum(1 for x in N if isinstance(x, int)),
                   "floats": sum(1 for x in N if isinstance(x, float)), "ordered_pairs": len(N) ** 2,
                   "forms_per_draft": nforms, "largest_integer_digits": max(len(str(abs(x))) for x in N
                                                                            if isinstance(x, int)),
                   "tier": ctx.tier},
        "assumptions": ["fractions.Fraction of an int or a finite float is exact",
                        "float multipleOf verdicts are claimed only on the sub-domain transcribed in "
                        "mc/ref/numbers.py claim(); denormal quotients and wide-exponent dyadics are left out "
                        "conservatively"],
    }


# ---------------------------------------------------------------- observation

def accepted(d, S):
    try:
        CLS[d].check_schema(S)
        return True
    except exceptions.SchemaError:
        return False


def schema_is_valid(d, S):
    """What the draft's metaschema says about a C09 schema: bounds are any
    number, exclusive flags booleans (3/4) or numbers (6/7), the divisor is a
    number strictly greater than 0."""
    m = num.MULT[d]
    return not (m in S and not num.Fraction(S[m]) > 0)


def observe(v, i):
    """('ok', frozenset of failing keywords) or ('raise', exception type name)."""
    try:
        return ("ok", frozenset(e.validator for e in v.iter_errors(i)))
    except Exception as e:     # noqa: an escaping exception is the observation
        return ("raise", type(e).__name__)


def kind(x):
    return "int" if isinstance(x, int) else "float"


def magnitude(x):
    a = abs(x)
    if a == 0:
        return "zero"
    if isinstance(x, int):
        if a <= num.B53:
            return "le2^53"
        return "gt2^53" if a <= int(numvals.MAXF) else "gtMAXFLOAT"
    if a < numvals.MINNORM:
        return "subnormal"
    return "le2^53" if a <= num.B53 else "gt2^53"


def relation(i, b):
    fi, fb = num.Fraction(i), num.Fraction(b)
    if fi == fb:
        return "i=b"
    try:
        if float(i) == float(b):
            return "i!=b-but-equal-as-floats"
    except OverflowError:
        pass
    return "i<b" if fi < fb else "i>b"


def judge(d, S, i, got):
    """None, or (signature, detail) for one observation."""
    exp, claimed = num.failing_keywords(d, S, i)
    mult = num.MULT[d] in S
    b = S[num.MULT[d]] if mult else next(v for v in S.values() if v is not True and v is not False)
    if got[0] == "raise":
        if mult:
            site = "%s-instance%s%s-divisor" % (kind(i), "/" if isinstance(b, float) else "%", kind(b))
        else:
            site = "%s|%s-instance,%s-bound" % ("+".join(sorted(S)), kind(i), kind(b))
        return ("C09|%s|%s" % (got[1], site),
                {"raised": got[1], "expected_failing_keywords": sorted(exp), "verdict_claimed": claimed})
    if not claimed or got[1] == exp:
        return None
    says = "accepts" if not got[1] else ("rejects" if not exp else "blames-wrong-keyword")
    if mult:
        where = "%s:%s-instance(%s),%s-divisor(%s)" % (num.claim(i, b), kind(i), magnitude(i), kind(b), magnitude(b))
    else:
        flags = "".join(",%s:%s" % (k, json.dumps(v)) for k, v in sorted(S.items()) if v is True or v is False)
        rel = relation(i, b)
        where = "%s%s|%s" % ("+".join(sorted(k for k, v in S.items() if v is not True and v is not False)),
                             flags, rel)
        if rel == "i!=b-but-equal-as-floats":
            where += "|%s-instance,%s-bound" % (kind(i), kind(b))
    return ("C09|verdict-%s|%s" % (says, where),
            {"observed_failing_keywords": sorted(got[1]), "expected_failing_keywords": sorted(exp)})


def digits(x):
    return len(repr(x))


def short(x):
    return x if digits(x) < 60 else "%s...(%d digits)" % (repr(x)[:24], len(str(abs(x))))


class Bag(object):
    """Keeps the 3 smallest violations per signature, counts all of them.
    The enumeration is simplest-first and a case is two numbers and a form, so
    'smallest' (fewest characters) is the shrunk representative; the signature
    is a function of operand kinds / magnitude classes only, so it is invariant
    under that choice."""

    def __init__(self):
        self.by_sig = {}
        self.total = 0

    def add(self, v):
        self.total += 1
        lst = self.by_sig.setdefault(v["signature"], [])
        lst.append(v)
        lst.sort(key=lambda w: (w["size"], json.dumps(w["case"])))
        del lst[3:]

    def all(self):
        return [v for s in sorted(self.by_sig) for v in self.by_sig[s]]


def run_unit(unit, ctx):
    d, chunk, nchunks = unit
    N = get_N(ctx.tier)
    bag = Bag()
    ev = nt = rejected = nschemas = outside = raised = 0
    outcomes, samples = {}, []
    for ib in range(chunk, len(N), nchunks):
        b = N[ib]
        for fname, build in FORMS[d]:
            S = build(b)
            ok = accepted(d, S)
            should = schema_is_valid(d, S)
            if ok is not should:
                # the metaschemas themselves use minimum / exclusiveMinimum, so a
                # broken comparison shows up here first
                bag.add({"signature": "C09|check_schema-%s|%s" % (
                             "refuses-valid-schema" if should else "accepts-nonpositive-divisor",
                             "+".join(sorted(S))),
                         "size": digits(b) + len(S), "case": {"draft": d, "schema": S, "check_schema": True},
                         "detail": {"check_schema_accepts": ok, "valid_by_metaschema": should}})
            if not (ok and should):
                rejected += 1
                continue
            nschemas += 1
            v = CLS[d](S)
            mult = num.MULT[d] in S
            for i in N:
                got = observe(v, i)
                ev += 1
                exp, claimed = num.failing_keywords(d, S, i)
                if claimed:
                    nt += 1
                else:
                    outside += 1
                if got[0] == "raise":
                    raised += 1
                    oc = "%s:raised" % fname
                elif mult:
                    oc = "%s:%s:%s" % (fname, num.claim(i, b) or "outside-exact-domain",
                                       "multiple" if not exp else "not-multiple")
                else:
                    oc = "%s:%s" % (fname, "valid" if not exp else "fails-" + "+".join(sorted(exp)))
                outcomes[oc] = outcomes.get(oc, 0) + 1
                if got[0] == "raise" or (claimed and got[1] != exp):
                    sig, detail = judge(d, S, i, got)
                    bag.add({"signature": sig, "size": digits(i) + digits(b) + len(S),
                             "case": {"draft": d, "schema": S, "instance": i}, "detail": detail})
                if len(samples) < 2 and (ev % 7919) == 101:
                    samples.append({"draft": d, "schema": {k: short(x) for k, x in S.items()}, "instance": short(i),
                                    "expected_failing_keywords": sorted(exp), "verdict_claimed": claimed})
    return {"evaluations": ev, "nontrivial": nt, "violations": bag.all(), "samples": samples,
            "outcomes": outcomes,
            "counters": {"violating_executions": bag.total, "schemas_accepted": nschemas,
                         "schemas_rejected_by_check_schema": rejected,
                         "multipleOf_outside_exact_domain_exception_freedom_only": outside,
                         "executions_that_raised": raised}}


def replay(case, ctx):
    d, S = case["draft"], case["schema"]
    if case.get("check_schema"):
        ok, should = accepted(d, S), schema_is_valid(d, S)
        return {"reproduced": ok is not should, "check_schema_accepts": ok, "valid_by_metaschema": should}
    i = case["instance"]
    if not accepted(d, S):
        return {"reproduced": False, "note": "schema rejected by check_schema"}
    got = observe(CLS[d](S), i)
    res = judge(d, S, i, got)
    exp, claimed = num.failing_keywords(d, S, i)
    return {"reproduced": res is not None, "signature": res[0] if res else None,
            "observed": [got[0], sorted(got[1]) if got[0] == "ok" else got[1]],
            "expected_failing_keywords": sorted(exp), "verdict_claimed": claimed}
