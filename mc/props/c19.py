"""C19 — CLI: exit status, diagnostics and per-instance processing follow the library.

The command line is a fold over the instance list (state = exit status so far,
position; one transition per instance).  Every instance list up to the bound
is explored for every combination of the other command-line factors, through
``jsonschema.cli.run`` in-process with real files in a private scratch
directory, and the exit-status half again through real ``python -m jsonschema``
processes.  Oracle: mc/ref/cli.py (fold over the library's own iter_errors of
the class the command line has to select).

The alphabet of a file is two-level: what value it holds (for the schema file
also the whole-file values true / false / {} / 12 / null) and what its *text*
looks like around a complete JSON value (empty, white space, trailing data in
four forms, byte order mark, padding) — for the schema file, every instance
file and stdin alike; whether a text loads is json.loads' answer in the model.
"""
import io
import itertools
import json
import locale
import os
import shutil
import subprocess
import sys
import tempfile

import jsonschema
from jsonschema import cli

from mc.ref import cli as model

ID = "C19"
LEVEL = "model_checking"

MARK = "<<{error.message}|{error.instance}>>"

# ---------------------------------------------------------------- alphabet ---
# The schema is chosen so that the selected class is observable both in the
# exit status and in the error list:
#   instance      Draft7 (default)   Draft4        Draft3
#   "valid"       valid              1 error (a)   1 error (a)      (1.0 is an integer only from draft 6 on)
#   "inv1"        1 error (const)    valid         1 error (divisibleBy)
#   "inv3"        3 errors           3 errors      4 errors
S_VALID = {"properties": {"a": {"type": "integer"}, "b": {"type": "string"}, "c": {"maximum": 5},
                          "d": {"const": 1}, "e": {"divisibleBy": 2}}}
S_REF = {"properties": {"a": {"$ref": "defs.json#/definitions/int"}, "b": {"$ref": "defs.json#/definitions/str"},
                        "c": {"maximum": 5}, "d": {"const": 1}, "e": {"divisibleBy": 2}}}
DEFS = {"definitions": {"int": {"type": "integer"}, "str": {"type": "string"}}}
# accepted by the draft 3/4 metaschemas, rejected by draft 6/7 (boolean exclusiveMinimum)
S_D4ONLY = {"properties": {"a": {"type": "integer"}, "c": {"minimum": 3, "exclusiveMinimum": True}}}
S_INVALID = {"type": 12}
# the root carries an id keyword and the references point into the schema itself, in three forms:
# fragment only, relative to the own id, the own id spelt out.  Which keyword is *the* id depends
# on the selected class (`id` for drafts 3/4, `$id` from draft 6 on); under the other classes the
# keyword means nothing and the relative reference is relative to nothing.  The id is a file: URI
# of a directory that does not exist: wherever the library goes looking for it, it fails at once
# and without the network.
OWN_ID = "file:///jsv-c19-no-such-directory/s.json"


def own_id_schema(keyword, dialect=None):
    schema = {keyword: OWN_ID,
              "definitions": {"int": {"type": "integer"}, "str": {"type": "string"}, "max5": {"maximum": 5}},
              "properties": {"a": {"$ref": "#/definitions/int"}, "b": {"$ref": "s.json#/definitions/str"},
                             "c": {"$ref": OWN_ID + "#/definitions/max5"}, "d": {"const": 1}, "e": {"divisibleBy": 2}}}
    if dialect is not None:
        schema["$schema"] = dialect
    return schema


DRAFT4_ID = "http://json-schema.org/draft-04/schema#"

# ---- text shapes: what the characters of a file (or of stdin) look like around a
# complete JSON value.  "x-": the json module does not load the text, "w-": it does
# (verified against json.loads in plan()).  Applied to the schema file, to every
# instance file and to stdin.
BOM = u"\ufeff"
try:        # files are written and read with the interpreter's default text encoding
    BOM.encode(locale.getpreferredencoding(False))
    BOM_OK = True
except (UnicodeError, LookupError):
    BOM_OK = False
SHAPES = ["x-empty", "x-ws", "x-trail", "x-concat", "x-close", "x-two"] + (["x-bom"] if BOM_OK else []) + [
    "w-lead", "w-tail"]
SHAPE_CLASS = {"x-empty": "empty", "x-ws": "empty", "x-trail": "trailing-data", "x-concat": "trailing-data",
               "x-close": "trailing-data", "x-two": "trailing-data", "x-bom": "bom",
               "w-lead": "padding", "w-tail": "padding"}


def shaped(kind, first, second, closer, n):
    """first / second: texts of complete JSON values; closer: a closing bracket; n: a number."""
    return {"x-empty": "", "x-ws": " \n\t\n",
            "x-trail": first + " trailing words %d" % n,
            "x-concat": second + first,
            "x-close": first + closer,
            "x-two": first + "\n" + second,
            "x-bom": BOM + first,
            "w-lead": "\n \t " + first,
            "w-tail": second + " \n\n"}[kind]


# ---- schema-file states
BASE_SCHEMA = ["valid", "missing", "notjson", "invalid", "valid-ref", "d4only"]
# own-id: `id`; own-did: `$id`; own-id-d4: `id` and a draft-04 `$schema` (the only state that declares a dialect)
OWN_ID_SCHEMA = ["own-id", "own-did", "own-id-d4"]
# a file whose whole content is a JSON value that is not a non-empty object: the boolean
# schemas (schemas from draft 6 on, rejected by the draft 3/4 metaschemas), the empty
# schema, and two values that are a schema under no draft
VALUE_SCHEMA = ["true", "false", "obj0", "number", "null"]
SCHEMA_STATES = BASE_SCHEMA + OWN_ID_SCHEMA + VALUE_SCHEMA + SHAPES
SCHEMA_VALUE = {"invalid": S_INVALID, "valid": S_VALID, "valid-ref": S_REF, "d4only": S_D4ONLY,
                "own-id": own_id_schema("id"), "own-did": own_id_schema("$id"),
                "own-id-d4": own_id_schema("id", DRAFT4_ID),
                "true": True, "false": False, "obj0": {}, "number": 12, "null": None}


def schema_text(state):
    state = kind_of(state)
    if state == "notjson":
        return "{not json"
    if state in SCHEMA_VALUE:
        return json.dumps(SCHEMA_VALUE[state])
    t = json.dumps(S_VALID)
    return shaped(state, t, t, "}", 0)


# ---- instance-file / stdin states
BASE_INST = ["valid", "inv1", "inv3", "missing", "notjson", "null"]
INST_STATES = BASE_INST + SHAPES
BASE_STDIN = ["valid", "inv3", "notjson", "null"]
STDIN_STATES = BASE_STDIN + SHAPES
MAXPOS = 4


def inst_value(state, p):
    """Contents are position-specific so that every formatted error names its position."""
    if state == "valid":
        return {"a": 1.0, "b": "x", "c": 3}
    if state == "inv1":
        return {"d": 20 + p, "e": 3 + 2 * p}
    if state == "inv3":
        return {"a": "x%d" % p, "b": 10 + p, "c": 90 + p, "e": 3 + 2 * p}
    if state == "null":
        return None         # the JSON document `null`: loads fine, and is valid here (no keyword applies to it)
    raise KeyError(state)


def inst_text(state, p):
    state = kind_of(state)
    if state == "notjson":
        return "[1, %d," % p
    if state == "x-close":
        return "[1, %d]]" % p
    if state == "x-two":
        return "%d 13" % (20 + p)
    if state == "x-concat":     # the complete value in front is an invalid instance, a valid one follows
        return shaped(state, json.dumps(inst_value("valid", p)), json.dumps(inst_value("inv1", p)), "", p)
    if state in SHAPE_CLASS:    # w-tail: an instance with three errors, then white space
        return shaped(state, json.dumps(inst_value("valid", p)), json.dumps(inst_value("inv3", p)), "", p)
    return json.dumps(inst_value(state, p))


# --error-format: the marker, not given, and formats that look odd or falsy; what has to be
# written is always the same: the format applied to each error, nothing else
ODD_FORMATS = [("", "empty"), ("0", "0"), (" ", "space"), ("no placeholder\n", "no-placeholder"),
               ("[{error.instance}]", "instance-only")]
FORMAT_LABEL = dict(ODD_FORMATS)
MAIN_OUT = 3        # the first three get the full product, the odd formats a stated part of it
OUTFMT = [("plain", MARK), ("plain", None), ("pretty", None)] + [("plain", f) for f, _ in ODD_FORMATS]
ODD_OUT = list(range(MAIN_OUT, len(OUTFMT)))
VALIDATORS = [None, "Draft4Validator", "Draft7Validator", "jsonschema.validators.Draft3Validator"]
BASES = [False, True]
NAMED = {"Draft4Validator": jsonschema.Draft4Validator, "Draft7Validator": jsonschema.Draft7Validator,
         "jsonschema.validators.Draft3Validator": jsonschema.Draft3Validator}


def selector(name):
    """The class the command line has to use for a loaded schema value: the named one,
    else the one for the schema's $schema — draft 4 where the alphabet declares it, and
    where it declares none the latest draft; for a value that is neither an object nor a
    boolean the library's own validator_for is asked (it may have no answer: the model's
    'library raises')."""
    if name is not None:
        return lambda value: NAMED[name]

    def select(value):
        if isinstance(value, dict) and value.get("$schema") == DRAFT4_ID:
            return jsonschema.Draft4Validator
        if isinstance(value, (dict, bool)):
            return jsonschema.Draft7Validator
        return jsonschema.validators.validator_for(value)
    return select


def all_lists(maxlen, kinds=None, stdin=None, minlen=1):
    kinds = INST_STATES if kinds is None else kinds
    stdin = STDIN_STATES if stdin is None else stdin
    out = [{"stdin": s} for s in stdin]
    for n in range(minlen, maxlen + 1):
        out.extend(list(t) for t in itertools.product(kinds, repeat=n))
    return out


def has_shape(lst):
    return any(k in SHAPE_CLASS for k in (lst.values() if isinstance(lst, dict) else lst))


def unit_lists(full_len, base_len):
    """Every list of length 1..full_len over the whole alphabet, every stdin state, and
    the lists of length full_len+1..base_len over the base alphabet."""
    return all_lists(full_len) + all_lists(base_len, BASE_INST, [], full_len + 1)


# -------------------------------------------------------------- file names ---
# A letter of the schema / instance alphabet may carry a *name style*: "inv1@brace-index" is
# the state inv1 in a file whose name contains "{1}".  The styles are characters that mean
# something to str.format, to %-formatting, to repr, to a shell or to an option parser; the
# file's content, and hence what the model demands, does not depend on its name.
def _styles():
    non_ascii = True
    try:
        u"-\xe9\u2713".encode(sys.getfilesystemencoding())
        u"-\xe9\u2713".encode(locale.getpreferredencoding(False))
    except (UnicodeError, LookupError):
        non_ascii = False
    styles = [("brace-index", "%s{1}", "braces"), ("brace-key", "%s{x}", "braces"), ("brace-empty", "%s{}", "braces"),
              ("brace-zero", "%s{0}", "braces"), ("brace-open", "%s{", "braces"), ("brace-close", "%s}", "braces"),
              ("brace-double", "{{%s}}", "braces"), ("brace-body", "%s{body}", "braces"),
              ("brace-error", "%s{error}", "braces"), ("brace-type", "%s{type}{path}", "braces"),
              ("percent-s", "%s%%s", "percent"), ("percent", "%s%%", "percent"), ("percent-key", "%s%%(path)s", "percent"),
              ("space", "%s x y", "space"), ("quote", "%s'q", "quotes"), ("dquote", '%s"q', "quotes"),
              ("quotes", "%s'\"q", "quotes"), ("backslash", "%s\\n", "backslash"),
              ("dash", "-%s-d", "leading-dash"), ("shell", "%s$(x);&*", "shell")]
    if non_ascii:
        styles.append(("non-ascii", u"%s-\xe9\u2713", "non-ascii"))
    return styles


NAME_STYLES = _styles()
STYLE_PATTERN = dict((n, pat) for n, pat, _ in NAME_STYLES)
STYLE_CLASS = dict((n, c) for n, _, c in NAME_STYLES)
STYLED_SCHEMA = ["valid", "missing", "notjson", "invalid"]     # schema states that also come under a styled name


def kind_of(letter):
    return letter.split("@", 1)[0]


def style_of(letter):
    return letter.split("@", 1)[1] if "@" in letter else None


def file_name(stem, letter):
    st = style_of(letter)
    return (stem if st is None else STYLE_PATTERN[st] % stem) + ".json"


def unescaped(text, tokens):
    """The built-in diagnostics may show a path through repr(): where that spells a file name
    differently (backslash, both kinds of quote) the spelling is turned back, so that naming
    a file by its repr counts as mentioning it."""
    for t in tokens:
        r = repr(t)[1:-1]
        if r != t:
            text = text.replace(r, t)
    return text


# --------------------------------------------------------------- workspace ---
class Workspace(object):
    """Private scratch directory with every file of the alphabet; removed on close."""

    def __init__(self):
        base = "/dev/shm" if os.path.isdir("/dev/shm") and os.access("/dev/shm", os.W_OK) else None
        self.dir = os.path.realpath(tempfile.mkdtemp(prefix="jsv-c19-", dir=base))
        for st in SCHEMA_STATES:
            if st != "missing":
                self._w(schema_token(st), schema_text(st))
        os.mkdir(os.path.join(self.dir, "refs"))
        self._w(os.path.join("refs", "defs.json"), json.dumps(DEFS))
        for p in range(MAXPOS):
            for st in INST_STATES:
                if st != "missing":
                    self._w(inst_token(st, p), inst_text(st, p))
        self.base_uri = "file://" + self.dir + "/refs/"
        self.memo = {}      # (schema state, validator, base-uri) -> the model's memo for these factors
        self.roots = {}     # root_case: does this text shape misbehave on its own?
        self.made = set()   # files under styled names, written when a configuration first needs them

    def provide(self, case):
        letters = [(schema_token(case["schema"]), case["schema"], None)]
        if not isinstance(case["list"], dict):
            letters += [(inst_token(l, p), l, p) for p, l in enumerate(case["list"])]
        for name, letter, p in letters:
            if style_of(letter) is not None and kind_of(letter) != "missing" and name not in self.made:
                self._w(name, schema_text(letter) if p is None else inst_text(letter, p))
                self.made.add(name)

    def _w(self, name, text):
        # default text encoding and newline handling: exactly what the command line's open(path) undoes
        with open(os.path.join(self.dir, name), "w") as f:
            f.write(text)

    def close(self):
        shutil.rmtree(self.dir, ignore_errors=True)

    def __enter__(self):
        return self

    def __exit__(self, *a):
        self.close()


def schema_token(state):
    return file_name("S_%s" % kind_of(state), state)


def inst_token(state, p):
    return file_name("p%d_%s" % (p, kind_of(state)), state)


def describe(case):
    """Oracle-side description of the files of a configuration (no file access): the
    characters of each file; whether they load is the model's (the json module's) business."""
    st = case["schema"]
    schema = {"token": schema_token(st)}
    if kind_of(st) == "missing":
        schema["state"] = "missing"
    else:
        schema.update(state="text", text=schema_text(st))
    lst = case["list"]
    if isinstance(lst, dict):
        s = lst["stdin"]
        insts = [{"token": "<stdin>", "state": "text", "text": inst_text(s, 0), "key": ("stdin", s)}]
    else:
        insts = [{"token": inst_token(s, p), "state": "missing", "key": (s, p)} if kind_of(s) == "missing" else
                 {"token": inst_token(s, p), "state": "text", "text": inst_text(s, p), "key": (s, p)}
                 for p, s in enumerate(lst)]
    return schema, insts


def argv_of(case, ws, absolute):
    def path(name):     # a relative name with a leading dash is given the way a user has to give it
        return os.path.join(ws.dir, name) if absolute else ("./" + name if name.startswith("-") else name)
    argv = []
    if not isinstance(case["list"], dict):
        for p, s in enumerate(case["list"]):
            argv += ["-i", path(inst_token(s, p))]
    if case["out"] != "plain":
        argv += ["--output", case["out"]]
    if case["fmt"] is not None:
        argv += ["--error-format", case["fmt"]]
    if case["validator"]:
        argv += ["--validator", case["validator"]]
    if case["base_uri"]:
        argv += ["--base-uri", ws.base_uri]
    argv.append(path(schema_token(case["schema"])))
    return argv


def shown_argv(case, ws):
    """argv for evidence / reports: the scratch directory's random name is not part of the case."""
    return [a.replace(ws.dir, "<scratch>") for a in argv_of(case, ws, False)]


def stdin_text(case):
    lst = case["list"]
    return inst_text(lst["stdin"], 0) if isinstance(lst, dict) else ""


def observe_inproc(case, ws):
    so, se, si = io.StringIO(), io.StringIO(), io.StringIO(stdin_text(case))
    status = raised = None
    try:
        status = cli.run(cli.parse_args(argv_of(case, ws, True)), stdout=so, stderr=se, stdin=si)
    except BaseException as e:       # SystemExit from argparse included
        if isinstance(e, KeyboardInterrupt):
            raise
        raised = type(e).__name__
    return {"status": status, "raised": raised, "stdout": so.getvalue(), "stderr": se.getvalue(),
            "stdin_consumed": si.tell()}


def sub_env(ctx):
    env = dict(os.environ)
    env.update(PYTHONPATH=ctx.repo, PYTHONHASHSEED="0", PYTHONDONTWRITEBYTECODE="1")
    return env


def observe_subproc(case, ws, ctx):
    p = subprocess.run([sys.executable, "-m", "jsonschema"] + argv_of(case, ws, False), cwd=ws.dir,
                       env=sub_env(ctx), input=stdin_text(case), capture_output=True, text=True, timeout=120)
    return {"status": p.returncode, "raised": None, "stdout": p.stdout, "stderr": p.stderr, "stdin_consumed": None}


def expected(case, ws):
    schema, insts = describe(case)
    memo = ws.memo.setdefault((case["schema"], case["validator"], case["base_uri"]), {})
    return model.expect(jsonschema, None, schema, insts, base_uri=ws.base_uri if case["base_uri"] else None,
                        memo=memo, select=selector(case["validator"]))


def tokens_of(case):
    schema, insts = describe(case)
    return [schema["token"]] + [i["token"] for i in insts]


def judge(case, ws, ctx, exp=None):
    """Returns (problem or None, exp, obs)."""
    if exp is None:
        exp = expected(case, ws)
    ws.provide(case)
    obs = observe_subproc(case, ws, ctx) if case["mode"] == "subproc" else observe_inproc(case, ws)
    tokens = tokens_of(case)
    obs["stdout"], obs["stderr"] = unescaped(obs["stdout"], tokens), unescaped(obs["stderr"], tokens)
    prob = model.compare(exp, obs, case["out"], case["fmt"], tokens)
    if prob is None and exp["schema_failure"] is not None and obs["stdin_consumed"]:
        prob = ("schema-failure-instance-processed", {"stdin_consumed": obs["stdin_consumed"]})
    return prob, exp, obs


def family(kind):
    """Failure families: shrinking may move between kinds of one family (the same
    misbehaviour looks different under another output mode), never across families."""
    if kind.startswith("exception-"):
        return kind
    for f in ("status", "stdout", "schema-failure"):
        if kind.startswith(f):
            return f
    return "stderr"


_fold_tables = {}


def fold_table(ws, schema, validator, base_uri, stdin):
    """coarse expected fold -> simplest instance list producing it under these factors."""
    key = (ws.dir, schema, validator, base_uri, stdin)
    t = _fold_tables.get(key)
    if t is None:
        if len(_fold_tables) > 200:
            _fold_tables.clear()
        t = _fold_tables[key] = {}
        for l in all_lists(3, BASE_INST, BASE_STDIN):
            if isinstance(l, dict) != stdin:
                continue
            c = dict(schema=schema, list=l, validator=validator, base_uri=base_uri)
            t.setdefault(model.coarse(expected(c, ws)), l)
    return t


def root_case(case, ws, ctx):
    """Loading a file does not depend on anything else on the command line.  When a text
    shape is involved and that shape alone — as the only instance (or stdin) of the plainest
    configuration, or as the schema file in front of one valid instance — already
    misbehaves, that configuration is the report, whatever family its failure is in
    (the same mis-loaded file shows as a wrong status here and as wrong output there)."""
    stdin = isinstance(case["list"], dict)
    cands = []
    if case["schema"] in SHAPE_CLASS:
        cands.append(dict(schema=case["schema"], list=["valid"]))
        if stdin:
            cands.append(dict(schema=case["schema"], list={"stdin": "valid"}))
    for k in (case["list"].values() if stdin else case["list"]):
        if k in SHAPE_CLASS:
            cands.append(dict(schema="valid", list=[k]))    # a file first: stdin is named only when it takes stdin
            if stdin:
                cands.append(dict(schema="valid", list={"stdin": k}))
    for c in cands:
        c.update(out="plain", fmt=MARK)
    # the same for a file name: what a name does to the command line does not depend on the rest either
    # (but on the output mode, which is kept); one file under that name, in the order invalid, missing,
    # unparsable, valid instance, then as the schema file
    styles = []
    for k in [case["schema"]] + ([] if stdin else list(case["list"])):
        if style_of(k) and style_of(k) not in styles:
            styles.append(style_of(k))
    for st in styles:
        named = [dict(schema="valid", list=["%s@%s" % (k, st)]) for k in ("inv1", "missing", "notjson", "valid")]
        named += [dict(schema="%s@%s" % (k, st), list=["valid"]) for k in ("notjson", "missing", "invalid", "valid")]
        for c in named:
            c.update(out=case["out"], fmt=case["fmt"])
        cands += named
    for c in cands:
        c.update(mode=case["mode"], validator=None, base_uri=False)
        key = json.dumps([c["mode"], c["schema"], c["list"], c["out"], c["fmt"]])
        if key not in ws.roots:
            ws.roots[key] = judge(c, ws, ctx)[0] is not None
        if ws.roots[key]:
            return c
    return None


def shrink(case, kind, ws, ctx):
    """Greedy, inside the enumerated space: delete list elements, then move to the
    simplest factor values (re-choosing the list so that the expected fold stays the
    same — the same file is valid under one class and invalid under another), while
    a failure of the same family persists.  Returns (case, loose): loose = the result
    may fail in another family than the original did — the case is a text shape on its
    own (root_case), or a failure seen through a real process was shrunk in-process, where
    the same misbehaviour can look different (an escaping exception there is a traceback
    and a status here)."""
    root = root_case(case, ws, ctx)
    if root is not None:
        return root, True
    fam = family(kind)
    # a failure seen through a real process is shrunk in-process when the configuration fails
    # there too (200 ms per subprocess); the caller re-judges the result in the original mode
    via, loose = case["mode"], False
    if via == "subproc":
        prob, _, _ = judge(dict(case, mode="inproc"), ws, ctx)
        if prob is not None:
            via, loose, fam = "inproc", family(prob[0]) != fam, family(prob[0])
    memo = {}

    def still(c):
        k = json.dumps([c[x] for x in ("schema", "list", "out", "fmt", "validator", "base_uri")])
        if k not in memo:
            prob, _, _ = judge(dict(c, mode=via), ws, ctx)
            memo[k] = prob is not None and family(prob[0]) == fam
        return memo[k]

    def deletions(cur):
        if isinstance(cur["list"], dict):
            return cur
        changed = True
        while changed and len(cur["list"]) > 1:
            changed = False
            for i in range(len(cur["list"])):
                cand = dict(cur, list=cur["list"][:i] + cur["list"][i + 1:])
                if still(cand):
                    cur, changed = cand, True
                    break
        return cur

    def factors(cur):
        fold = model.coarse(expected(cur, ws))
        sch = cur["schema"]
        schemas = SIMPLER_SCHEMA.get(kind_of(sch), []) + ([kind_of(sch)] if style_of(sch) else []) + [sch]
        vals = [v for v in (None, "Draft7Validator", "Draft4Validator") if v != cur["validator"]] + [cur["validator"]]
        bases = [False, True] if cur["base_uri"] else [False]
        cands = [(s, v, b) for s in schemas for v in vals for b in bases]
        cands.sort(key=lambda t: ((t[0] != "valid") + (t[1] is not None) + t[2],
                                  schemas.index(t[0]), vals.index(t[1]), t[2]))
        for s, v, b in cands:
            if (s, v, b) == (cur["schema"], cur["validator"], cur["base_uri"]):
                break
            lists = [cur["list"]]
            alt = fold_table(ws, s, v, b, isinstance(cur["list"], dict)).get(fold)
            if alt is not None and alt != cur["list"]:
                lists.append(alt)
            for l in lists:
                cand = dict(cur, schema=s, validator=v, base_uri=b, list=l)
                if still(cand):
                    return cand
        return cur

    def plainer(cur):
        """A text shape is replaced by the base state with the same model outcome, else by
        the first shape of its class, where the failure persists."""
        if isinstance(cur["list"], dict):       # stdin stays only where a file does not fail
            cand = dict(cur, list=[cur["list"]["stdin"]])
            if still(cand):
                cur = cand
        lst = cur["list"]
        elems = [lst["stdin"]] if isinstance(lst, dict) else list(lst)
        for i, k in enumerate(elems):
            for alt in ([kind_of(k)] if style_of(k) else SIMPLER_INST.get(k, [])):    # a plain name first
                if isinstance(lst, dict) and alt not in STDIN_STATES:
                    continue
                new = elems[:i] + [alt] + elems[i + 1:]
                cand = dict(cur, list={"stdin": alt} if isinstance(lst, dict) else new)
                if still(cand):
                    cur, elems = cand, new
                    break
        return cur

    cur = plainer(deletions(dict(case)))
    if via == "inproc":
        cur = factors(cur)
        if (cur["out"], cur["fmt"]) != ("plain", MARK):
            cand = dict(cur, out="plain", fmt=MARK)
            if still(cand):
                cur = cand
        cur = deletions(cur)
    return cur, loose


SIMPLER_SCHEMA = {"own-id": ["valid"], "own-did": ["valid"], "own-id-d4": ["valid", "own-id"],
                  "valid-ref": ["valid"], "d4only": ["valid"], "true": ["valid"], "false": ["valid", "true"],
                  "obj0": ["valid", "true"], "w-lead": ["valid"], "w-tail": ["valid"],
                  "number": ["invalid"], "null": ["invalid", "number"],
                  "x-empty": ["notjson"], "x-ws": ["notjson", "x-empty"], "x-trail": ["notjson"],
                  "x-concat": ["notjson", "x-trail"], "x-close": ["notjson", "x-trail"],
                  "x-two": ["notjson", "x-trail"], "x-bom": ["notjson"]}
SIMPLER_INST = {"x-empty": ["notjson"], "x-ws": ["notjson", "x-empty"], "x-trail": ["notjson"],
                "x-concat": ["notjson", "x-trail"], "x-close": ["notjson", "x-trail"],
                "x-two": ["notjson", "x-trail"], "x-bom": ["notjson"], "w-lead": ["valid"], "w-tail": ["inv3"]}


def signature(case, kind, exp):
    extra = ""
    if case["schema"] in SHAPE_CLASS:
        extra += "|schema-text=" + SHAPE_CLASS[case["schema"]]
    elif kind_of(case["schema"]) not in ("valid", "missing", "notjson", "invalid"):
        extra += "|schema=" + case["schema"]
    lst = case["list"]
    if style_of(case["schema"]):
        extra += "|schema-name=" + STYLE_CLASS[style_of(case["schema"])]
    names = sorted(set(STYLE_CLASS[style_of(k)] for k in ([] if isinstance(lst, dict) else lst) if style_of(k)))
    if names:
        extra += "|name=" + "+".join(names)
    shapes = sorted(set(SHAPE_CLASS[k] for k in (lst.values() if isinstance(lst, dict) else lst) if k in SHAPE_CLASS))
    if shapes:
        extra += "|text=" + "+".join(shapes)
    if case["validator"]:
        extra += "|validator=" + case["validator"].rsplit(".", 1)[-1]
    if case["base_uri"]:
        extra += "|base-uri"
    if (case["out"], case["fmt"]) != ("plain", MARK):
        extra += "|" + case["out"] + ("" if case["fmt"] is None else "+format=" + FORMAT_LABEL.get(case["fmt"], "other"))
    if isinstance(case["list"], dict):
        extra += "|stdin"
    return "C19|%s|%s|fold=%s%s" % (case["mode"], kind, model.coarse(exp), extra)


# ------------------------------------------------------------------- plan ---
def as_row(lst):
    return ("stdin", lst["stdin"]) if isinstance(lst, dict) else tuple(lst)


def as_list(row):
    return {"stdin": row[1]} if row[0] == "stdin" else list(row)


def schema_outcome(state, validator):
    """What the model says about a schema-file state under a --validator option:
    accepted | rejected | unreadable | library-raises."""
    schema, _ = describe(dict(schema=state, list=[]))
    failure = model._schema_step(jsonschema, None, schema, selector(validator))[0]
    return "accepted" if failure is None else {"diag": "unreadable", "err": "rejected", "crash": "library-raises"}[failure[0]]


def accepting():
    """schema state index -> the --validator option indices under which the model runs the instance fold."""
    acc = {}
    for j, st in enumerate(SCHEMA_STATES):
        vs = [v for v in range(len(VALIDATORS)) if schema_outcome(st, VALIDATORS[v]) == "accepted"]
        if vs:
            acc[j] = vs
    return acc


def alphabet_check():
    """The alphabet means what its names say (otherwise the exploration would be vacuous)."""
    def loads(text):
        try:
            json.loads(text)
        except ValueError:
            return False
        return True
    for k in SHAPES:
        want = k.startswith("w-")
        texts = [schema_text(k)] + [inst_text(k, p) for p in range(MAXPOS)]
        if any(loads(t) != want for t in texts):
            raise RuntimeError("text shape %s: json.loads does not %s it" % (k, "load" if want else "reject"))
    for k in ("valid", "inv1", "inv3", "null"):
        if not all(loads(inst_text(k, p)) for p in range(MAXPOS)):
            raise RuntimeError("instance state %s does not load" % k)
    if loads(schema_text("notjson")) or any(loads(inst_text("notjson", p)) for p in range(MAXPOS)):
        raise RuntimeError("the not-JSON state loads")
    want = {("true", None): "accepted", ("false", None): "accepted", ("obj0", None): "accepted",
            ("true", "Draft4Validator"): "rejected", ("false", "Draft4Validator"): "rejected",
            ("false", "jsonschema.validators.Draft3Validator"): "rejected", ("false", "Draft7Validator"): "accepted",
            ("obj0", "Draft4Validator"): "accepted", ("w-lead", None): "accepted", ("w-tail", None): "accepted",
            ("d4only", None): "rejected", ("d4only", "Draft4Validator"): "accepted",
            ("number", "Draft4Validator"): "rejected", ("null", "Draft7Validator"): "rejected"}
    for (st, v), w in sorted(want.items(), key=repr):
        if schema_outcome(st, v) != w:
            raise RuntimeError("schema state %s under --validator %s: the library says %s, the alphabet assumes %s"
                               % (st, v, schema_outcome(st, v), w))
    # the id keyword of the selected class makes the schema's references into itself resolvable; the
    # other class's keyword does not (the relative reference is then relative to nothing)

    class NoFiles(object):
        memo, base_uri = {}, None
    d4, d3 = "Draft4Validator", "jsonschema.validators.Draft3Validator"
    for st, v, w in (("own-id", d4, "errs"), ("own-id", d3, "errs"), ("own-id", None, "crash"),
                     ("own-id", "Draft7Validator", "crash"), ("own-did", None, "errs"), ("own-did", "Draft7Validator", "errs"),
                     ("own-did", d4, "crash"), ("own-id-d4", None, "errs"), ("own-id-d4", d4, "errs"),
                     ("own-id-d4", "Draft7Validator", "crash")):
        exp = expected(dict(schema=st, list=["inv3"], validator=v, base_uri=False), NoFiles)
        got = exp["items"][0][0] if exp["items"] else model.coarse(exp)
        if got != w:
            raise RuntimeError("schema state %s under --validator %s: the library gives %s on an invalid instance, "
                               "the alphabet assumes %s" % (st, v, got, w))
    tokens = [schema_token(st) for st in SCHEMA_STATES] + [inst_token(st, p) for st in INST_STATES
                                                           for p in range(MAXPOS)] + ["<stdin>"]
    for style, _, _ in NAME_STYLES:
        tokens += [schema_token("%s@%s" % (st, style)) for st in STYLED_SCHEMA]
        tokens += [inst_token("%s@%s" % (st, style), p) for st in BASE_INST for p in range(MAXPOS)]
    if len(set(tokens)) != len(tokens):
        raise RuntimeError("two files of the alphabet have the same name")
    for x in tokens:
        for y in tokens:
            if x != y and x in y:
                raise RuntimeError("file token %s is part of %s" % (x, y))


def covering_rows(rows_of_lists, schema_idx):
    """Covering array of strength 2 over (list, schema in schema_idx, outfmt, validator, base-uri):
    every (list, schema) pair with the other factors rotated, then completed greedily and verified."""
    dims = [rows_of_lists, schema_idx, range(len(OUTFMT)), range(len(VALIDATORS)), range(len(BASES))]
    rows = []
    for n, l in enumerate(rows_of_lists):
        for m, j in enumerate(schema_idx):
            rows.append((l, j, (n + m) % len(OUTFMT), (n // 3 + m) % 4, (n // 12 + m // 3 + m) % 2))
    covered = set()

    def pairs(r):
        return [(a, r[a], b, r[b]) for a in range(5) for b in range(a + 1, 5)]

    for r in rows:
        covered.update(pairs(r))
    filled = 0
    for a in range(5):
        for b in range(a + 1, 5):
            for x in dims[a]:
                for y in dims[b]:
                    if (a, x, b, y) not in covered:
                        filled += 1
                        r = [rows_of_lists[0], schema_idx[0], 0, 0, 0]
                        r[a], r[b] = x, y
                        rows.append(tuple(r))
                        covered.update(pairs(tuple(r)))
    return rows, filled


def rotated(lists, acc, schemas, per_list, outs=None):
    """Every list with every schema of `schemas` (per_list = 'all') or with one of them in turn
    (per_list = 'one'), each time under one output mode of `outs` and one accepting (validator, base-uri)
    pair: the output mode advances with the list's content and the schema, and the pair whose (position,
    state, schema, output mode) combinations have been used least so far is taken (first such on ties)
    — deterministic."""
    outs = list(range(len(OUTFMT))) if outs is None else outs
    rows, used = [], {}
    for n, l in enumerate(lists):
        js = list(enumerate(schemas)) if per_list == "all" else [(n % len(schemas), schemas[n % len(schemas)])]
        ks = [INST_STATES.index(k) for k in l]
        for m, j in js:
            o = outs[(sum(ks) + m + (n if per_list == "one" else 0)) % len(outs)]
            best = min(((v, b) for v in acc[j] for b in range(len(BASES))),
                       key=lambda t: (sum(used.get((pos, k, j, o) + t, 0) for pos, k in enumerate(ks)), t))
            for pos, k in enumerate(ks):
                used[(pos, k, j, o) + best] = used.get((pos, k, j, o) + best, 0) + 1
            rows.append((l, j, o) + best)
    return rows


def rotation_coverage(rows, acc, schemas, outs, pairs=True):
    """Verified, not assumed: every (position, state at that position, schema, output mode[, accepting
    (validator, base-uri) pair]) occurs, and every list is run under every output mode of `outs`."""
    seen, met, slots = set(), {}, set()
    for r in rows:
        for pos, k in enumerate(r[0]):
            slots.add((pos, k))
            seen.add((pos, k, r[1]) + (r[2:] if pairs else r[2:3]))
        met.setdefault(r[0], set()).add(r[2])
    want = set((pos, k, j, o) + ((v, b) if pairs else ())
               for pos, k in slots for j in schemas for o in outs
               for v in (acc[j] if pairs else [0]) for b in (range(len(BASES)) if pairs else [0]))
    return (want <= seen and all(len(v) == len(outs) for v in met.values())
            and len(set(rows)) == len(rows))


def name_rows(style, o, maxlen):
    """The file-name dimension for one style and one output mode (no --validator, no --base-uri):
    every list of length 1..maxlen over {base instance states} x {plain name, styled name} — with the
    valid schema under its plain name the lists that contain a styled name, with the valid schema
    under the styled name all of them plus stdin; and the schema states that stop the model (missing,
    not JSON, invalid) under the styled name with every single file and stdin."""
    letters = BASE_INST + ["%s@%s" % (k, style) for k in BASE_INST]
    lists = [as_row(l) for l in all_lists(maxlen, letters, [])]
    stdin = [as_row(l) for l in all_lists(0, [], ["valid", "inv3"])]
    rows = [(l, "valid", o, 0, 0) for l in lists if any(style_of(k) for k in l)]
    rows += [(l, "valid@" + style, o, 0, 0) for l in lists + stdin]
    for st in STYLED_SCHEMA:
        if st != "valid":
            rows += [(l, "%s@%s" % (st, style), o, 0, 0) for l in lists + stdin[:1] if l[0] == "stdin" or len(l) == 1]
    return rows


def name_subprocess_rows():
    """Per style six configurations through a real process (argv, file system and stream encodings
    are real there), output modes rotated so that every (style, main output mode) pair occurs twice."""
    rows = []
    for n, (style, _, _) in enumerate(NAME_STYLES):
        def at(k):
            return "%s@%s" % (k, style)
        cfgs = [((at("inv1"),), "valid"), ((at("missing"), "valid"), "valid"), ((at("notjson"), at("valid")), "valid"),
                (("inv3",), at("valid")), (("valid",), at("notjson")), ((at("valid"),), at("invalid"))]
        for i, (l, sch) in enumerate(cfgs):
            rows.append((l, sch, (i + n) % MAIN_OUT, 0, 0))
    return rows


def subprocess_rows(thorough, acc):
    every = list(range(len(SCHEMA_STATES)))
    base = [SCHEMA_STATES.index(x) for x in BASE_SCHEMA]
    foldable = sorted(acc)
    stops = [j for j in every if j not in acc]
    single = [as_row(l) for l in all_lists(1)]                           # one file or stdin, whole alphabet
    single_base = [as_row(l) for l in all_lists(1, BASE_INST, BASE_STDIN)]
    single_shape = [l for l in single if l not in single_base]
    pairs_base = [as_row(l) for l in all_lists(2, BASE_INST, [], 2)]
    triples_base = [as_row(l) for l in all_lists(3, BASE_INST, [], 3)]
    what = ("schema states the model accepts under some --validator ('fold runs'), the other schema states ('stops')")
    if thorough:
        pairs_shape = [as_row(l) for l in all_lists(2, None, [], 2) if has_shape(l)]
        rows = [(l, s, o, v, b) for lists, schemas in ((single, foldable), (single_base, stops))
                for l in lists for s in schemas
                for o in range(MAIN_OUT) for v in range(len(VALIDATORS)) for b in range(len(BASES))]
        filled = 0
        for lists, schemas in ((single, every), (pairs_base, every), (pairs_shape, foldable), (triples_base, base)):
            more, f = covering_rows(lists, schemas)
            rows += more
            filled += f
        text = ("%s: the full product (main output modes) for one file / stdin over the whole alphabet x 'fold runs' and "
                "for one file / stdin over the base alphabet x 'stops'; strength-2 covering arrays over the five factors, "
                "all output modes (every (list, schema) pair, other factors rotated, %d rows added to complete them) for "
                "one file / stdin over the whole alphabet x every schema state, "
                "the pairs over the base alphabet x every schema state, the pairs containing a text shape x 'fold runs', "
                "the triples over the base alphabet x base schema states" % (what, filled))
    else:
        rows, f1 = covering_rows(single, foldable)
        more, f2 = covering_rows(single_base, stops)
        rows += more
        more, f3 = covering_rows(pairs_base, base)
        rows += more
        for n, l in enumerate(single_shape):
            for t in range(2):
                m = 2 * n + t
                rows.append((l, stops[m % len(stops)], m % len(OUTFMT), (m // 3) % 4, (m // 2) % 2))
        rows += rotated(triples_base, acc, foldable, "one")
        text = ("%s: strength-2 covering arrays over the five factors, all output modes (every (list, schema) pair, other "
                "factors rotated; "
                "coverage of all factor-value pairs verified, %d rows added to complete them) for one file / stdin "
                "over the whole alphabet x 'fold runs', one file / stdin over the base alphabet x 'stops', the pairs over "
                "the base alphabet x base schema states; every file / stdin text shape on two of the 'stops' states; "
                "every triple over the base alphabet once on a 'fold runs' state and accepting factors (rotated)"
                % (what, f1 + f2 + f3))
    return sorted(set(rows), key=repr), text


def plan(ctx):
    full_len, base_len = (3, 4) if ctx.thorough else (2, 3)
    alphabet_check()
    acc = accepting()
    foldable = sorted(acc)
    # the subprocesses must import the tree under test
    out = subprocess.run([sys.executable, "-c", "import jsonschema,os;print(os.path.realpath(jsonschema.__file__))"],
                         cwd="/", env=sub_env(ctx), capture_output=True, text=True, timeout=120)
    if not out.stdout.strip().startswith(os.path.realpath(ctx.repo) + os.sep):
        raise RuntimeError("subprocess imports jsonschema from %r, not from %s" % (out.stdout, ctx.repo))
    units = []
    for s in range(len(SCHEMA_STATES)):
        for o in range(MAIN_OUT):
            for v in range(len(VALIDATORS)):
                for b in range(len(BASES)):
                    units.append(("inproc", full_len, base_len, s, o, v, b))
    per_unit = len(unit_lists(full_len, base_len))
    inproc_cfgs = per_unit * len(SCHEMA_STATES) * MAIN_OUT * len(VALIDATORS) * len(BASES)
    # the odd error formats: full product with the short lists ...
    odd_lists = [as_row(l) for l in all_lists(full_len - 1)]
    for s in range(len(SCHEMA_STATES)):
        for o in ODD_OUT:
            units.append(("inproc-rows", tuple((l, s, o, v, b) for l in odd_lists for v in range(len(VALIDATORS))
                                               for b in range(len(BASES)))))
    odd_cfgs = len(odd_lists) * len(SCHEMA_STATES) * len(ODD_OUT) * len(VALIDATORS) * len(BASES)
    # ... and the longer lists x every schema state on which the fold runs, formats rotated
    if ctx.thorough:
        odd_long = [as_row(l) for l in all_lists(3, None, [], 3)]
    else:
        odd_long = [as_row(l) for l in all_lists(2, None, [], 2) + all_lists(3, BASE_INST, [], 3)]
    odd_rows = rotated(odd_long, acc, foldable, "all", ODD_OUT)
    if not rotation_coverage(odd_rows, acc, foldable, ODD_OUT, pairs=False):
        raise RuntimeError("rotation of the odd formats does not cover what the rule states")
    rot_rows = []
    if not ctx.thorough:
        # length 3 with at least one text shape: every list x every schema state on which the fold runs
        triples_shape = [as_row(l) for l in all_lists(3, None, [], 3) if has_shape(l)]
        rot_rows = rotated(triples_shape, acc, foldable, "all")
        if not rotation_coverage(rot_rows, acc, foldable, range(len(OUTFMT))):
            raise RuntimeError("rotation does not cover what the rule states")
    for j in foldable:
        mine = [r for r in rot_rows + odd_rows if r[1] == j]
        n = (len(mine) + 599) // 600
        for c in range(n):
            units.append(("inproc-rows", tuple(mine[c::n])))
    # the file-name dimension
    name_len = 3 if ctx.thorough else 2
    name_cfgs = 0
    for style, _, _ in NAME_STYLES:
        for o in range(MAIN_OUT):
            mine = name_rows(style, o, name_len)
            name_cfgs += len(mine)
            n = (len(mine) + 599) // 600
            for c in range(n):
                units.append(("inproc-rows", tuple(mine[c::n])))
    rows, sub_text = subprocess_rows(ctx.thorough, acc)
    name_sub = name_subprocess_rows()
    rows = sorted(set(rows + name_sub), key=repr)
    chunk = 48 if ctx.thorough else 16
    # interleave so that every chunk mixes cheap and expensive rows
    nchunks = (len(rows) + chunk - 1) // chunk
    for c in range(nchunks):
        units.append(("subproc", tuple(rows[c::nchunks])))
    shapes = ("text shapes around a complete JSON value {empty file, white space only, value + trailing words, "
              "two values back to back, value + extra closing bracket, two values on two lines, %svalue after "
              "leading white space, value + trailing white space / newlines}; whether a text loads is decided by "
              "json.loads in the model" % ("byte order mark + value, " if BOM_OK else ""))
    return {
        "units": units,
        "rule": ("configuration = schema-file state x instance list x output mode x --validator "
                 "{absent, Draft4Validator, Draft7Validator, jsonschema.validators.Draft3Validator} x --base-uri "
                 "{absent, file:// directory}. Output modes: main {plain + marker --error-format, plain without "
                 "--error-format, pretty} + plain with an odd --error-format {the empty string, '0', ' ', a format "
                 "without placeholder, a format using only {error.instance}}; with any given format stderr must be exactly "
                 "that format applied to every error of the library (plus the diagnostics). Schema-file states: base "
                 "{valid, missing, not-JSON, invalid schema, valid with relative file references, accepted by drafts 3/4 "
                 "only} + root carrying an id keyword with references into itself in three forms (fragment only, relative "
                 "to the own id, the own id spelt out) {`id`, `$id`, `id` + draft-04 `$schema`} (which keyword counts is "
                 "the selected class's business: the library's validator of that class is the reference) + whole-file "
                 "values {true, false, {}, 12, null} + the valid schema in each of the %d %s. Instance states: base "
                 "{valid, invalid-1-error, "
                 "invalid-3-errors, missing, not-JSON (truncated), null} + the same %d text shapes; stdin: {valid, "
                 "invalid-3-errors, not-JSON, null} + the text shapes. In-process (cli.run, real files), full product of "
                 "the five factors (main output modes) with: every list of length 1..%d over the whole instance alphabet (%d states), every "
                 "stdin state, every list of length %d..%d over the base alphabet. %s"
                 "Through real `python -m jsonschema` processes (cwd = scratch dir, relative paths): %s. "
                 "Configurations are distinct by construction (products / verified duplicate-free row sets); the two "
                 "execution modes are counted separately. Non-trivial = the schema is accepted, so the instance fold "
                 "actually runs (at least one transition)" % (
                     len(SHAPES), shapes, len(SHAPES), full_len, len(INST_STATES), full_len + 1, base_len,
                     ("The odd error formats: full product of the five factors with every list of length 0..%d over the "
                      "whole alphabet and every stdin state (%d configurations); every %s (%d lists) with each of the %d "
                      "schema states the model accepts under some --validator ('fold runs'), under one odd format and one "
                      "accepting (validator, base-uri) pair chosen by rotation (%d rows; verified: every (position, instance "
                      "state, schema state, odd format) occurs and every list meets all %d odd formats). " % (
                          full_len - 1, odd_cfgs,
                          "list of length 3 over the whole alphabet" if ctx.thorough else
                          "list of length 2 over the whole alphabet and of length 3 over the base alphabet",
                          len(odd_long), len(foldable), len(odd_rows), len(ODD_OUT)))
                     + ("" if ctx.thorough else
                        ("Lists of length 3 containing a text shape (%d): each with each of the 'fold runs' schema states "
                         "under one output mode (all %d, odd formats included) and one accepting (validator, base-uri) pair "
                         "chosen by rotation (%d rows; verified: every (position, instance state, schema state, output mode, "
                         "accepting pair) occurs and every list meets all %d output modes). " % (
                             len(rot_rows) // len(foldable), len(OUTFMT), len(rot_rows), len(OUTFMT)))),
                     sub_text + "; and for every file-name style six configurations (styled invalid / missing / unparsable / "
                     "valid instance, styled valid / unparsable / invalid schema), main output modes rotated (%d rows)"
                     % len(name_sub))
                 + (". File names: every letter above lives in a file with a plain name; in addition, for each of %d name "
                    "styles (%s) and each main output mode, in-process, no --validator / --base-uri: every list of length "
                    "1..%d over {valid, invalid-1-error, invalid-3-errors, missing, not-JSON, null} x {plain name, styled name} "
                    "with the valid schema under a plain name (lists containing a styled name) and under the styled name (all "
                    "lists, and stdin), and the missing / not-JSON / invalid schema under the styled name with every single "
                    "file and stdin (%d configurations). The model's demand does not depend on the name; a built-in "
                    "diagnostic may spell a name through repr()" % (
                        len(NAME_STYLES), ", ".join(repr(STYLE_PATTERN[n] % "NAME") for n, _, _ in NAME_STYLES), name_len,
                        name_cfgs))),
        "bounds": {"tier": ctx.tier, "max_list_length_whole_alphabet": 3, "max_list_length_full_product_whole_alphabet": full_len,
                   "max_list_length_base_alphabet": base_len,
                   "instance_states": len(INST_STATES), "stdin_states": len(STDIN_STATES),
                   "text_shapes": list(SHAPES), "byte_order_mark_encodable": BOM_OK,
                   "instance_lists_per_factor_combination": per_unit,
                   "schema_states": len(SCHEMA_STATES), "schema_states_fold_runs": [SCHEMA_STATES[j] for j in foldable],
                   "output_modes": len(OUTFMT), "odd_error_formats": [f for f, _ in ODD_FORMATS],
                   "inprocess_odd_format_product": odd_cfgs, "inprocess_odd_format_rotated_rows": len(odd_rows),
                   "validator_options": len(VALIDATORS), "base_uri_options": len(BASES),
                   "file_name_styles": [n for n, _, _ in NAME_STYLES], "inprocess_file_name_configurations": name_cfgs,
                   "max_list_length_file_names": name_len,
                   "inprocess_configurations": inproc_cfgs + odd_cfgs + len(odd_rows) + len(rot_rows) + name_cfgs,
                   "inprocess_rotated_rows": len(rot_rows),
                   "subprocess_configurations": len(rows),
                   "fold_state_space": "status so far in {0, non-zero} x position 0..%d, plus 'schema failed'" % base_len},
        "assumptions": [
            "the library's own iter_errors (fresh validator of the class the command line must select) is the "
            "reference for each instance; C01-C06 decide whether those errors are right",
            "whether the text of a file or of stdin is a JSON document is what json.loads of that text says",
            "wording of built-in templates is not compared: exact text only for the caller-supplied marker format",
            "a schema with an unresolvable relative reference (no --base-uri) makes the library raise; the "
            "model then only requires a non-zero outcome and the correct output up to that instance",
            "a schema file holding a number or null and no --validator: the library's validator_for raises on such "
            "a value; the model then only requires a non-zero outcome, empty stdout and no instance touched",
            "files are written with the interpreter's default text encoding, the one the command line reads them with",
        ],
    }


# -------------------------------------------------------------------- run ---
def fold_states(exp):
    """(status so far, position) pairs the model's fold visits, and its transitions."""
    if exp["schema_failure"] is not None:
        return {("schema-failed", 0)}, 0
    st, states = 0, {(0, 0)}
    for n, it in enumerate(exp["items"], 1):
        if it[0] != "ok":
            st = 1
        states.add((st, n))
    return states, len(exp["items"])


def run_unit(unit, ctx):
    ev = nt = trans = 0
    viol, samples, outcomes = [], [], {}
    states = set()
    with Workspace() as ws:
        if unit[0] == "inproc":
            _, full_len, base_len, s, o, v, b = unit
            cfgs = [dict(mode="inproc", schema=SCHEMA_STATES[s], list=l, out=OUTFMT[o][0], fmt=OUTFMT[o][1],
                         validator=VALIDATORS[v], base_uri=BASES[b]) for l in unit_lists(full_len, base_len)]
            skey = (s, o, v, b)
        else:
            mode = "inproc" if unit[0] == "inproc-rows" else "subproc"
            cfgs = [dict(mode=mode, schema=SCHEMA_STATES[s] if isinstance(s, int) else s, list=as_list(l), out=OUTFMT[o][0],
                         fmt=OUTFMT[o][1], validator=VALIDATORS[v], base_uri=BASES[b])
                    for (l, s, o, v, b) in unit[1]]
            skey = None
        for n, case in enumerate(cfgs):
            prob, exp, obs = judge(case, ws, ctx)
            ev += 1
            fs, tr = fold_states(exp)
            trans += tr
            key = skey if skey is not None else (case["schema"], case["out"], case["fmt"], case["validator"],
                                                 case["base_uri"])
            states.update((key,) + x for x in fs)
            if exp["schema_failure"] is None and exp["items"]:
                nt += 1
            oc = "%s:%s:%s" % (case["mode"], "nonzero" if exp["nonzero"] else "zero", model.coarse(exp))
            outcomes[oc] = outcomes.get(oc, 0) + 1
            # vacuity guard for the text dimension: what the model made of every schema state / text shape
            oc = "schema-state:%s:%s" % (kind_of(case["schema"]), model.coarse(exp) if exp["schema_failure"] else "accepted")
            outcomes[oc] = outcomes.get(oc, 0) + 1
            for k in [case["schema"]] + ([] if isinstance(case["list"], dict) else list(case["list"])):
                if style_of(k):     # ... and for the file names: which state came under which style
                    oc = "name-style:%s:%s" % (style_of(k), kind_of(k))
                    outcomes[oc] = outcomes.get(oc, 0) + 1
            if exp["schema_failure"] is None:
                lst = case["list"]
                for k, it in zip(lst.values() if isinstance(lst, dict) else lst, exp["items"]):
                    if k in SHAPE_CLASS:
                        oc = "text-shape:%s:%s" % (k, "does-not-load" if it[0] == "diag" else "loads")
                        outcomes[oc] = outcomes.get(oc, 0) + 1
            if prob is not None:
                small, loose = shrink(case, prob[0], ws, ctx)
                p2, e2, o2 = judge(small, ws, ctx)
                if p2 is None or (not loose and family(p2[0]) != family(prob[0])):
                    small, p2, e2, o2 = case, prob, exp, obs
                viol.append({"signature": signature(small, p2[0], e2), "case": small,
                             "size": (0 if isinstance(small["list"], dict) else len(small["list"])) * 10
                             + sum(1 for k in ("validator", "base_uri") if small[k]),
                             "detail": {"problem": p2[0], "info": p2[1], "expected_fold": model.coarse(e2),
                                        "expected_nonzero": e2["nonzero"],
                                        "observed": {"status": o2["status"], "raised": o2["raised"],
                                                     "stdout": o2["stdout"][:400], "stderr": o2["stderr"][:600]},
                                        "argv": shown_argv(small, ws), "unshrunk": case}})
            if len(samples) < 2 and n % 53 == 7:
                samples.append({"argv": shown_argv(case, ws), "mode": case["mode"],
                                "expected_fold": model.coarse(exp), "expected_nonzero": exp["nonzero"],
                                "observed_status": obs["status"]})
    # the fold states of the subprocess and rotated-row configurations are all visited (and counted) by the product units
    counters = {"states": len(states) if unit[0] == "inproc" else 0, "transitions": trans, "traces_validated_against_impl": ev,
                ("inprocess_runs" if unit[0] != "subproc" else "subprocess_runs"): ev}
    return {"evaluations": ev, "nontrivial": nt, "violations": viol, "samples": samples,
            "outcomes": outcomes, "counters": counters}


def replay(case, ctx):
    with Workspace() as ws:
        prob, exp, obs = judge(case, ws, ctx)
        return {"reproduced": prob is not None, "problem": prob and prob[0], "info": prob and prob[1],
                "argv": shown_argv(case, ws), "expected_fold": model.coarse(exp),
                "expected_nonzero": exp["nonzero"],
                "observed": {"status": obs["status"], "raised": obs["raised"],
                             "stdout": obs["stdout"][:400], "stderr": obs["stderr"][:600]}}
