"""C19 — CLI: exit status, diagnostics and per-instance processing follow the library.

The command line is a fold over the instance list (state = exit status so far,
position; one transition per instance).  Every instance list up to the bound
is explored for every combination of the other command-line factors, through
``jsonschema.cli.run`` in-process with real files in a private scratch
directory, and the exit-status half again through real ``python -m jsonschema``
processes.  Oracle: mc/ref/cli.py (fold over the library's own iter_errors of
the class the command line has to select).
"""
import io
import itertools
import json
import os
import shutil
import subprocess
import sys
import tempfile

import jsonschema
from jsonschema import cli

from mc.ref import cli as model

ID = "C19"
LEVEL = "model_checking"

MARK = "<<{error.message}|{error.instance}>>"

# ---------------------------------------------------------------- alphabet ---
# The schema is chosen so that the selected class is observable both in the
# exit status and in the error list:
#   instance      Draft7 (default)   Draft4        Draft3
#   "valid"       valid              1 error (a)   1 error (a)      (1.0 is an integer only from draft 6 on)
#   "inv1"        1 error (const)    valid         1 error (divisibleBy)
#   "inv3"        3 errors           3 errors      4 errors
S_VALID = {"properties": {"a": {"type": "integer"}, "b": {"type": "string"}, "c": {"maximum": 5},
                          "d": {"const": 1}, "e": {"divisibleBy": 2}}}
S_REF = {"properties": {"a": {"$ref": "defs.json#/definitions/int"}, "b": {"$ref": "defs.json#/definitions/str"},
                        "c": {"maximum": 5}, "d": {"const": 1}, "e": {"divisibleBy": 2}}}
DEFS = {"definitions": {"int": {"type": "integer"}, "str": {"type": "string"}}}
# accepted by the draft 3/4 metaschemas, rejected by draft 6/7 (boolean exclusiveMinimum)
S_D4ONLY = {"properties": {"a": {"type": "integer"}, "c": {"minimum": 3, "exclusiveMinimum": True}}}
S_INVALID = {"type": 12}

SCHEMA_STATES = ["valid", "missing", "notjson", "invalid", "valid-ref", "d4only"]
SCHEMA_TEXT = {"notjson": "{not json", "invalid": json.dumps(S_INVALID), "valid": json.dumps(S_VALID),
               "valid-ref": json.dumps(S_REF), "d4only": json.dumps(S_D4ONLY)}
SCHEMA_VALUE = {"invalid": S_INVALID, "valid": S_VALID, "valid-ref": S_REF, "d4only": S_D4ONLY}

INST_STATES = ["valid", "inv1", "inv3", "missing", "notjson", "null"]
STDIN_STATES = ["valid", "inv3", "notjson", "null"]
MAXPOS = 4


def inst_value(state, p):
    """Contents are position-specific so that every formatted error names its position."""
    if state == "valid":
        return {"a": 1.0, "b": "x", "c": 3}
    if state == "inv1":
        return {"d": 20 + p, "e": 3 + 2 * p}
    if state == "inv3":
        return {"a": "x%d" % p, "b": 10 + p, "c": 90 + p, "e": 3 + 2 * p}
    if state == "null":
        return None         # the JSON document `null`: loads fine, and is valid here (no keyword applies to it)
    raise KeyError(state)


def inst_text(state, p):
    return "[1, %d," % p if state == "notjson" else json.dumps(inst_value(state, p))


OUTFMT = [("plain", MARK), ("plain", None), ("pretty", None)]
VALIDATORS = [None, "Draft4Validator", "Draft7Validator", "jsonschema.validators.Draft3Validator"]
BASES = [False, True]


def selected_class(name):
    """The class the command line has to use: the named one, else the one for the
    schema's $schema — none of the schemas here has one, hence the latest draft."""
    return {None: jsonschema.Draft7Validator, "Draft4Validator": jsonschema.Draft4Validator,
            "Draft7Validator": jsonschema.Draft7Validator,
            "jsonschema.validators.Draft3Validator": jsonschema.Draft3Validator}[name]


def all_lists(maxlen):
    out = [{"stdin": s} for s in STDIN_STATES]
    for n in range(1, maxlen + 1):
        out.extend(list(t) for t in itertools.product(INST_STATES, repeat=n))
    return out


# --------------------------------------------------------------- workspace ---
class Workspace(object):
    """Private scratch directory with every file of the alphabet; removed on close."""

    def __init__(self):
        base = "/dev/shm" if os.path.isdir("/dev/shm") and os.access("/dev/shm", os.W_OK) else None
        self.dir = os.path.realpath(tempfile.mkdtemp(prefix="jsv-c19-", dir=base))
        for st, text in SCHEMA_TEXT.items():
            self._w("S_%s.json" % st, text)
        os.mkdir(os.path.join(self.dir, "refs"))
        self._w(os.path.join("refs", "defs.json"), json.dumps(DEFS))
        for p in range(MAXPOS):
            for st in INST_STATES:
                if st != "missing":
                    self._w("p%d_%s.json" % (p, st), inst_text(st, p))
        self.base_uri = "file://" + self.dir + "/refs/"

    def _w(self, name, text):
        with open(os.path.join(self.dir, name), "w") as f:
            f.write(text)

    def close(self):
        shutil.rmtree(self.dir, ignore_errors=True)

    def __enter__(self):
        return self

    def __exit__(self, *a):
        self.close()


def schema_token(state):
    return "S_%s.json" % state


def inst_token(state, p):
    return "p%d_%s.json" % (p, state)


def describe(case):
    """Oracle-side description of the files of a configuration (no file access)."""
    st = case["schema"]
    schema = {"token": schema_token(st), "state": st if st in ("missing", "notjson") else "json",
              "value": SCHEMA_VALUE.get(st)}
    lst = case["list"]
    if isinstance(lst, dict):
        s = lst["stdin"]
        insts = [{"token": "<stdin>", "state": "notjson" if s == "notjson" else "json",
                  "value": None if s == "notjson" else inst_value(s, 0)}]
    else:
        insts = [{"token": inst_token(s, p), "state": s if s in ("missing", "notjson") else "json",
                  "value": None if s in ("missing", "notjson") else inst_value(s, p)}
                 for p, s in enumerate(lst)]
    return schema, insts


def argv_of(case, ws, absolute):
    def path(name):
        return os.path.join(ws.dir, name) if absolute else name
    argv = []
    if not isinstance(case["list"], dict):
        for p, s in enumerate(case["list"]):
            argv += ["-i", path(inst_token(s, p))]
    if case["out"] != "plain":
        argv += ["--output", case["out"]]
    if case["fmt"]:
        argv += ["--error-format", case["fmt"]]
    if case["validator"]:
        argv += ["--validator", case["validator"]]
    if case["base_uri"]:
        argv += ["--base-uri", ws.base_uri]
    argv.append(path(schema_token(case["schema"])))
    return argv


def shown_argv(case, ws):
    """argv for evidence / reports: the scratch directory's random name is not part of the case."""
    return [a.replace(ws.dir, "<scratch>") for a in argv_of(case, ws, False)]


def stdin_text(case):
    lst = case["list"]
    return inst_text(lst["stdin"], 0) if isinstance(lst, dict) else ""


def observe_inproc(case, ws):
    so, se, si = io.StringIO(), io.StringIO(), io.StringIO(stdin_text(case))
    status = raised = None
    try:
        status = cli.run(cli.parse_args(argv_of(case, ws, True)), stdout=so, stderr=se, stdin=si)
    except BaseException as e:       # SystemExit from argparse included
        if isinstance(e, KeyboardInterrupt):
            raise
        raised = type(e).__name__
    return {"status": status, "raised": raised, "stdout": so.getvalue(), "stderr": se.getvalue(),
            "stdin_consumed": si.tell()}


def sub_env(ctx):
    env = dict(os.environ)
    env.update(PYTHONPATH=ctx.repo, PYTHONHASHSEED="0", PYTHONDONTWRITEBYTECODE="1")
    return env


def observe_subproc(case, ws, ctx):
    p = subprocess.run([sys.executable, "-m", "jsonschema"] + argv_of(case, ws, False), cwd=ws.dir,
                       env=sub_env(ctx), input=stdin_text(case), capture_output=True, text=True, timeout=120)
    return {"status": p.returncode, "raised": None, "stdout": p.stdout, "stderr": p.stderr, "stdin_consumed": None}


def expected(case, ws):
    schema, insts = describe(case)
    return model.expect(jsonschema, selected_class(case["validator"]), schema, insts,
                        base_uri=ws.base_uri if case["base_uri"] else None)


def tokens_of(case):
    schema, insts = describe(case)
    return [schema["token"]] + [i["token"] for i in insts]


def judge(case, ws, ctx, exp=None):
    """Returns (problem or None, exp, obs)."""
    if exp is None:
        exp = expected(case, ws)
    obs = observe_subproc(case, ws, ctx) if case["mode"] == "subproc" else observe_inproc(case, ws)
    prob = model.compare(exp, obs, case["out"], case["fmt"], tokens_of(case))
    if prob is None and exp["schema_failure"] is not None and obs["stdin_consumed"]:
        prob = ("schema-failure-instance-processed", {"stdin_consumed": obs["stdin_consumed"]})
    return prob, exp, obs


def family(kind):
    """Failure families: shrinking may move between kinds of one family (the same
    misbehaviour looks different under another output mode), never across families."""
    if kind.startswith("exception-"):
        return kind
    for f in ("status", "stdout", "schema-failure"):
        if kind.startswith(f):
            return f
    return "stderr"


_fold_tables = {}


def fold_table(ws, schema, validator, base_uri, stdin):
    """coarse expected fold -> simplest instance list producing it under these factors."""
    key = (ws.dir, schema, validator, base_uri, stdin)
    t = _fold_tables.get(key)
    if t is None:
        if len(_fold_tables) > 200:
            _fold_tables.clear()
        t = _fold_tables[key] = {}
        for l in all_lists(3):
            if isinstance(l, dict) != stdin:
                continue
            c = dict(schema=schema, list=l, validator=validator, base_uri=base_uri)
            t.setdefault(model.coarse(expected(c, ws)), l)
    return t


def shrink(case, kind, ws, ctx):
    """Greedy, inside the enumerated space: delete list elements, then move to the
    simplest factor values (re-choosing the list so that the expected fold stays the
    same — the same file is valid under one class and invalid under another), while
    a failure of the same family persists."""
    fam = family(kind)
    # a failure seen through a real process is shrunk in-process when it shows there
    # too (200 ms per subprocess); the caller re-judges the result in the original mode
    via = case["mode"]
    if via == "subproc":
        prob, _, _ = judge(dict(case, mode="inproc"), ws, ctx)
        if prob is not None and family(prob[0]) == fam:
            via = "inproc"
    memo = {}

    def still(c):
        k = json.dumps([c[x] for x in ("schema", "list", "out", "fmt", "validator", "base_uri")])
        if k not in memo:
            prob, _, _ = judge(dict(c, mode=via), ws, ctx)
            memo[k] = prob is not None and family(prob[0]) == fam
        return memo[k]

    def deletions(cur):
        if isinstance(cur["list"], dict):
            return cur
        changed = True
        while changed and len(cur["list"]) > 1:
            changed = False
            for i in range(len(cur["list"])):
                cand = dict(cur, list=cur["list"][:i] + cur["list"][i + 1:])
                if still(cand):
                    cur, changed = cand, True
                    break
        return cur

    def factors(cur):
        fold = model.coarse(expected(cur, ws))
        schemas = ["valid"] if cur["schema"] in ("valid-ref", "d4only") else []
        schemas.append(cur["schema"])
        vals = [v for v in (None, "Draft7Validator", "Draft4Validator") if v != cur["validator"]] + [cur["validator"]]
        bases = [False, True] if cur["base_uri"] else [False]
        cands = [(s, v, b) for s in schemas for v in vals for b in bases]
        cands.sort(key=lambda t: ((t[0] != "valid") + (t[1] is not None) + t[2],
                                  schemas.index(t[0]), vals.index(t[1]), t[2]))
        for s, v, b in cands:
            if (s, v, b) == (cur["schema"], cur["validator"], cur["base_uri"]):
                break
            lists = [cur["list"]]
            alt = fold_table(ws, s, v, b, isinstance(cur["list"], dict)).get(fold)
            if alt is not None and alt != cur["list"]:
                lists.append(alt)
            for l in lists:
                cand = dict(cur, schema=s, validator=v, base_uri=b, list=l)
                if still(cand):
                    return cand
        return cur

    cur = deletions(dict(case))
    if via == "inproc":
        cur = factors(cur)
        if (cur["out"], cur["fmt"]) != ("plain", MARK):
            cand = dict(cur, out="plain", fmt=MARK)
            if still(cand):
                cur = cand
        cur = deletions(cur)
    return cur


def signature(case, kind, exp):
    extra = ""
    if case["schema"] in ("valid-ref", "d4only"):
        extra += "|schema=" + case["schema"]
    if case["validator"]:
        extra += "|validator=" + case["validator"].rsplit(".", 1)[-1]
    if case["base_uri"]:
        extra += "|base-uri"
    if (case["out"], case["fmt"]) != ("plain", MARK):
        extra += "|" + case["out"] + ("" if case["fmt"] is None else "+format")
    if isinstance(case["list"], dict):
        extra += "|stdin"
    return "C19|%s|%s|fold=%s%s" % (case["mode"], kind, model.coarse(exp), extra)


# ------------------------------------------------------------------- plan ---
def covering_rows(idx):
    """Covering array of strength 2 over (list in idx, schema, outfmt, validator, base-uri):
    every (list, schema) pair with the other factors rotated, then completed greedily and verified."""
    dims = [idx, range(len(SCHEMA_STATES)), range(len(OUTFMT)), range(len(VALIDATORS)), range(len(BASES))]
    rows = []
    for n, i in enumerate(idx):
        for j in range(len(SCHEMA_STATES)):
            rows.append((i, j, (n + j) % 3, (n // 3 + j) % 4, (n // 12 + j // 3 + j) % 2))
    covered = set()

    def pairs(r):
        return [(a, r[a], b, r[b]) for a in range(5) for b in range(a + 1, 5)]

    for r in rows:
        covered.update(pairs(r))
    filled = 0
    for a in range(5):
        for b in range(a + 1, 5):
            for x in dims[a]:
                for y in dims[b]:
                    if (a, x, b, y) not in covered:
                        filled += 1
                        r = [idx[0], 0, 0, 0, 0]
                        r[a], r[b] = x, y
                        rows.append(tuple(r))
                        covered.update(pairs(tuple(r)))
    return rows, filled


def subprocess_rows(lists, thorough):
    short = [i for i, l in enumerate(lists) if isinstance(l, dict) or len(l) <= 2]
    long = [i for i, l in enumerate(lists) if not isinstance(l, dict) and len(l) == 3]
    if thorough:
        rows = [(i, s, o, v, b) for i in short for s in range(len(SCHEMA_STATES))
                for o in range(len(OUTFMT)) for v in range(len(VALIDATORS)) for b in range(len(BASES))]
        more, filled = covering_rows(long)
        rows += more
    else:
        rows, filled = covering_rows(short)
        loads = [SCHEMA_STATES.index(x) for x in ("valid", "valid-ref", "d4only")]
        for n, i in enumerate(long):
            rows.append((i, loads[n % 3], (n // 3) % 3, (n // 9 + n) % 4, (n // 2) % 2))
    return sorted(set(rows)), filled


def plan(ctx):
    maxlen = 4 if ctx.thorough else 3
    lists = all_lists(maxlen)
    lists3 = all_lists(3)
    # the subprocesses must import the tree under test
    out = subprocess.run([sys.executable, "-c", "import jsonschema,os;print(os.path.realpath(jsonschema.__file__))"],
                         cwd="/", env=sub_env(ctx), capture_output=True, text=True, timeout=120)
    if not out.stdout.strip().startswith(os.path.realpath(ctx.repo) + os.sep):
        raise RuntimeError("subprocess imports jsonschema from %r, not from %s" % (out.stdout, ctx.repo))
    units = []
    for s in range(len(SCHEMA_STATES)):
        for o in range(len(OUTFMT)):
            for v in range(len(VALIDATORS)):
                for b in range(len(BASES)):
                    units.append(("inproc", maxlen, s, o, v, b))
    rows, filled = subprocess_rows(lists3, ctx.thorough)
    chunk = 48 if ctx.thorough else 16
    # interleave so that every chunk mixes cheap and expensive rows
    nchunks = (len(rows) + chunk - 1) // chunk
    for c in range(nchunks):
        units.append(("subproc", tuple(rows[c::nchunks])))
    inproc_cfgs = len(lists) * len(SCHEMA_STATES) * len(OUTFMT) * len(VALIDATORS) * len(BASES)
    return {
        "units": units,
        "rule": ("configuration = schema-file state x instance list (every list of length 1..%d over "
                 "{valid, invalid-1-error, invalid-3-errors, missing, not-JSON}, or one instance on stdin "
                 "in {valid, invalid, not-JSON}) x {plain+marker format, plain, pretty} x --validator "
                 "{absent, Draft4Validator, Draft7Validator, jsonschema.validators.Draft3Validator} x --base-uri "
                 "{absent, file:// directory}; the full product is run through cli.run in-process; "
                 "%s through real `python -m jsonschema` processes (cwd = scratch dir, relative paths). "
                 "Configurations are distinct by construction (a product of factor values, each taken once); "
                 "the two execution modes are counted separately. Non-trivial = the schema is accepted, so the "
                 "instance fold actually runs (at least one transition)" % (
                     maxlen, ("the full product for the lists of length <= 2 and stdin, plus a strength-2 covering array over "
                               "the five factors for the lists of length 3 (%d rows added to complete it)" % filled)
                     if ctx.thorough else
                     ("a strength-2 covering array over the five factors for the lists of length <= 2 and stdin (every "
                      "(list, schema) pair, other factors rotated; coverage of all factor-value pairs verified, %d rows "
                      "added to complete it) plus every list of length 3 once on a schema that loads" % filled))),
        "bounds": {"tier": ctx.tier, "max_list_length": maxlen, "instance_lists": len(lists),
                   "schema_states": len(SCHEMA_STATES), "output_modes": len(OUTFMT),
                   "validator_options": len(VALIDATORS), "base_uri_options": len(BASES),
                   "inprocess_configurations": inproc_cfgs, "subprocess_configurations": len(rows),
                   "fold_state_space": "status so far in {0, non-zero} x position 0..%d, plus 'schema failed'" % maxlen},
        "assumptions": [
            "the library's own iter_errors (fresh validator of the class the command line must select) is the "
            "reference for each instance; C01-C06 decide whether those errors are right",
            "wording of built-in templates is not compared: exact text only for the caller-supplied marker format",
            "a schema with an unresolvable relative reference (no --base-uri) makes the library raise; the "
            "model then only requires a non-zero outcome and the correct output up to that instance",
        ],
    }


# -------------------------------------------------------------------- run ---
def fold_states(exp):
    """(status so far, position) pairs the model's fold visits, and its transitions."""
    if exp["schema_failure"] is not None:
        return {("schema-failed", 0)}, 0
    st, states = 0, {(0, 0)}
    for n, it in enumerate(exp["items"], 1):
        if it[0] != "ok":
            st = 1
        states.add((st, n))
    return states, len(exp["items"])


def run_unit(unit, ctx):
    ev = nt = trans = 0
    viol, samples, outcomes = [], [], {}
    states = set()
    with Workspace() as ws:
        if unit[0] == "inproc":
            _, maxlen, s, o, v, b = unit
            cfgs = [dict(mode="inproc", schema=SCHEMA_STATES[s], list=l, out=OUTFMT[o][0], fmt=OUTFMT[o][1],
                         validator=VALIDATORS[v], base_uri=BASES[b]) for l in all_lists(maxlen)]
            skey = (s, o, v, b)
        else:
            lists3 = all_lists(3)
            cfgs = [dict(mode="subproc", schema=SCHEMA_STATES[s], list=lists3[i], out=OUTFMT[o][0],
                         fmt=OUTFMT[o][1], validator=VALIDATORS[v], base_uri=BASES[b])
                    for (i, s, o, v, b) in unit[1]]
            skey = None
        for n, case in enumerate(cfgs):
            prob, exp, obs = judge(case, ws, ctx)
            ev += 1
            fs, tr = fold_states(exp)
            trans += tr
            key = skey if skey is not None else (case["schema"], case["out"], case["fmt"], case["validator"],
                                                 case["base_uri"])
            states.update((key,) + x for x in fs)
            if exp["schema_failure"] is None and exp["items"]:
                nt += 1
            oc = "%s:%s:%s" % (case["mode"], "nonzero" if exp["nonzero"] else "zero", model.coarse(exp))
            outcomes[oc] = outcomes.get(oc, 0) + 1
            if prob is not None:
                small = shrink(case, prob[0], ws, ctx)
                p2, e2, o2 = judge(small, ws, ctx)
                if p2 is None or family(p2[0]) != family(prob[0]):
                    small, p2, e2, o2 = case, prob, exp, obs
                viol.append({"signature": signature(small, p2[0], e2), "case": small,
                             "size": (0 if isinstance(small["list"], dict) else len(small["list"])) * 10
                             + sum(1 for k in ("validator", "base_uri") if small[k]),
                             "detail": {"problem": p2[0], "info": p2[1], "expected_fold": model.coarse(e2),
                                        "expected_nonzero": e2["nonzero"],
                                        "observed": {"status": o2["status"], "raised": o2["raised"],
                                                     "stdout": o2["stdout"][:400], "stderr": o2["stderr"][:600]},
                                        "argv": shown_argv(small, ws), "unshrunk": case}})
            if len(samples) < 2 and n % 53 == 7:
                samples.append({"argv": shown_argv(case, ws), "mode": case["mode"],
                                "expected_fold": model.coarse(exp), "expected_nonzero": exp["nonzero"],
                                "observed_status": obs["status"]})
    # every subprocess configuration is also an in-process one: its fold states are counted there
    counters = {"states": len(states) if unit[0] == "inproc" else 0, "transitions": trans, "traces_validated_against_impl": ev,
                ("inprocess_runs" if unit[0] == "inproc" else "subprocess_runs"): ev}
    return {"evaluations": ev, "nontrivial": nt, "violations": viol, "samples": samples,
            "outcomes": outcomes, "counters": counters}


def replay(case, ctx):
    with Workspace() as ws:
        prob, exp, obs = judge(case, ws, ctx)
        return {"reproduced": prob is not None, "problem": prob and prob[0], "info": prob and prob[1],
                "argv": shown_argv(case, ws), "expected_fold": model.coarse(exp),
                "expected_nonzero": exp["nonzero"],
                "observed": {"status": obs["status"], "raised": obs["raised"],
                             "stdout": obs["stdout"][:400], "stderr": obs["stderr"][:600]}}
