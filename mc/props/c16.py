"""C16 — deriving checkers and validator classes never disturbs the originals.

E2: all sequences of derivation operations (depth 3 quick / 4 thorough) over a
pool that starts with the four draft classes, their type checkers, the
FormatChecker class and the draft format checkers.  After the last operation
of every history EVERY object that exists (initial or derived) is re-probed
with a fixed battery and compared with the vector predicted by a persistent-map
model (recorded at creation; derived objects' vectors are predicted from their
parent's).  Global registries are snapshotted and restored around every history.
"""
import copy
import warnings

import jsonschema
from jsonschema import FormatChecker, RefResolver, _format, _types, exceptions, validators as jsv

from mc.explore import history
from mc.props import _e1

ID = "C16"
LEVEL = "model_checking"

TYPE_NAMES = ["any", "array", "boolean", "integer", "null", "number", "object", "string", "foo"]
TYPE_VALUES = [None, True, False, 0, 1.0, 1.5, "", "a", [], [1], {}, {"a": 1}, (1,)]
FMT_NAMES = ["ipv4", "ip-address", "date", "email", "regex", "time", "fmt-a", "fmt-b", "fmt-cls", "nope"]
FMT_VALUES = ["127.0.0.1", "x", "2020-01-01", "ok-a", "ok-cls", 3]

STORE = {"http://x.invalid/dir/other.json": {"t": {"type": "integer"}},
         "http://y.invalid/dir/other.json": {"t": {"type": "string"}}}

# (tag, schema, instances): tag = the feature the probe exercises
CLASS_PROBES = [
    ("type", {"type": "integer"}, [1, 1.0, "s", True]),
    ("type", {"type": "string"}, [1, "s", None]),
    ("type", {"type": "null"}, [None, 0]),
    ("minimum", {"minimum": 5}, [1, 7, "s", "zz"]),
    ("zzz", {"zzz": "anything"}, [1, "s"]),
    ("format", {"format": "ipv4"}, ["127.0.0.1", "x"]),
    ("other", {"maxLength": 1, "enum": ["a", "bb", 1]}, ["a", "bb", 1, 2]),
    ("other", {"properties": {"a": {"type": "boolean"}}, "additionalProperties": False}, [{"a": True}, {"a": 1, "b": 2}]),
    ("ids", {"properties": {"a": {"id": "http://x.invalid/dir/", "$id": "http://y.invalid/dir/",
                                  "items": {"$ref": "other.json#/t"}}}}, [{"a": [1]}, {"a": ["s"]}]),
    ("meta", "check_schema", [{"type": "integer"}, {"type": 12}, {"minimum": "x"}, {"minLength": "3"}]),
    ("ref", {"definitions": {"t": {"type": "integer"}}, "properties": {"a": {"$ref": "#/definitions/t"}}},
     [{"a": 1}, {"a": "s"}]),
    ("required", {"required": ["b"]}, [{}, {"b": 1}, {"zz": 1}]),
    ("dependencies", {"dependencies": {"a": ["b"]}}, [{"a": 1}, {"a": 1, "b": 2}, {"zz": 1}]),
]

META_IDS = ["file:///verif-nonexistent/meta-%d.json" % i for i in (1, 2, 3, 4)]


def fn_str_is_integer(checker, instance):
    return isinstance(instance, str)


def fn_anything(checker, instance):
    return True


def kw_minimum_custom(validator, value, instance, schema):
    if instance == "zz":
        yield exceptions.ValidationError("custom minimum rejects zz")


def kw_zzz(validator, value, instance, schema):
    if instance == 1:
        yield exceptions.ValidationError("zzz rejects 1")


def fmt_a(instance):
    return instance == "ok-a"


def fmt_a2(instance):
    return instance == "x"


def kw_ref_custom(validator, value, instance, schema):
    yield exceptions.ValidationError("custom ref")


def kw_type_permissive(validator, value, instance, schema):
    return ()


def kw_required_custom(validator, value, instance, schema):
    if isinstance(instance, dict) and "zz" in instance:
        yield exceptions.ValidationError("custom required rejects zz")


def fmt_cls(instance):
    return instance == "ok-cls"


# ---------------------------------------------------------------- probing
def probe_typechecker(tc):
    out = {}
    for t in TYPE_NAMES:
        col = []
        for v in TYPE_VALUES:
            try:
                col.append(bool(tc.is_type(v, t)))
            except exceptions.UndefinedTypeCheck:
                col.append("undefined")
            except Exception as e:
                col.append("EXC " + type(e).__name__)
        out[t] = tuple(col)
    return out


def probe_formatchecker(fc):
    out = {}
    for n in FMT_NAMES:
        col = []
        for v in FMT_VALUES:
            try:
                col.append(bool(fc.conforms(v, n)))
            except Exception as e:
                col.append("EXC " + type(e).__name__)
        out[n] = tuple(col)
    out["__names__"] = tuple(sorted(fc.checkers))
    return out


def probe_class(cls, instance_kwargs=None):
    """Vector by tag.  A validator *instance* (made with types=) is probed through the same battery."""
    out = {}
    for i, (tag, schema, insts) in enumerate(CLASS_PROBES):
        col = []
        for x in insts:
            try:
                if schema == "check_schema":
                    try:
                        cls.check_schema(x)
                        col.append(True)
                    except exceptions.SchemaError:
                        col.append(False)
                else:
                    with warnings.catch_warnings():
                        warnings.simplefilter("ignore")
                        r = RefResolver.from_schema(schema, id_of=cls.ID_OF, store=copy.deepcopy(STORE))
                        v = cls(schema, resolver=r, format_checker=_format.draft7_format_checker,
                                **(instance_kwargs or {}))
                    col.append(tuple(sorted(e.message for e in v.iter_errors(x))))
            except exceptions.UnknownType:
                col.append("UnknownType")
            except exceptions.RefResolutionError:
                col.append("RefResolutionError")
            except Exception as e:
                col.append("EXC " + type(e).__name__)
        out["%d:%s" % (i, tag)] = tuple(col)
    out["__tc__"] = tuple(sorted(probe_typechecker(cls.TYPE_CHECKER).items()))
    mid = cls.ID_OF(cls.META_SCHEMA) if isinstance(cls.META_SCHEMA, dict) else ""
    if mid and instance_kwargs is None:
        try:
            url, doc = RefResolver("", {}).resolve(mid)
            out["__meta_served__"] = doc == cls.META_SCHEMA
        except exceptions.RefResolutionError:
            out["__meta_served__"] = "RefResolutionError"
        except Exception as e:
            out["__meta_served__"] = "EXC " + type(e).__name__
    return out


def probe_old_validators(vs):
    out = {}
    for mid, v in vs:
        try:
            out[mid] = v.is_valid(5)
        except exceptions.RefResolutionError:
            out[mid] = "RefResolutionError"
        except Exception as e:
            out[mid] = "EXC " + type(e).__name__
    return out


def probe(kind, obj, extra=None):
    if kind == "vold":
        return probe_old_validators(obj)
    if kind == "tc":
        return probe_typechecker(obj)
    if kind == "fc":
        return probe_formatchecker(obj)
    if kind == "fcclass":
        return {"__names__": tuple(sorted(obj.checkers))}
    if kind == "vinst":
        return probe_class(obj, extra)
    return probe_class(obj)


def diff_keys(a, b):
    return sorted(k for k in set(a) | set(b) if a.get(k) != b.get(k))


# ---------------------------------------------------------------- world
class Globals(object):
    def snapshot(self):
        self.fc = dict(FormatChecker.checkers)
        self.validators = dict(jsv.validators)
        self.meta = dict(jsv.meta_schemas.store)
        self.draft = {k: dict(v.checkers) for k, v in _format._draft_checkers.items()}

    def restore(self):
        FormatChecker.checkers.clear()
        FormatChecker.checkers.update(self.fc)
        jsv.validators.clear()
        jsv.validators.update(self.validators)
        jsv.meta_schemas.store.clear()
        jsv.meta_schemas.store.update(self.meta)
        for k, v in _format._draft_checkers.items():
            v.checkers.clear()
            v.checkers.update(self.draft[k])


G = Globals()
_baseline = {}


class World(object):
    def __init__(self):
        G.restore()
        self.objs = []      # (name, kind, object, expected vector, extra)
        for d, cls in _e1.CLS.items():
            self.add("Draft%d" % d, "class", cls)
        for n in ("draft3", "draft4", "draft6"):
            self.add(n + "_type_checker", "tc", getattr(_types, n + "_type_checker"))
        for n, fc in sorted(_format._draft_checkers.items()):
            self.add(n + "_format_checker", "fc", fc)
        self.add("FormatChecker", "fcclass", FormatChecker)
        # validator objects built now, referring to metaschema ids that only later operations register:
        # they took their snapshot of the known metaschemas at construction and must keep failing to resolve these
        olds = [(mid, _e1.CLS[7]({"$ref": mid})) for mid in META_IDS]
        self.objs.append(["validators-built-before", "vold", olds,
                          {mid: "RefResolutionError" for mid in META_IDS}, None])
        self.cls_formats = []      # names registered class-wide so far
        self.counter = 0

    def add(self, name, kind, obj, expected=None, extra=None):
        if expected is None:
            key = (name, kind)
            if key not in _baseline:
                _baseline[key] = probe(kind, obj, extra)
            expected = _baseline[key]
        self.objs.append([name, kind, obj, expected, extra])

    def get(self, name):
        for o in self.objs:
            if o[0] == name:
                return o
        raise KeyError(name)

    def last(self, kind, default):
        for o in reversed(self.objs):
            if o[1] == kind and o[0].startswith("new"):
                return o
        return self.get(default)

    def fresh(self, prefix):
        self.counter += 1
        return "new%d-%s" % (self.counter, prefix)


def with_changes(vec, changes):
    out = dict(vec)
    out.update(changes)
    return out


BASES = ["Draft3", "Draft7", "LAST"]
OPS = ([("tc.redefine", b) for b in ("draft4_type_checker", "LAST")] +
       [("tc.redefine_many", "draft3_type_checker"), ("tc.remove", "draft6_type_checker"), ("tc.remove", "LAST")] +
       [("extend", b) for b in BASES] + [("extend+override", b) for b in BASES] +
       [("extend+add", b) for b in ("Draft4", "LAST")] + [("extend+tc", b) for b in ("Draft6", "LAST")] +
       [("extend+override-ref", "Draft4"), ("extend+override-ref", "LAST"), ("extend+override-required", "Draft4"),
        ("extend+override-required", "LAST"),
        ("extend+override+version", "Draft7"), ("extend+tc+version", "Draft4"), ("create+default_types", "Draft3")] +
       [("create", "Draft4"), ("create+version", "Draft7"), ("types-arg", "Draft4"), ("types-arg", "LAST")] +
       [("fc.checks", "draft7_format_checker"), ("fc.checks", "LAST"), ("fc.rechecks", "LAST"), ("cls_checks",),
        ("fc.new",), ("fc.new-subset",)])


def resolve_target(w, kind, name, default):
    if name == "LAST":
        return w.last(kind, default)
    return w.get(name)


def apply_op(w, op):
    """Performs the derivation; records the model's expectation for the new object. Returns an observation."""
    k = op[0]
    with warnings.catch_warnings():
        warnings.simplefilter("ignore")
        if k.startswith("tc."):
            parent = resolve_target(w, "tc", op[1], "draft4_type_checker")
            tc, pv = parent[2], parent[3]
            if k == "tc.redefine":
                new = tc.redefine("integer", fn_str_is_integer)
                exp = with_changes(pv, {"integer": tuple(isinstance(v, str) for v in TYPE_VALUES)})
            elif k == "tc.redefine_many":
                new = tc.redefine_many({"string": fn_anything, "foo": fn_anything})
                exp = with_changes(pv, {"string": tuple(True for v in TYPE_VALUES),
                                        "foo": tuple(True for v in TYPE_VALUES)})
            else:
                if pv.get("null", ("undefined",))[0] == "undefined":
                    try:
                        tc.remove("null")
                        return ("remove-did-not-raise",)
                    except exceptions.UndefinedTypeCheck:
                        return ("UndefinedTypeCheck",)
                new = tc.remove("null")
                exp = with_changes(pv, {"null": tuple("undefined" for v in TYPE_VALUES)})
            w.add(w.fresh("tc"), "tc", new, exp)
            return ("created", w.objs[-1][0])
        if k.startswith("extend") or k.startswith("create"):
            parent = resolve_target(w, "class", op[1], "Draft7")
            cls, pv = parent[2], parent[3]
            changes = {}
            if k == "extend":
                new = jsv.extend(cls)
            elif k == "extend+override":
                new = jsv.extend(cls, validators={"minimum": kw_minimum_custom})
                changes = {"3:minimum": ((), (), (), ("custom minimum rejects zz",))}
            elif k == "extend+add":
                new = jsv.extend(cls, validators={"zzz": kw_zzz})
                changes = {"4:zzz": (("zzz rejects 1",), ())}
            elif k == "extend+override-ref":
                new = jsv.extend(cls, validators={"$ref": kw_ref_custom})
                # check_schema evaluates the metaschema with the class itself, and every metaschema uses $ref
                changes = {"8:ids": (("custom ref",), ("custom ref",)), "10:ref": (("custom ref",), ("custom ref",)),
                           "9:meta": probe("class", new)["9:meta"]}      # draft-dependent: recorded at creation
            elif k == "extend+override-required":
                new = jsv.extend(cls, validators={"required": kw_required_custom})
                # only the probes of the keyword itself change (dependencies keeps its own meaning)
                changes = {"11:required": ((), (), ("custom required rejects zz",))}
                vec = probe("class", new)
                if vec.get("9:meta") != pv.get("9:meta"):
                    changes["9:meta"] = vec["9:meta"]       # the draft 4+ metaschemas use `required` themselves? (they do not)
            elif k == "extend+override+version":
                # registered under the parent's own metaschema id, with a `type` keyword that accepts everything
                # (so its check_schema accepts what the parent's rejects): the parent itself must not notice
                new = jsv.extend(cls, validators={"type": kw_type_permissive},
                                 version="verif-ext%d" % (w.counter + 1))
                w.add(w.fresh("class"), "class", new, None)
                w.objs[-1][3] = probe("class", new)       # recorded at creation, must stay fixed
                return ("created", w.objs[-1][0])
            elif k == "extend+tc+version":
                tcp = w.last("tc", "draft3_type_checker")
                try:
                    new = jsv.extend(cls, type_checker=tcp[2], version="verif-tc%d" % (w.counter + 1))
                except TypeError:
                    return ("TypeError",)
                w.add(w.fresh("class"), "class", new, None)
                w.objs[-1][3] = probe("class", new)       # recorded at creation, must stay fixed
                return ("created", w.objs[-1][0])
            elif k == "create+default_types":
                new = jsv.create(meta_schema=cls.META_SCHEMA, validators=cls.VALIDATORS, id_of=cls.ID_OF,
                                 default_types={"array": (list, tuple), "object": dict, "string": str,
                                                "number": (int, float), "integer": int, "null": type(None),
                                                "boolean": bool, "foo": (bytes,)})
                w.add(w.fresh("class"), "class", new, None)
                w.objs[-1][3] = probe("class", new)       # a new type table: recorded once; children must inherit it
                return ("created", w.objs[-1][0])
            elif k == "extend+tc":
                tcp = w.last("tc", "draft3_type_checker")
                try:
                    new = jsv.extend(cls, type_checker=tcp[2])
                except TypeError:
                    return ("TypeError",)
                w.add(w.fresh("class"), "class", new, None)
                # the expectation for a class with a foreign type checker: everything not involving types is the
                # parent's; the type-involving part is recorded at creation and must stay fixed afterwards
                vec = probe("class", new)
                if vec["__tc__"] != tuple(sorted(tcp[3].items())):
                    w.objs[-1][3] = {"__tc__": "type checker of the extended class differs from the one passed"}
                else:
                    keep = {kk: vv for kk, vv in pv.items() if kk.split(":")[-1] in ("zzz", "format")}
                    w.objs[-1][3] = with_changes(vec, keep)
                return ("created", w.objs[-1][0])
            elif k == "create":
                new = jsv.create(meta_schema=cls.META_SCHEMA, validators=cls.VALIDATORS,
                                 type_checker=cls.TYPE_CHECKER, id_of=cls.ID_OF)
            else:
                meta = dict(cls.META_SCHEMA)
                meta["$id"] = meta["id"] = META_IDS[min(w.counter, len(META_IDS) - 1)]
                new = jsv.create(meta_schema=meta, validators=cls.VALIDATORS, type_checker=cls.TYPE_CHECKER,
                                 id_of=cls.ID_OF, version="verif%d" % (w.counter + 1))
            w.add(w.fresh("class"), "class", new, with_changes(pv, changes))
            return ("created", w.objs[-1][0])
        if k == "types-arg":
            parent = resolve_target(w, "class", op[1], "Draft4")
            cls, pv = parent[2], parent[3]
            extra = {"types": {"integer": (int, str)}}
            vec = probe("vinst", cls, extra)
            # the instance itself treats strings as integers; recorded once, must stay; the class must not change
            w.add(w.fresh("vinst-of-" + parent[0]), "vinst", cls, vec, extra)
            got = vec.get("0:type")
            return ("types-arg", got[2] if got else None)
        if k == "fc.checks":
            parent = resolve_target(w, "fc", op[1], "draft7_format_checker") if op[1] != "LAST" else w.last("fc", "draft4_format_checker")
            fc, pv = parent[2], parent[3]
            name = "fmt-a" if "fmt-a" not in fc.checkers else "fmt-b"
            fc.checks(name)(fmt_a)
            exp = with_changes(pv, {name: tuple((v == "ok-a") for v in FMT_VALUES),
                                    "__names__": tuple(sorted(set(pv["__names__"]) | {name}))})
            parent[3] = exp       # this very object changes, by design; nobody else may
            return ("registered", parent[0], name)
        if k == "fc.rechecks":
            parent = w.last("fc", "draft4_format_checker")
            fc, pv = parent[2], parent[3]
            for v in FMT_VALUES:                       # use it first (anything memoised gets memoised now)
                fc.conforms(v, "fmt-a")
            fc.checks("fmt-a")(fmt_a2)                 # then replace the function behind the same name
            exp = with_changes(pv, {"fmt-a": tuple((v == "x") for v in FMT_VALUES),
                                    "__names__": tuple(sorted(set(pv["__names__"]) | {"fmt-a"}))})
            parent[3] = exp
            return ("re-registered", parent[0])
        if k == "cls_checks":
            FormatChecker.cls_checks("fmt-cls")(fmt_cls)
            if "fmt-cls" not in w.cls_formats:
                w.cls_formats.append("fmt-cls")
            o = w.get("FormatChecker")
            o[3] = {"__names__": tuple(sorted(set(o[3]["__names__"]) | {"fmt-cls"}))}
            return ("cls-registered",)
        if k in ("fc.new", "fc.new-subset"):
            base_names = set(w.get("FormatChecker")[3]["__names__"])
            if k == "fc.new":
                new = FormatChecker()
                names = base_names
            else:
                new = FormatChecker(formats=["ipv4", "date"])
                names = {"ipv4", "date"}
            exp = {}
            ref = _baseline_fc_default()
            for n in FMT_NAMES:
                if n in names and n == "fmt-cls":
                    exp[n] = tuple((v == "ok-cls") for v in FMT_VALUES)
                elif n in names:
                    exp[n] = ref[n]
                else:
                    exp[n] = tuple(True for v in FMT_VALUES)
            exp["__names__"] = tuple(sorted(names))
            w.add(w.fresh("fc"), "fc", new, exp)
            return ("created", w.objs[-1][0])
    raise ValueError(op)


_fc_default = {}


def _baseline_fc_default():
    """Per-name conformance columns of the built-in format functions (probed once on a pristine registry)."""
    if not _fc_default:
        saved = dict(FormatChecker.checkers)
        FormatChecker.checkers.clear()
        FormatChecker.checkers.update(G.fc)
        _fc_default.update(probe_formatchecker(FormatChecker()))
        FormatChecker.checkers.clear()
        FormatChecker.checkers.update(saved)
    return _fc_default


class Model(object):
    all_ops = OPS

    def new_world(self):
        return World()

    def ops(self, w):
        return list(OPS)

    def deviation(self, op):
        return 0

    def apply(self, w, op):
        try:
            return apply_op(w, op)
        except Exception as e:
            return ("EXC", type(e).__name__, str(e)[:100])

    def outcome_class(self, op, obs):
        return "%s:%s" % (op[0], obs[0])

    def canon(self, w):
        return tuple((o[1], hash(repr(sorted(o[3].items())))) for o in w.objs)

    def check(self, w, hist, op, obs):
        if obs[0] == "EXC":
            return ("operation-raised|%s|%s" % (op[0], obs[1]), {"observed": obs})
        for name, kind, obj, exp, extra in w.objs:
            got = probe(kind, obj, extra)
            if got != exp:
                keys = diff_keys(got, exp)
                who = "initial-object" if not name.startswith("new") else "derived-object"
                return ("%s-changed|after-%s|%s:%s" % (who, op[0], kind, ",".join(k.split(":")[-1] for k in keys[:3])),
                        {"object": name, "differs_in": keys[:6],
                         "observed": {k: got.get(k) for k in keys[:3]}, "expected": {k: exp.get(k) for k in keys[:3]}})
        return None


MODEL = Model()


def depths(ctx):
    return (3, 3, 0) if ctx.tier == "quick" else (4, 4, 0)


def plan(ctx):
    G.snapshot()
    units = [(i, j) for i in range(len(OPS)) for j in range(len(OPS))]
    units += [(i, -1) for i in range(len(OPS))]          # the histories of length 1
    D0, D1, dev = depths(ctx)
    return {
        "units": units,
        "rule": ("all sequences of %d derivation operations (redefine, redefine_many, remove on type checkers; extend "
                 "with nothing / an overridden keyword / an added keyword / a type checker; create with and without "
                 "version; Validator(types=...); checks on a format-checker instance; FormatChecker.cls_checks; "
                 "FormatChecker() and FormatChecker(formats=...)), each applied to an initial object or to the most "
                 "recently derived one, to depth %d un-merged; after every history every object in existence (14 "
                 "initial + derived) is re-probed with the battery (is_type 9x12, 10 validation probe schemas incl. "
                 "id-relative references and check_schema, conforms 10x6) and compared with the vector predicted "
                 "by the persistent-map model; registries are snapshotted/restored per history; "
                 "distinct_nontrivial = histories that derive at least one object" % (len(OPS), D0)),
        "bounds": {"ops": len(OPS), "depth": D0, "initial_objects": 14, "tier": ctx.tier},
        "assumptions": ["expected vectors of derived objects are predicted from the parent's vector by the model in "
                        "apply_op (override/add changes only that keyword's probes; extend(cls) == cls)"],
    }


def run_unit(unit, ctx):
    first, second = unit
    D0, D1, dev = depths(ctx)
    m = MODEL
    if second == -1:
        r = history.explore(m, [OPS[first]], 1, 1, dev)
    else:
        r = history.explore(m, [OPS[first]], D0, D1, dev, [OPS[second]])
        r["transitions"] -= 1           # the length-1 prefix belongs to the (first, -1) unit
        r["unmerged_histories"] -= 1
    G.restore()
    # restoration verified by re-probing the baseline on a fresh world
    w = World()
    bad = m.check(w, (), ("restore",), ("ok",))
    viol = []
    if bad:
        viol.append({"signature": "C16|registries-not-restored|" + bad[0], "size": 1,
                     "case": {"history": []}, "detail": bad[1]})
    for hist, (sig, detail) in r["violations"]:
        viol.append({"signature": "C16|" + sig, "size": len(hist) * 100 + len(str(hist)),
                     "case": {"history": [list(op) for op in hist]}, "detail": detail})
    nontrivial = sum(v for k, v in r["outcomes"].items() if k.endswith(":created") or k.endswith("registered")
                     or k.endswith("types-arg"))
    return {"evaluations": r["transitions"], "nontrivial": nontrivial, "violations": viol,
            "samples": r["samples"][:1], "outcomes": dict(r["outcomes"]),
            "counters": {"states": len(r["states"]), "transitions": r["transitions"],
                         "traces_validated_against_impl": r["transitions"],
                         "unmerged_histories": r["unmerged_histories"], "max_depth": r["max_depth"]}}


def replay(case, ctx):
    G.snapshot()
    hist = tuple(tuple(op) for op in case["history"])
    try:
        w = history.rebuild(MODEL, hist[:-1])
        obs = MODEL.apply(w, hist[-1])
        bad = MODEL.check(w, hist[:-1], hist[-1], obs)
    finally:
        G.restore()
    return {"reproduced": bad is not None, "observation": obs, "problem": bad}
