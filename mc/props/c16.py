"""C16 — deriving checkers and validator classes never disturbs the originals.

E2, two families of derivation histories, executed in forked children of a process that has never used the
package (no check_schema call, no validation, no probe): a history starts from the state a fresh
interpreter has after the imports and the ORDER OF FIRST USE of every class / checker is exactly the order
the history prescribes.  State the code under test keeps outside the objects of a history (a module-level
table, a class attribute) is therefore not pre-populated by the harness.  The vectors the initial objects
are compared with are recorded the same way: each initial object alone, in its own pristine child.
Every F2 history and every F1 history of length <= 2 has a child of its own; the longer F1 extensions of one
2-prefix run one after the other in one child (registries restored in between, restoration verified).

F1  all sequences of derivation operations (depth 3 quick / 4 thorough) over a pool that starts with the
    four draft classes, their type checkers, the FormatChecker class and the draft format checkers; one
    operation (`use-new`) probes the derived objects, newest first, in the middle of a history.  After the
    last operation every object that exists is re-probed (initial objects first) and compared with the
    vector predicted by a persistent-map model.
F2  first-use orders between a class and the classes derived from it, for every keyword the bundled
    metaschemas use (plus pattern / required / dependencies), overridden by a function that never fails
    (`nop`), by one that always fails (`fail`), left out of the keyword table (`without`), and for two
    changed type checkers: all sequences (depth 2 quick / 3 thorough) of {derive from the draft class,
    derive from the last derived class, derive + register a version, extend with no change, use the last
    class, use the draft class}.  The battery is check_schema on schemas that single metaschema keywords
    reject plus one validation probe per keyword; what a derived class must answer is computed by the
    reference evaluator (mc/ref/spec.py) on the metaschema *file* with the overridden keyword deleted /
    replaced by an unsatisfiable one (entries the model says are unaffected must equal the parent's).
F3  metaschema ids that nearly collide: next to the draft classes two registered dialect classes; operations
    create a registered class whose metaschema id is a near-collision of an existing id (+fragment, other
    fragment, empty fragment, scheme / host case, empty query, query, path case, encoded characters, trailing
    slash, other scheme) or use every class; all sequences (depth 2 quick / 3 thorough), each in its own
    pristine child.  Battery per class: validator_for / validate() by its metaschema URI, new validators for
    $ref to the own metaschema URI (with and without pointer), the metaschema served for the id,
    check_schema.  A newcomer with a different id (reference normalisation: refnorm) disturbs nobody; one
    with the same id leaves the owner of that id unjudged and everybody else undisturbed.
"""
import gc
import json
import os
import pickle
import sys
import traceback
import warnings
import zlib

import jsonschema
from jsonschema import (Draft3Validator, Draft4Validator, Draft6Validator, Draft7Validator, FormatChecker,
                        RefResolver, _format, _types, exceptions, validators as jsv)

from mc.ref import spec          # pure reference evaluator: shares no code or state with the package

ID = "C16"
LEVEL = "model_checking"

CLS = {3: Draft3Validator, 4: Draft4Validator, 6: Draft6Validator, 7: Draft7Validator}
DRAFTS = (3, 4, 6, 7)

TYPE_NAMES = ["any", "array", "boolean", "integer", "null", "number", "object", "string", "foo"]
TYPE_VALUES = [None, True, False, 0, 1.0, 1.5, "", "a", [], [1], {}, {"a": 1}, (1,)]
FMT_NAMES = ["ipv4", "ip-address", "date", "email", "regex", "time", "fmt-a", "fmt-b", "fmt-cls", "nope"]
FMT_VALUES = ["127.0.0.1", "x", "2020-01-01", "ok-a", "ok-cls", 3]


def make_store():
    return {"http://x.invalid/dir/other.json": {"t": {"type": "integer"}},
            "http://y.invalid/dir/other.json": {"t": {"type": "string"}}}


# (tag, schema, instances): tag = the feature the probe exercises
F1_META = [{"type": "integer"}, {"type": 12}, {"minLength": -1}]
CLASS_PROBES = [
    ("type", {"type": "integer"}, [1, 1.0, "s", True]),
    ("type", {"type": "string"}, [1, "s", None]),
    ("type", {"type": "null"}, [None, 0]),
    ("minimum", {"minimum": 5}, [1, 7, "s", "zz"]),
    ("zzz", {"zzz": "anything"}, [1, "s"]),
    ("format", {"format": "ipv4"}, ["127.0.0.1", "x"]),
    ("other", {"maxLength": 1, "enum": ["a", "bb", 1]}, ["a", "bb", 1, 2]),
    ("other", {"properties": {"a": {"type": "boolean"}}, "additionalProperties": False}, [{"a": True}, {"a": 1, "b": 2}]),
    ("ids", {"properties": {"a": {"id": "http://x.invalid/dir/", "$id": "http://y.invalid/dir/",
                                  "items": {"$ref": "other.json#/t"}}}}, [{"a": [1]}, {"a": ["s"]}]),
    ("meta", "check_schema", F1_META),
    ("ref", {"definitions": {"t": {"type": "integer"}}, "properties": {"a": {"$ref": "#/definitions/t"}}},
     [{"a": 1}, {"a": "s"}]),
    ("required", {"required": ["b"]}, [{}, {"b": 1}, {"zz": 1}]),
    ("dependencies", {"dependencies": {"a": ["b"]}}, [{"a": 1}, {"a": 1, "b": 2}, {"zz": 1}]),
]
META_KEY = "9:meta"
assert CLASS_PROBES[9][0] == "meta"
BOTH_IDS = {"id": "http://x.invalid/scope-a", "$id": "http://y.invalid/scope-b"}

META_IDS = ["file:///verif-nonexistent/meta-%d.json" % i for i in (1, 2, 3, 4)]


def _unavailable(uri):
    raise IOError("no such document: " + uri)


def fn_str_is_integer(checker, instance):
    return isinstance(instance, str)


def fn_anything(checker, instance):
    return True


def kw_minimum_custom(validator, value, instance, schema):
    if instance == "zz":
        yield exceptions.ValidationError("custom minimum rejects zz")


def kw_zzz(validator, value, instance, schema):
    if instance == 1:
        yield exceptions.ValidationError("zzz rejects 1")


def fmt_a(instance):
    return instance == "ok-a"


def fmt_a2(instance):
    return instance == "x"


def kw_ref_custom(validator, value, instance, schema):
    yield exceptions.ValidationError("custom ref")


def kw_type_permissive(validator, value, instance, schema):
    return ()


def kw_required_custom(validator, value, instance, schema):
    if isinstance(instance, dict) and "zz" in instance:
        yield exceptions.ValidationError("custom required rejects zz")


def fmt_cls(instance):
    return instance == "ok-cls"


def kw_nop(validator, value, instance, schema):
    return ()


def kw_fail(validator, value, instance, schema):
    yield exceptions.ValidationError("keyword overridden to fail")


# ================================================================ pristine children
class ChildCrash(Exception):
    """The forked child failed outside the code under test (a harness bug, never a verdict)."""


def _package_dir():
    return os.path.dirname(os.path.realpath(jsonschema.__file__)) + os.sep


_frozen = False


def in_child(fn, *args):
    """fn(*args) in a forked child; -> ("ok", value) | ("escaped", exception type, innermost package function, text)."""
    global _frozen
    if not _frozen:
        # everything alive now is shared with every child: keep the collector's bookkeeping off those pages
        # (a full collection in a child would copy the whole heap), and let the short-lived children not collect
        gc.collect()
        gc.freeze()
        _frozen = True
    r, w = os.pipe()
    sys.stdout.flush()
    sys.stderr.flush()
    pid = os.fork()
    if pid == 0:
        try:
            os.close(r)
            try:
                gc.disable()
                warnings.simplefilter("ignore")
                data = ("ok", fn(*args))
            except BaseException as e:           # the child must never return into the caller's loop
                pkg = _package_dir()
                tb = traceback.extract_tb(e.__traceback__)
                inside = [fr for fr in tb if os.path.realpath(fr.filename).startswith(pkg)]
                if inside and not isinstance(e, (KeyboardInterrupt, SystemExit, MemoryError)):
                    data = ("escaped", type(e).__name__, inside[-1].name, str(e)[:200])
                else:
                    data = ("crash", traceback.format_exc()[-3000:])
            blob = pickle.dumps(data, 2)
            off = 0
            while off < len(blob):
                off += os.write(w, blob[off:off + 65536])
        finally:
            os._exit(0)
    os.close(w)
    chunks = []
    while True:
        b = os.read(r, 1 << 16)
        if not b:
            break
        chunks.append(b)
    os.close(r)
    os.waitpid(pid, 0)
    if not chunks:
        raise ChildCrash("child for %r died without an answer" % (args,))
    data = pickle.loads(b"".join(chunks))
    if data[0] == "crash":
        raise ChildCrash("child for %r crashed:\n%s" % (args, data[1]))
    return data


# ================================================================ probing (F1)
def probe_typechecker(tc):
    out = {}
    is_type = tc.is_type
    for t in TYPE_NAMES:
        col = []
        for v in TYPE_VALUES:
            try:
                col.append(bool(is_type(v, t)))
            except exceptions.UndefinedTypeCheck:
                col.append("undefined")
            except Exception as e:
                col.append("EXC " + type(e).__name__)
        out[t] = tuple(col)
    return out


def probe_formatchecker(fc):
    out = {}
    for n in FMT_NAMES:
        col = []
        for v in FMT_VALUES:
            try:
                col.append(bool(fc.conforms(v, n)))
            except Exception as e:
                col.append("EXC " + type(e).__name__)
        out[n] = tuple(col)
    out["__names__"] = tuple(sorted(fc.checkers))
    return out


def _exc_name(e):
    if isinstance(e, exceptions.UnknownType):
        return "UnknownType"
    if isinstance(e, exceptions.RefResolutionError):
        return "RefResolutionError"
    return "EXC " + type(e).__name__


def check_schema_verdict(cls, x):
    try:
        cls.check_schema(x)
        return True
    except exceptions.SchemaError:
        return False
    except Exception as e:
        return _exc_name(e)


def tc_vector(tc, memo):
    """The type checker's whole table as a sorted tuple; one object is probed once per pass (is_type of the
    same object with the same arguments inside one pass: the pool's own entry for that object is the probe)."""
    key = id(tc)
    if memo is None or key not in memo:
        vec = tuple(sorted(probe_typechecker(tc).items()))
        if memo is None:
            return vec
        memo[key] = (tc, vec)
    return memo[key][1]


def probe_class(cls, instance_kwargs=None, memo=None):
    """Vector by tag.  A validator *instance* (made with types=) is probed through the same battery.
    One validator object per probe schema.  Schemas with neither ids nor references get a resolver that is
    never consulted; the `ref` probe uses the resolver the class builds by default, the `ids` probe one built
    with the class's own ID_OF over a store of two documents."""
    out = {}
    kw = instance_kwargs or {}
    if memo is None:
        memo = {}
    if "unused" not in memo:
        memo["unused"] = RefResolver("", {})     # never consulted
        memo["served"] = RefResolver("", {})     # takes its copy of the registered metaschemas when the pass starts
    unused = memo["unused"]
    for i, (tag, schema, insts) in enumerate(CLASS_PROBES):
        if schema == "check_schema":
            out["%d:%s" % (i, tag)] = tuple(check_schema_verdict(cls, x) for x in insts)
            continue
        col = []
        try:
            if tag == "ids":
                r = RefResolver.from_schema(schema, id_of=cls.ID_OF, store=make_store())
                v = cls(schema, resolver=r, format_checker=_format.draft7_format_checker, **kw)
            elif tag == "ref":
                v = cls(schema, format_checker=_format.draft7_format_checker, **kw)
            else:
                v = cls(schema, resolver=unused, format_checker=_format.draft7_format_checker, **kw)
        except Exception as e:
            out["%d:%s" % (i, tag)] = tuple("construct " + _exc_name(e) for x in insts)
            continue
        for x in insts:
            try:
                col.append(tuple(sorted(e.message for e in v.iter_errors(x))))
            except Exception as e:
                col.append(_exc_name(e))
        out["%d:%s" % (i, tag)] = tuple(col)
    out["__tc__"] = tc_vector(cls.TYPE_CHECKER, memo)
    try:
        out["__default_scope__"] = cls(dict(BOTH_IDS), **kw).resolver.resolution_scope
    except Exception as e:
        out["__default_scope__"] = _exc_name(e)
    mid = cls.ID_OF(cls.META_SCHEMA) if isinstance(cls.META_SCHEMA, dict) else ""
    if mid and instance_kwargs is None:
        try:
            url, doc = memo["served"].resolve(mid)
            out["__meta_served__"] = doc == cls.META_SCHEMA
        except exceptions.RefResolutionError:
            out["__meta_served__"] = "RefResolutionError"
        except Exception as e:
            out["__meta_served__"] = "EXC " + type(e).__name__
    return out


def probe_old_validators(vs):
    out = {}
    for mid, v in vs:
        try:
            out[mid] = v.is_valid(5)
        except exceptions.RefResolutionError:
            out[mid] = "RefResolutionError"
        except Exception as e:
            out[mid] = "EXC " + type(e).__name__
    return out


def probe(kind, obj, extra=None, memo=None):
    if kind == "vold":
        return probe_old_validators(obj)
    if kind == "tc":
        if memo is not None:
            return dict(tc_vector(obj, memo))
        return probe_typechecker(obj)
    if kind == "fc":
        return probe_formatchecker(obj)
    if kind == "fcclass":
        return {"__names__": tuple(sorted(obj.checkers))}
    if kind == "vinst":
        return probe_class(obj, extra, memo)
    return probe_class(obj, None, memo)


def diff_keys(a, b):
    return sorted(k for k in set(a) | set(b) if a.get(k) != b.get(k))


# ================================================================ the reference model of a derived class
_meta_files = {}


def meta_file(d):
    """The bundled metaschema as *data* (the file), not the class attribute."""
    if d not in _meta_files:
        with open(os.path.join(_package_dir(), "schemas", "draft%d.json" % d)) as f:
            _meta_files[d] = json.load(f)
    return _meta_files[d]


# keywords that have no function of their own in a draft: another keyword's function reads them
MODIFIERS = {3: {"exclusiveMinimum", "exclusiveMaximum", "required"}, 4: {"exclusiveMinimum", "exclusiveMaximum"},
             6: set(), 7: set()}
SUB_ONE = {"additionalProperties", "additionalItems", "not", "contains", "propertyNames", "if", "then", "else"}
SUB_MAP = {"properties", "patternProperties", "definitions"}
SUB_LIST = {"allOf", "anyOf", "oneOf"}
ANNOTATIONS = {"id", "$id", "$schema", "title", "description", "$comment", "definitions", "readOnly", "examples",
               "contentMediaType", "contentEncoding"}


def reject_all(d):
    return {"disallow": ["any"]} if d == 3 else {"not": {}}


def walk(S, d, f):
    """Copy of schema S with f applied bottom-up to every subschema (schema positions only: the names under
    properties / definitions / dependencies and the values of enum / default / const are data)."""
    if not isinstance(S, dict):
        return S
    out = {}
    for k, v in S.items():
        if k in SUB_ONE and isinstance(v, dict):
            v = walk(v, d, f)
        elif k in SUB_MAP and isinstance(v, dict):
            v = {n: walk(s, d, f) for n, s in v.items()}
        elif k in SUB_LIST and isinstance(v, list):
            v = [walk(s, d, f) for s in v]
        elif k == "items":
            v = [walk(s, d, f) for s in v] if isinstance(v, list) else walk(v, d, f)
        elif k == "dependencies" and isinstance(v, dict):
            v = {n: walk(s, d, f) for n, s in v.items()}
        elif d == 3 and k in ("type", "disallow", "extends"):
            v = [walk(s, d, f) for s in v] if isinstance(v, list) else walk(v, d, f)
        out[k] = v
    return f(out)


def keywords_used(d):
    seen = set()

    def f(S):
        seen.update(S)
        return S
    walk(meta_file(d), d, f)
    return sorted((seen - ANNOTATIONS) | {"pattern", "required", "dependencies"})


def transform(S, d, atoms):
    """What a class whose keyword table was changed by `atoms` makes of schema S, as a schema for the
    unchanged draft: ("nop", k) = k never reports; ("fail", k) = k reports for every instance wherever it
    occurs.  Siblings of $ref are ignored by drafts 3-7, so a neutralised $ref leaves an empty schema."""
    def f(N):
        for mode, k in atoms:
            if mode not in ("nop", "fail") or k not in N:
                continue
            if k == "$ref":
                return {} if mode == "nop" else reject_all(d)
            if "$ref" in N:
                continue                      # never evaluated
            if k not in MODIFIERS[d]:
                N = {kk: vv for kk, vv in N.items() if kk != k}
            if mode == "fail":
                N = dict(N)
                N.update(reject_all(d))
        return N
    return walk(S, d, f) if any(m in ("nop", "fail") for m, k in atoms) else S


TC_VARIANTS = {"string": (fn_anything, lambda x: True),
               "integer": (fn_str_is_integer, lambda x: isinstance(x, str))}


def model_valid(d, atoms, S, x, transformed=None):
    """Verdict of the reference evaluator for instance x under schema S as read by a class = draft d + atoms."""
    redef = {k: TC_VARIANTS[k][1] for m, k in atoms if m == "tc"}
    T = transform(S, d, atoms) if transformed is None else transformed
    if not redef:
        return not spec.errs(d, T, x)
    orig = spec.is_type

    def patched(draft, v, name):
        if name in redef:
            return redef[name](v)
        return orig(draft, v, name)
    spec.is_type = patched
    try:
        return not spec.errs(d, T, x)
    finally:
        spec.is_type = orig


_model_memo = {}


def model_meta(d, atoms, probes_key, probes):
    """Model check_schema verdicts of (draft d + atoms) for a list of candidate schemas."""
    key = (d, atoms, probes_key)
    if key not in _model_memo:
        M = meta_file(d)
        T = transform(M, d, atoms)
        _model_memo[key] = tuple(model_valid(d, atoms, M, x, T) for x in probes)
    return _model_memo[key]


def model_val(d, atoms):
    key = (d, atoms, "val")
    if key not in _model_memo:
        _model_memo[key] = tuple(model_valid(d, atoms, S, x) for S, x in val2(d))
    return _model_memo[key]


def derive(parent_expected, parent_model, child_model):
    """Entries where the model gives parent and child the same answer must stay the parent's (recorded) ones;
    the others take the model's answer for the child."""
    return tuple(pe if pm == cm else cm for pe, pm, cm in zip(parent_expected, parent_model, child_model))


# ================================================================ world (F1)
class Globals(object):
    def state(self):
        return (dict(FormatChecker.checkers), dict(jsv.validators), dict(jsv.meta_schemas.store),
                {k: dict(v.checkers) for k, v in _format._draft_checkers.items()})

    def snapshot(self):
        self.snap = self.state()

    def unchanged(self):
        return self.state() == self.snap

    def restore(self):
        fc, vals, meta, draft = self.snap
        FormatChecker.checkers.clear()
        FormatChecker.checkers.update(fc)
        jsv.validators.clear()
        jsv.validators.update(vals)
        jsv.meta_schemas.store.clear()
        jsv.meta_schemas.store.update(meta)
        for k, v in _format._draft_checkers.items():
            v.checkers.clear()
            v.checkers.update(draft[k])


G = Globals()
_baseline = {}
_fc_default = {}


def initial_objects():
    out = [("Draft%d" % d, "class", CLS[d]) for d in DRAFTS]
    out += [(n + "_type_checker", "tc", getattr(_types, n + "_type_checker")) for n in ("draft3", "draft4", "draft6")]
    out += [(n + "_format_checker", "fc", fc) for n, fc in sorted(_format._draft_checkers.items())]
    out.append(("FormatChecker", "fcclass", FormatChecker))
    return out


def _baseline_one(i):
    name, kind, obj = initial_objects()[i]
    return probe(kind, obj)


def _baseline_fc():
    return probe_formatchecker(FormatChecker())


def _baseline_f2(d):
    return probe2(CLS[d], d)


def ensure_baseline():
    """Every initial object is probed alone, in its own pristine child: `the probes recorded when the object
    was created`, with nothing else used before."""
    if _baseline:
        return
    for i, (name, kind, obj) in enumerate(initial_objects()):
        _baseline[(name, kind)] = _child_value(in_child(_baseline_one, i), "baseline of " + name)
    _fc_default.update(_child_value(in_child(_baseline_fc), "baseline of FormatChecker()"))
    for d in DRAFTS:
        _baseline[("F2", d)] = _child_value(in_child(_baseline_f2, d), "F2 baseline of draft %d" % d)
        for atoms in F1_ATOM_SEQS:
            model_meta(d, atoms, "f1", F1_META)
    _baseline[("F3",)] = _child_value(in_child(_baseline_f3), "F3 baseline")


class Escaped(Exception):
    pass


def _child_value(res, what):
    if res[0] != "ok":
        raise Escaped("%s: %s escaped from %s: %s" % (what, res[1], res[2], res[3]))
    return res[1]


class World(object):
    def __init__(self):
        self.objs = []      # [name, kind, object, expected vector, extra, model]
        for name, kind, obj in initial_objects():
            model = (int(name[5:]), ()) if kind == "class" else None
            self.objs.append([name, kind, obj, _baseline[(name, kind)], None, model])
        # validator objects built now, referring to metaschema ids that only later operations register:
        # they took their snapshot of the known metaschemas at construction and must keep failing to resolve these
        # (their resolvers get a handler for the scheme of those ids, so that a failing retrieval costs nothing)
        olds = [(mid, CLS[7]({"$ref": mid}, resolver=RefResolver("", {"$ref": mid}, handlers={"file": _unavailable})))
                for mid in META_IDS]
        self.objs.append(["validators-built-before", "vold", olds,
                          {mid: "RefResolutionError" for mid in META_IDS}, None, None])
        self.cls_formats = []      # names registered class-wide so far
        self.counter = 0

    def add(self, name, kind, obj, expected, extra=None, model=None):
        self.objs.append([name, kind, obj, expected, extra, model])

    def get(self, name):
        for o in self.objs:
            if o[0] == name:
                return o
        raise KeyError(name)

    def last(self, kind, default):
        for o in reversed(self.objs):
            if o[1] == kind and o[0].startswith("new"):
                return o
        return self.get(default)

    def fresh(self, prefix):
        self.counter += 1
        return "new%d-%s" % (self.counter, prefix)


def with_changes(vec, changes):
    out = dict(vec)
    out.update(changes)
    return out


BASES = ["Draft3", "Draft7", "LAST"]
OPS = ([("tc.redefine", b) for b in ("draft4_type_checker", "LAST")] +
       [("tc.redefine_many", "draft3_type_checker"), ("tc.remove", "draft6_type_checker"), ("tc.remove", "LAST")] +
       [("extend", b) for b in BASES] + [("extend+override", b) for b in BASES] +
       [("extend+add", b) for b in ("Draft4", "LAST")] + [("extend+tc", b) for b in ("Draft6", "LAST")] +
       [("extend+override-ref", "Draft4"), ("extend+override-ref", "LAST"), ("extend+override-required", "Draft4"),
        ("extend+override-required", "LAST"),
        ("extend+override+version", "Draft7"), ("extend+tc+version", "Draft4"), ("create+default_types", "Draft3")] +
       [("create", "Draft4"), ("create+version", "Draft7"), ("types-arg", "Draft4"), ("types-arg", "LAST")] +
       [("fc.checks", "draft7_format_checker"), ("fc.checks", "LAST"), ("fc.rechecks", "LAST"), ("cls_checks",),
        ("fc.new",), ("fc.new-subset",), ("use-new",)])

# what each keyword-changing operation of F1 means to the model (none of the F1 check_schema candidates
# contains "zz", so the custom minimum / required functions never report there)
F1_ATOMS = {"extend+override": ("nop", "minimum"), "extend+override-ref": ("fail", "$ref"),
            "extend+override-required": ("nop", "required"), "extend+override+version": ("nop", "type")}


def created_kind(op):
    """Kind of object the operation derives when it succeeds (static)."""
    k = op[0]
    if k.startswith("tc."):
        return "tc"
    if k.startswith("extend") or k.startswith("create"):
        return "class"
    if k == "types-arg":
        return "vinst"
    if k in ("fc.new", "fc.new-subset"):
        return "fc"
    return None


# (operation on LAST) -> (kind it looks for, the explicit operation it equals while no such object exists)
LAST_IS = {("tc.redefine", "LAST"): ("tc", ("tc.redefine", "draft4_type_checker")),
           ("extend", "LAST"): ("class", ("extend", "Draft7")),
           ("extend+override", "LAST"): ("class", ("extend+override", "Draft7"))}
assert all(v[1] in OPS and k in OPS for k, v in LAST_IS.items())


def _seqs(alphabet, n):
    out = [()]
    for i in range(n):
        out += [s + (a,) for s in out if len(s) == i for a in alphabet]
    return out


F1_ATOM_SEQS = _seqs(sorted(set(F1_ATOMS.values())), 3)


def resolve_target(w, kind, name, default):
    if name == "LAST":
        return w.last(kind, default)
    return w.get(name)


def no_type_messages(vec):
    """The parent's vector as a class whose `type` keyword accepts everything must give it: the type
    messages disappear from every validation probe, everything else stays."""
    out = {}
    for k, col in vec.items():
        if k[0].isdigit() and k != META_KEY:
            col = tuple(tuple(m for m in c if "is not of type" not in m) if isinstance(c, tuple) else c for c in col)
        out[k] = col
    return out


def apply_op(w, op):
    """Performs the derivation; records the model's expectation for the new object. Returns an observation."""
    k = op[0]
    if k == "use-new":
        memo = {}
        for name, kind, obj, exp, extra, model in reversed(w.objs):
            if not name.startswith("new"):
                continue
            got = probe(kind, obj, extra, memo)
            if got != exp:
                keys = diff_keys(got, exp)
                return ("use-mismatch", name, kind, keys[:6], {kk: got.get(kk) for kk in keys[:3]},
                        {kk: exp.get(kk) for kk in keys[:3]})
        return ("used", sum(1 for o in w.objs if o[0].startswith("new")))
    if k.startswith("tc."):
        parent = resolve_target(w, "tc", op[1], "draft4_type_checker")
        tc, pv = parent[2], parent[3]
        if k == "tc.redefine":
            new = tc.redefine("integer", fn_str_is_integer)
            exp = with_changes(pv, {"integer": tuple(isinstance(v, str) for v in TYPE_VALUES)})
        elif k == "tc.redefine_many":
            new = tc.redefine_many({"string": fn_anything, "foo": fn_anything})
            exp = with_changes(pv, {"string": tuple(True for v in TYPE_VALUES),
                                    "foo": tuple(True for v in TYPE_VALUES)})
        else:
            if pv.get("null", ("undefined",))[0] == "undefined":
                try:
                    tc.remove("null")
                    return ("remove-did-not-raise",)
                except exceptions.UndefinedTypeCheck:
                    return ("UndefinedTypeCheck",)
            new = tc.remove("null")
            exp = with_changes(pv, {"null": tuple("undefined" for v in TYPE_VALUES)})
        w.add(w.fresh("tc"), "tc", new, exp)
        return ("created", w.objs[-1][0])
    if k.startswith("extend") or k.startswith("create"):
        parent = resolve_target(w, "class", op[1], "Draft7")
        cls, pv, pmodel = parent[2], parent[3], parent[5]
        changes = {}
        model = pmodel
        if k in F1_ATOMS and pmodel is not None:
            model = (pmodel[0], pmodel[1] + (F1_ATOMS[k],))
        elif k in F1_ATOMS:
            model = None
        if k == "extend":
            new = jsv.extend(cls)
        elif k == "extend+override":
            new = jsv.extend(cls, validators={"minimum": kw_minimum_custom})
            changes = {"3:minimum": ((), (), (), ("custom minimum rejects zz",))}
        elif k == "extend+add":
            new = jsv.extend(cls, validators={"zzz": kw_zzz})
            changes = {"4:zzz": (("zzz rejects 1",), ())}
        elif k == "extend+override-ref":
            new = jsv.extend(cls, validators={"$ref": kw_ref_custom})
            changes = {"8:ids": (("custom ref",), ("custom ref",)), "10:ref": (("custom ref",), ("custom ref",))}
        elif k == "extend+override-required":
            new = jsv.extend(cls, validators={"required": kw_required_custom})
            # only the probes of the keyword itself change (dependencies keeps its own meaning)
            changes = {"11:required": ((), (), ("custom required rejects zz",))}
        elif k == "extend+override+version":
            # registered under the parent's own metaschema id, with a `type` keyword that accepts everything
            # (so its check_schema accepts what the parent's rejects): the parent itself must not notice
            new = jsv.extend(cls, validators={"type": kw_type_permissive},
                             version="verif-ext%d" % (w.counter + 1))
            pv = no_type_messages(pv)
        elif k == "extend+tc+version":
            tcp = w.last("tc", "draft3_type_checker")
            try:
                new = jsv.extend(cls, type_checker=tcp[2], version="verif-tc%d" % (w.counter + 1))
            except TypeError:
                return ("TypeError",)
            w.add(w.fresh("class"), "class", new, probe("class", new))       # recorded at creation, must stay fixed
            return ("created", w.objs[-1][0])
        elif k == "create+default_types":
            new = jsv.create(meta_schema=cls.META_SCHEMA, validators=cls.VALIDATORS, id_of=cls.ID_OF,
                             default_types={"array": (list, tuple), "object": dict, "string": str,
                                            "number": (int, float), "integer": int, "null": type(None),
                                            "boolean": bool, "foo": (bytes,)})
            # a new type table: recorded once; children must inherit it
            w.add(w.fresh("class"), "class", new, probe("class", new))
            return ("created", w.objs[-1][0])
        elif k == "extend+tc":
            tcp = w.last("tc", "draft3_type_checker")
            try:
                new = jsv.extend(cls, type_checker=tcp[2])
            except TypeError:
                return ("TypeError",)
            # the expectation for a class with a foreign type checker: everything not involving types is the
            # parent's; the type-involving part is recorded at creation and must stay fixed afterwards
            vec = probe("class", new)
            if vec["__tc__"] != tuple(sorted(tcp[3].items())):
                exp = {"__tc__": "type checker of the extended class differs from the one passed"}
            else:
                keep = {kk: vv for kk, vv in pv.items() if kk.split(":")[-1] in ("zzz", "format")}
                exp = with_changes(vec, keep)
            w.add(w.fresh("class"), "class", new, exp)
            return ("created", w.objs[-1][0])
        elif k == "create":
            new = jsv.create(meta_schema=cls.META_SCHEMA, validators=cls.VALIDATORS,
                             type_checker=cls.TYPE_CHECKER, id_of=cls.ID_OF)
        else:
            meta = dict(cls.META_SCHEMA)
            meta["$id"] = meta["id"] = META_IDS[min(w.counter, len(META_IDS) - 1)]
            new = jsv.create(meta_schema=meta, validators=cls.VALIDATORS, type_checker=cls.TYPE_CHECKER,
                             id_of=cls.ID_OF, version="verif%d" % (w.counter + 1))
        exp = with_changes(pv, changes)
        if model is not None and pmodel is not None:
            # check_schema evaluates the metaschema with the class itself: the overridden keyword (and nothing
            # else) changes there too
            exp[META_KEY] = derive(pv[META_KEY], model_meta(pmodel[0], pmodel[1], "f1", F1_META),
                                   model_meta(model[0], model[1], "f1", F1_META))
        elif model is None and k in F1_ATOMS:
            exp[META_KEY] = probe("class", new)[META_KEY]     # parent without a model: recorded at creation
        w.add(w.fresh("class"), "class", new, exp, None, model)
        return ("created", w.objs[-1][0])
    if k == "types-arg":
        parent = resolve_target(w, "class", op[1], "Draft4")
        cls, pv = parent[2], parent[3]
        extra = {"types": {"integer": (int, str)}}
        vec = probe("vinst", cls, extra)
        # the instance itself treats strings as integers; recorded once, must stay; the class must not change
        w.add(w.fresh("vinst-of-" + parent[0]), "vinst", cls, vec, extra)
        got = vec.get("0:type")
        return ("types-arg", got[2] if got else None)
    if k == "fc.checks":
        parent = resolve_target(w, "fc", op[1], "draft7_format_checker") if op[1] != "LAST" else w.last("fc", "draft4_format_checker")
        fc, pv = parent[2], parent[3]
        name = "fmt-a" if "fmt-a" not in fc.checkers else "fmt-b"
        fc.checks(name)(fmt_a)
        exp = with_changes(pv, {name: tuple((v == "ok-a") for v in FMT_VALUES),
                                "__names__": tuple(sorted(set(pv["__names__"]) | {name}))})
        parent[3] = exp       # this very object changes, by design; nobody else may
        return ("registered", parent[0], name)
    if k == "fc.rechecks":
        parent = w.last("fc", "draft4_format_checker")
        fc, pv = parent[2], parent[3]
        for v in FMT_VALUES:                       # use it first (anything memoised gets memoised now)
            fc.conforms(v, "fmt-a")
        fc.checks("fmt-a")(fmt_a2)                 # then replace the function behind the same name
        exp = with_changes(pv, {"fmt-a": tuple((v == "x") for v in FMT_VALUES),
                                "__names__": tuple(sorted(set(pv["__names__"]) | {"fmt-a"}))})
        parent[3] = exp
        return ("re-registered", parent[0])
    if k == "cls_checks":
        FormatChecker.cls_checks("fmt-cls")(fmt_cls)
        if "fmt-cls" not in w.cls_formats:
            w.cls_formats.append("fmt-cls")
        o = w.get("FormatChecker")
        o[3] = {"__names__": tuple(sorted(set(o[3]["__names__"]) | {"fmt-cls"}))}
        return ("cls-registered",)
    if k in ("fc.new", "fc.new-subset"):
        base_names = set(w.get("FormatChecker")[3]["__names__"])
        if k == "fc.new":
            new = FormatChecker()
            names = base_names
        else:
            new = FormatChecker(formats=["ipv4", "date"])
            names = {"ipv4", "date"}
        exp = {}
        ref = _fc_default
        for n in FMT_NAMES:
            if n in names and n == "fmt-cls":
                exp[n] = tuple((v == "ok-cls") for v in FMT_VALUES)
            elif n in names:
                exp[n] = ref[n]
            else:
                exp[n] = tuple(True for v in FMT_VALUES)
        exp["__names__"] = tuple(sorted(names))
        w.add(w.fresh("fc"), "fc", new, exp)
        return ("created", w.objs[-1][0])
    raise ValueError(op)


def _digest(x):
    return zlib.crc32(repr(x).encode("utf-8", "backslashreplace"))


class Model(object):
    family = "F1"

    def new_world(self):
        return World()

    def ops(self, hist):
        """Operations enabled after `hist`: one that targets `the last derived X` while no operation that could
        have derived an X has happened would be, exactly, the operation that names the default object (those
        pairs are listed in LAST_IS); use-new with nothing derived probes nothing."""
        kinds = set(created_kind(h) for h in hist)
        out = []
        for op in OPS:
            if op[0] == "use-new" and not (kinds - {None}):
                continue
            if op in LAST_IS and LAST_IS[op][0] not in kinds:
                continue
            out.append(op)
        return out

    def apply(self, w, op):
        try:
            return apply_op(w, op)
        except Exception as e:
            return ("EXC", type(e).__name__, str(e)[:100])

    def outcome_class(self, op, obs):
        return "%s:%s" % (op[0], obs[0])

    def canon(self, w):
        return _digest(tuple((o[1], _digest(sorted(o[3].items()))) for o in w.objs))

    def check(self, w, op, obs):
        if obs[0] == "EXC":
            return ("operation-raised|%s|%s" % (op[0], obs[1]), {"observed": obs})
        if obs[0] == "use-mismatch":
            return ("derived-object-differs-when-first-used|%s:%s" % (obs[2], ",".join(k.split(":")[-1] for k in obs[3][:3])),
                    {"object": obs[1], "differs_in": obs[3], "observed": obs[4], "expected": obs[5]})
        memo = {}
        for name, kind, obj, exp, extra, model in w.objs:
            got = probe(kind, obj, extra, memo)
            if got != exp:
                keys = diff_keys(got, exp)
                who = "initial-object" if not name.startswith("new") else "derived-object"
                return ("%s-changed|%s:%s" % (who, kind, ",".join(k.split(":")[-1] for k in keys[:3])),
                        {"object": name, "after": list(op), "differs_in": keys[:6],
                         "observed": {k: got.get(k) for k in keys[:3]}, "expected": {k: exp.get(k) for k in keys[:3]}})
        return None


MODEL = Model()


# ================================================================ F2: first-use orders around one keyword
def rich_schema(d):
    """A schema the draft's metaschema accepts and that makes the metaschema evaluate (nearly) every keyword it
    uses on conforming data: an always-failing override of any of them turns check_schema to `rejected`."""
    S = {"type": ["string", "integer"], "properties": {"a": {"minLength": 3}}, "items": [{}],
         "additionalProperties": False, "minimum": 1, "pattern": "^a", "enum": [1], "uniqueItems": True,
         "format": "ipv4", "default": 1}
    if d == 3:
        S.update({"divisibleBy": 2, "exclusiveMinimum": True, "dependencies": {"a": "b"}})
    else:
        S.update({"multipleOf": 2, "required": ["a"], "dependencies": {"a": ["b"]}, "allOf": [{}], "anyOf": [{}]})
        S["exclusiveMinimum"] = True if d == 4 else 1
    if d >= 6:
        S.update({"patternProperties": {"^a": {}}, "propertyNames": {}})
    return S


def meta2(d):
    mult = "divisibleBy" if d == 3 else "multipleOf"
    L = [{"type": "integer"}, rich_schema(d), {"type": 12}, {"type": "foo"}, {"type": ["string", "string"]},
         {"properties": {"a": 1}}, {"items": [1]}, {"additionalProperties": 1},
         {"minLength": -1}, {mult: 0}, {"exclusiveMinimum": True},
         {"required": []}, {"required": ["a", "a"]}, {"dependencies": {"a": 1}}, {"pattern": "("}, {"pattern": 5},
         {"minLength": "3"}]
    if d >= 4:
        L += [{"allOf": []}]
    if d >= 6:
        L += [{"patternProperties": {"(": {}}}]
    return L


_val2 = {}


def val2(d):
    """(schema, instance) pairs: per keyword one instance its schema rejects and one it accepts."""
    if d in _val2:
        return _val2[d]
    L = [({"type": "integer"}, "s", 1), ({"minimum": 5}, 1, 7),
         (({"minimum": 5, "exclusiveMinimum": True}, 5, 6) if d <= 4 else ({"exclusiveMinimum": 5}, 5, 6)),
         ({"items": {"type": "integer"}}, ["s"], [1]), ({"properties": {"a": {"type": "integer"}}}, {"a": "s"}, {"a": 1}),
         ({"additionalProperties": False}, {"a": 1}, {}), ({"uniqueItems": True}, [1, 1], [1, 2]), ({"enum": [1]}, 2, 1),
         # (draft 3 in its string form: the draft-3 function asks the type checker which form it has got, so a
         # redefined `string` legitimately changes how the array form is read)
         ({"dependencies": {"a": "b" if d == 3 else ["b"]}}, {"a": 1}, {"a": 1, "b": 2}),
         ({"definitions": {"t": {"type": "integer"}}, "$ref": "#/definitions/t"}, "s", 1),
         ({"pattern": "^a"}, "b", "a"), ({"format": "ipv4"}, "x", "127.0.0.1"), ({"minItems": 2}, [1], [1, 2]),
         ({"default": 1}, 2, 1),
         (({"properties": {"a": {"required": True}}}, {}, {"a": 1}) if d == 3 else ({"required": ["a"]}, {}, {"a": 1}))]
    if d >= 4:
        L += [({"anyOf": [{"type": "integer"}]}, "s", 1), ({"allOf": [{"type": "integer"}]}, "s", 1)]
    if d >= 6:
        L += [({"propertyNames": {"pattern": "^a"}}, {"b": 1}, {"a": 1})]
    _val2[d] = [(S, x) for S, bad, good in L for x in (bad, good)]
    return _val2[d]


def probe2(cls, d):
    out = {"meta": tuple(check_schema_verdict(cls, x) for x in meta2(d))}
    col = []
    unused = RefResolver("", {})
    last = v = None
    for S, x in val2(d):
        try:
            if S is not last:            # one validator object per probe schema
                v = cls(S) if "$ref" in S else cls(S, resolver=unused)
                last = S
            col.append(bool(v.is_valid(x)))
        except Exception as e:
            col.append(_exc_name(e))
    out["val"] = tuple(col)
    out["__tc__"] = tc_vector(cls.TYPE_CHECKER, None)
    try:
        out["__default_scope__"] = cls(dict(BOTH_IDS)).resolver.resolution_scope
    except Exception as e:
        out["__default_scope__"] = _exc_name(e)
    try:
        url, doc = RefResolver("", {}).resolve(cls.ID_OF(cls.META_SCHEMA))
        out["__meta_served__"] = doc == cls.META_SCHEMA
    except Exception as e:
        out["__meta_served__"] = _exc_name(e)
    return out


def f2_units():
    units = []
    for d in DRAFTS:
        for k in keywords_used(d):
            units.append(("F2", d, k, "nop"))
            units.append(("F2", d, k, "fail"))
        for t in sorted(TC_VARIANTS):
            units.append(("F2", d, t, "tc"))
    return units


def f2_ops(mode):
    ops = [("ov", "BASE"), ("ov", "LAST"), ("ov+version", "BASE"), ("plain", "BASE"), ("plain", "LAST")]
    if mode == "nop":
        ops.append(("without", "BASE"))
    return ops + [("use", "LAST"), ("use", "BASE")]


class World2(object):
    def __init__(self, d, k, mode):
        self.d, self.k, self.mode = d, k, mode
        self.objs = [["Draft%d" % d, CLS[d], _baseline[("F2", d)], ()]]     # name, class, expected, atoms
        self.counter = 0


class Model2(object):
    family = "F2"

    def __init__(self, d, k, mode):
        self.d, self.k, self.mode = d, k, mode

    def new_world(self):
        return World2(self.d, self.k, self.mode)

    def ops(self, hist):
        derived = any(h[0] not in ("use",) for h in hist)
        return [op for op in f2_ops(self.mode) if derived or op[1] != "LAST"]

    def outcome_class(self, op, obs):
        return "F2:%s:%s:%s" % (self.mode, op[0], obs[0])

    def canon(self, w):
        return _digest(tuple(_digest(sorted(o[2].items())) for o in w.objs))

    def expected(self, parent, atoms):
        d = self.d
        pe, pa = parent[2], parent[3]
        exp = dict(pe)
        exp["meta"] = derive(pe["meta"], model_meta(d, pa, "f2", meta2(d)), model_meta(d, atoms, "f2", meta2(d)))
        exp["val"] = derive(pe["val"], model_val(d, pa), model_val(d, atoms))
        if self.mode == "tc" and atoms != pa:
            col = tuple(bool(TC_VARIANTS[self.k][1](v)) for v in TYPE_VALUES)
            exp["__tc__"] = tuple(sorted(with_changes(dict(pe["__tc__"]), {self.k: col}).items()))
        return exp

    def apply(self, w, op):
        try:
            return self._apply(w, op)
        except Exception as e:
            return ("EXC", type(e).__name__, str(e)[:100])

    def _apply(self, w, op):
        target = w.objs[0] if op[1] == "BASE" else w.objs[-1]
        cls = target[1]
        if op[0] == "use":
            got = probe2(cls, w.d)
            if got != target[2]:
                keys = diff_keys(got, target[2])
                return ("use-mismatch", target[0], keys, {k: got.get(k) for k in keys[:3]},
                        {k: target[2].get(k) for k in keys[:3]})
            return ("used", target[0])
        atoms = target[3]
        w.counter += 1
        if op[0] == "plain":
            new = jsv.extend(cls)
        elif op[0] == "without":
            new = jsv.create(meta_schema=cls.META_SCHEMA,
                             validators={kk: vv for kk, vv in cls.VALIDATORS.items() if kk != w.k},
                             type_checker=cls.TYPE_CHECKER, id_of=cls.ID_OF)
            atoms = atoms + (("nop", w.k),)
        else:
            kw = {"version": "verif-f2-%d" % w.counter} if op[0] == "ov+version" else {}
            if w.mode == "tc":
                new = jsv.extend(cls, type_checker=cls.TYPE_CHECKER.redefine(w.k, TC_VARIANTS[w.k][0]), **kw)
            else:
                new = jsv.extend(cls, validators={w.k: kw_nop if w.mode == "nop" else kw_fail}, **kw)
            atoms = atoms + ((w.mode, w.k),)
        w.objs.append(["new%d-%s" % (w.counter, op[0]), new, self.expected(target, atoms), atoms])
        return ("created", w.objs[-1][0])

    def check(self, w, op, obs):
        if obs[0] == "EXC":
            return ("F2|operation-raised|%s|%s" % (op[0], obs[1]), {"observed": obs})
        if obs[0] == "use-mismatch":
            who = "derived-class" if obs[1].startswith("new") else "draft-class"
            return ("F2|%s-differs-when-used|%s|%s" % (who, self.mode, ",".join(obs[2][:3])),
                    {"object": obs[1], "differs_in": obs[2], "observed": obs[3], "expected": obs[4],
                     "probes": self.probes_named(obs[3], obs[4])})
        for name, cls, exp, atoms in w.objs:
            got = probe2(cls, w.d)
            if got != exp:
                keys = diff_keys(got, exp)
                who = "derived-class" if name.startswith("new") else "draft-class"
                o, e = {k: got.get(k) for k in keys[:3]}, {k: exp.get(k) for k in keys[:3]}
                return ("F2|%s-changed|%s|%s" % (who, self.mode, ",".join(keys[:3])),
                        {"object": name, "differs_in": keys, "observed": o, "expected": e,
                         "probes": self.probes_named(o, e)})
        return None

    def probes_named(self, got, exp):
        out = []
        for key, lst in (("meta", meta2(self.d)), ("val", val2(self.d))):
            if key in got and isinstance(got[key], tuple) and isinstance(exp.get(key), tuple):
                out += [(key, lst[i], got[key][i], exp[key][i]) for i in range(len(lst)) if got[key][i] != exp[key][i]][:4]
        return out


# ================================================================ F3: metaschema ids that nearly collide
# A class registered under a version name files its metaschema id in validators.meta_schemas.  A newcomer whose
# id is a *different* URI than an existing class's id must not take over anything of that class, however close
# the two URIs are: same URI plus a fragment, another fragment, a query, another path case, an encoded reserved
# character, a trailing slash, another scheme.  Ids that are the same URI under the reference normalisation
# below (scheme and host case, an empty fragment, an empty query, an encoded unreserved character) name the
# same document; what happens to the class that used to own the id is then not demanded, only that nobody
# else is disturbed.
ACME = "http://example.com/dialects/acme"
BOLT = "http://example.com/dialects/bolt#v1"
F3_TARGETS = ["Draft4", "Draft7", "Acme", "Bolt"]
F3_INSTANCES = [{}, {"type": 12}, {"title": 3}, {"title": "t"}, 12]
UNRESERVED = "ABCDEFGHIJKLMNOPQRSTUVWXYZabcdefghijklmnopqrstuvwxyz0123456789-._~"


def _blocked(uri):
    raise IOError("retrieval is blocked in this check: " + uri)


BLOCK = {"http": _blocked, "https": _blocked, "file": _blocked}


def refnorm(u):
    """Reference normalisation (RFC 3986 6.2.2 plus the empty fragment / empty query the library has always
    dropped): two ids with the same refnorm are the same id, all others are different ids."""
    base, sep, frag = u.partition("#")
    if base.endswith("?"):
        base = base[:-1]
    scheme, _, rest = base.partition("://")
    host, slash, path = rest.partition("/")
    out, i = [], 0
    while i < len(path):
        if path[i] == "%" and len(path[i + 1:i + 3]) == 2:
            try:
                c = chr(int(path[i + 1:i + 3], 16))
            except ValueError:
                c = None
            if c is not None and c in UNRESERVED:
                out.append(c)
                i += 3
                continue
            out.append(path[i:i + 3].upper())
            i += 3
            continue
        out.append(path[i])
        i += 1
    return scheme.lower() + "://" + host.lower() + slash + "".join(out) + ("#" + frag if frag else "")


def _v_upper_host(U):
    scheme, _, rest = U.partition("://")
    host, slash, tail = rest.partition("/")
    return scheme + "://" + host.upper() + slash + tail


def _v_pct_reserved(U):
    base, sep, frag = U.partition("#")
    i = base.rindex("/")
    return base[:i] + "%2F" + base[i + 1:] + sep + frag


F3_VARIANTS = [
    ("fragment", lambda U: U.partition("#")[0] + "#strict"),
    ("pointer-fragment", lambda U: U.partition("#")[0] + "#/lenient"),
    ("empty-fragment-toggled", lambda U: U[:-1] if U.endswith("#") else U.partition("#")[0] + "#"),
    ("upper-scheme", lambda U: U[:4].upper() + U[4:]),
    ("upper-host", _v_upper_host),
    ("empty-query", lambda U: U.partition("#")[0] + "?" + U[len(U.partition("#")[0]):]),
    ("query", lambda U: U.partition("#")[0] + "?v=2" + U[len(U.partition("#")[0]):]),
    ("path-case", lambda U: U.partition("#")[0][:-1] + U.partition("#")[0][-1].upper() + U[len(U.partition("#")[0]):]),
    ("encoded-reserved", _v_pct_reserved),
    ("encoded-unreserved", lambda U: U.partition("#")[0][:-1] + "%%%02X" % ord(U.partition("#")[0][-1]) + U[len(U.partition("#")[0]):]),
    ("trailing-slash", lambda U: U.partition("#")[0] + "/" + U[len(U.partition("#")[0]):]),
    ("other-scheme", lambda U: "https" + U[4:]),
]
F3_OPS = [("create", t, v) for t in F3_TARGETS for v, fn in F3_VARIANTS] + [("use",)]
REGISTRY_KEYS = ("for", "self", "pointer", "validate", "served")


def probe3(cls, U):
    """What new validators of the class, and look-ups by its metaschema URI, give right now."""
    out = {}
    try:
        out["for"] = jsv.validator_for({"$schema": U}, default=None) is cls
    except Exception as e:
        out["for"] = _exc_name(e)
    for key, schema, insts in (("self", {"$ref": U}, F3_INSTANCES),
                               ("pointer", {"items": {"$ref": U.partition("#")[0] + "#/properties/title"}}, [["a", 1], [3]])):
        col = []
        try:
            v = cls(schema, resolver=RefResolver.from_schema(schema, id_of=cls.ID_OF, handlers=BLOCK))
        except Exception as e:
            out[key] = "construct " + _exc_name(e)
            continue
        for x in insts:
            try:
                col.append(tuple(sorted(e.message for e in v.iter_errors(x))))
            except Exception as e:
                col.append(_exc_name(e))
        out[key] = tuple(col)
    col = []
    for x in (1, "s"):
        try:
            jsonschema.validate(x, {"$schema": U, "type": "integer"})
            col.append("valid")
        except exceptions.ValidationError:
            col.append("ValidationError")
        except exceptions.SchemaError:
            col.append("SchemaError")
        except Exception as e:
            col.append(_exc_name(e))
    out["validate"] = tuple(col)
    try:
        url, doc = RefResolver("", {}, handlers=BLOCK).resolve(U)
        out["served"] = doc == cls.META_SCHEMA
    except Exception as e:
        out["served"] = _exc_name(e)
    out["meta"] = tuple(check_schema_verdict(cls, x) for x in F1_META)
    return out


def _dialect_meta(key, uri):
    return {key: uri, "type": ["object", "boolean"] if key == "$id" else "object",
            "properties": {"title": {"type": "string"}, "type": {"type": "string"}}}


class World3(object):
    def __init__(self, record=False):
        acme = jsv.create(meta_schema=_dialect_meta("$id", ACME), validators=Draft7Validator.VALIDATORS,
                          type_checker=Draft7Validator.TYPE_CHECKER, version="verif-acme")
        bolt = jsv.create(meta_schema=_dialect_meta("$id", BOLT), validators=Draft7Validator.VALIDATORS,
                          type_checker=Draft7Validator.TYPE_CHECKER, version="verif-bolt")
        self.objs = []              # [name, class, metaschema id, expected vector, keys without a demand]
        for name, cls in [("Draft%d" % d, CLS[d]) for d in DRAFTS] + [("Acme", acme), ("Bolt", bolt)]:
            U = cls.ID_OF(cls.META_SCHEMA)
            self.objs.append([name, cls, U, probe3(cls, U) if record else None, set()])
        if not record:
            for o, vec in zip(self.objs, _baseline[("F3",)]):
                o[3] = vec
        self.counter = 0

    def get(self, name):
        for o in self.objs:
            if o[0] == name:
                return o
        raise KeyError(name)


def _baseline_f3():
    return [o[3] for o in World3(record=True).objs]


class Model3(object):
    family = "F3"

    def new_world(self):
        return World3()

    def ops(self, hist):
        return list(F3_OPS)

    def outcome_class(self, op, obs):
        return "F3:%s:%s" % (":".join(op[::2]), obs[0])

    def canon(self, w):
        return _digest(tuple((o[2], _digest(sorted(o[3].items())), tuple(sorted(o[4]))) for o in w.objs))

    def apply(self, w, op):
        try:
            return self._apply(w, op)
        except Exception as e:
            return ("EXC", type(e).__name__, str(e)[:100])

    def mismatch(self, o):
        name, cls, U, exp, free = o
        got = probe3(cls, U)
        keys = [k for k in diff_keys(got, exp) if k not in free]
        if keys:
            return (name, U, keys, {k: got.get(k) for k in keys[:3]}, {k: exp.get(k) for k in keys[:3]})
        return None

    def _apply(self, w, op):
        if op[0] == "use":
            for o in w.objs:
                bad = self.mismatch(o)
                if bad:
                    return ("use-mismatch",) + bad
            return ("used", len(w.objs))
        target = w.get(op[1])
        new_id = dict(F3_VARIANTS)[op[2]](target[2])
        w.counter += 1
        tcls = target[1]
        key = "id" if tcls.ID_OF({"id": "x"}) == "x" else "$id"
        meta = {key: new_id, "type": "object", "required": ["title"], "properties": {"title": {"type": "string"}}}
        new = jsv.create(meta_schema=meta, validators=tcls.VALIDATORS, type_checker=tcls.TYPE_CHECKER,
                         id_of=tcls.ID_OF, version="verif-f3-%d" % w.counter)
        same = []
        for o in w.objs:
            if refnorm(o[2]) == refnorm(new_id):       # the newcomer claims the id this object has: no demand
                o[4].update(REGISTRY_KEYS)
                same.append(o[0])
            elif refnorm(o[2].partition("#")[0]) == refnorm(new_id):
                # this object's id is <document>#<fragment> and the newcomer claims <document> itself: references
                # are retrieved by document, so what `<document>#...` resolves to is now the newcomer's business
                o[4].update(("self", "pointer", "served"))
                same.append(o[0] + " (document)")
        # the newcomer itself: recorded now, must stay (until somebody claims its id)
        w.objs.append(["new%d-%s-%s" % (w.counter, op[1], op[2]), new, new_id, probe3(new, new_id), set()])
        return ("created", w.objs[-1][0], new_id, same)

    def check(self, w, op, obs):
        if obs[0] == "EXC":
            return ("F3|operation-raised|%s|%s" % (op[0], obs[1]), {"observed": obs})
        bad = obs[1:] if obs[0] == "use-mismatch" else None
        when = "differs-when-used"
        if bad is None:
            when = "changed"
            for o in w.objs:
                bad = self.mismatch(o)
                if bad:
                    break
        if not bad:
            return None
        name, U, keys, got, exp = bad
        who = "newcomer" if name.startswith("new") else ("draft-class" if name.startswith("Draft") else "dialect-class")
        return ("F3|%s-%s|%s" % (who, when, ",".join(keys[:3])),
                {"object": name, "metaschema_id": U, "after": list(op), "created": obs[2] if obs[0] == "created" else None,
                 "differs_in": keys, "observed": got, "expected": exp})


def f3_units():
    return [("F3", i) for i in range(len(F3_OPS))]


# ================================================================ exploration
def run_history(model, hist):
    """Fresh world, the operations, the invariant after the last one."""
    w = model.new_world()
    obs = [model.apply(w, op) for op in hist]
    bad = model.check(w, hist[-1], obs[-1])
    return obs, bad, model.canon(w), len(w.objs)


def explore(model, prefix, depth, isolate, obs_prefix=(), skip_root=False):
    """Every history that extends `prefix` up to `depth` operations, un-merged (the prefix itself unless
    skip_root).  isolate: each history in its own forked child; otherwise in this process, one after the other,
    registries restored before each (the caller has forked this process for the purpose).  The observations of
    a prefix must be the same every time it is replayed."""
    res = {"transitions": 0, "states": set(), "violations": [], "outcomes": {}, "max_depth": 0, "samples": [],
           "nontrivial": 0, "children": 0}

    def visit(hist, obs_prefix, skip):
        obs = list(obs_prefix)
        if not skip:
            if isolate:
                res["children"] += 1
                r = in_child(run_history, model, hist)
            else:
                G.restore()
                r = ("ok", run_history(model, hist))
            res["transitions"] += 1
            res["max_depth"] = max(res["max_depth"], len(hist))
            if r[0] == "escaped":
                res["violations"].append((hist, ("exception-escaped-into-the-check|%s|%s" % (r[1], r[2]),
                                                 {"exception": "%s: %s" % (r[1], r[3])})))
                res["outcomes"]["exception-escaped"] = res["outcomes"].get("exception-escaped", 0) + 1
                return
            obs, bad, canon, nobjs = r[1]
            if hist == tuple(prefix):
                res["root_obs"] = tuple(obs)
            oc = model.outcome_class(hist[-1], obs[-1])
            res["outcomes"][oc] = res["outcomes"].get(oc, 0) + 1
            res["states"].add(canon)
            if any(o[0] in ("created", "registered", "re-registered", "cls-registered", "types-arg") for o in obs):
                res["nontrivial"] += 1
            if tuple(obs[:len(obs_prefix)]) != tuple(obs_prefix):
                res["violations"].append((hist, ("same-history-different-observation",
                                                 {"first": list(obs_prefix), "now": obs[:len(obs_prefix)]})))
            if bad is not None:
                res["violations"].append((hist, bad))
            if len(res["samples"]) < 1 and len(hist) == depth and res["transitions"] % 7 == 3:
                res["samples"].append({"family": model.family, "history": [list(o) for o in hist], "observations": obs})
        if len(hist) < depth:
            for op in model.ops(hist):
                visit(hist + (op,), obs, False)

    if not isolate:
        gc.enable()          # many histories in this process (the inherited heap is frozen: collections stay cheap)
    visit(tuple(prefix), tuple(obs_prefix), skip_root)
    if not isolate:
        # registries restored, and the restoration verified by re-probing a fresh world against the baseline
        G.restore()
        w = model.new_world()
        bad = model.check(w, ("restore",), ("ok",))
        if bad is not None or not G.unchanged():
            res["violations"].append(((), ("registries-not-restored|" + (bad[0] if bad else "registry contents"),
                                           bad[1] if bad else None)))
    return res


def depths(ctx):
    return (3, 2) if ctx.tier == "quick" else (4, 3)


def f3_depth(ctx):
    return 2 if ctx.tier == "quick" else 3


def f1_units():
    units = [("F1", i, -1) for i, a in enumerate(OPS) if a in MODEL.ops(())]          # the histories of length 1
    units += [("F1", i, j) for i, a in enumerate(OPS) if a in MODEL.ops(())
              for j, b in enumerate(OPS) if b in MODEL.ops((a,))]
    return units


def plan(ctx):
    G.snapshot()
    ensure_baseline()
    D1, D2 = depths(ctx)
    f1, f2, f3 = f1_units(), f2_units(), f3_units()
    same = sum(1 for t in (Draft4Validator.META_SCHEMA["id"], Draft7Validator.META_SCHEMA["$id"], ACME, BOLT)
               for v, fn in F3_VARIANTS if refnorm(fn(t)) == refnorm(t))
    return {
        "units": f1 + f2 + f3,
        "rule": ("histories start in forked children of a process that has never used the package (no check_schema "
                 "call, no validation, no probe), so the order of first use of every class / checker is the "
                 "history's own; initial objects are compared with vectors recorded alone in such a child.  "
                 "F1: all sequences of %d operations (redefine, redefine_many, remove on type checkers; extend with "
                 "nothing / an overridden keyword / an added keyword / a type checker; create with and without "
                 "version; Validator(types=...); checks on a format-checker instance; FormatChecker.cls_checks; "
                 "FormatChecker() and FormatChecker(formats=...); use-new = probe every derived object, newest "
                 "first), each applied to an initial object or to the most recently derived one, to depth %d "
                 "un-merged (an operation on `the last derived` object is left out while no such object can exist: "
                 "the history would be the one that names the default object; use-new likewise); histories of "
                 "length <= 2 each in its own pristine child, the longer extensions of one 2-prefix one after the "
                 "other in one pristine child with the registries restored in between (restoration verified by "
                 "re-probing); after every history every object in existence (%d initial + derived, initial first) "
                 "is re-probed with the battery (is_type 9x13, 12 validation probe schemas incl. id-relative "
                 "references, the default resolver's scope, %d check_schema candidates, conforms 10x6) and compared "
                 "with the vector predicted by the persistent-map model.  "
                 "F2: per draft and per keyword its metaschema uses (+pattern, required, dependencies; %d "
                 "(draft, keyword) pairs) x {never-failing override, always-failing override} and per draft x 2 "
                 "type-checker redefinitions: all sequences to depth %d of {override on the draft class, on the last "
                 "derived class, override + version, extend unchanged from either, create without the keyword, use "
                 "last class, use draft class}, every history in its own pristine child; battery = check_schema on "
                 "%d-%d candidates that single metaschema keywords reject, %d-%d validation probes (one per "
                 "keyword), type table, default scope, served metaschema; the draft class and every derived class "
                 "re-probed after the last operation; expectation of a derived class from the reference evaluator "
                 "on the transformed metaschema file.  "
                 "F3: next to the four draft classes two registered dialect classes (id without fragment, id with a "
                 "non-empty fragment); operations = create a registered class (other metaschema content) whose id "
                 "is one of %d near-collisions of the id of {Draft4, Draft7, either dialect}: +fragment, +pointer "
                 "fragment, empty fragment added / removed, upper-case scheme, upper-case host, empty query, query, "
                 "path case, encoded reserved character, encoded unreserved character, trailing slash, other scheme "
                 "(%d of the %d pairs are the same id under the reference normalisation: there the owner of the id "
                 "is not judged, everybody else is), or use all classes; all sequences to depth %d, each in its own "
                 "pristine child; every class (6 + newcomers) re-probed after the last operation: validator_for by "
                 "its id, new validators for {$ref: own id} x 5 instances and for a pointer into the own "
                 "metaschema, validate() by $schema, metaschema served for the id, %d check_schema candidates; "
                 "newcomers recorded at creation.  "
                 "distinct_nontrivial = histories that derive at least one object"
                 % (len(OPS), D1, len(initial_objects()) + 1, len(F1_META),
                    sum(len(keywords_used(d)) for d in DRAFTS), D2,
                    min(len(meta2(d)) for d in DRAFTS), max(len(meta2(d)) for d in DRAFTS),
                    min(len(val2(d)) for d in DRAFTS), max(len(val2(d)) for d in DRAFTS),
                    len(F3_VARIANTS), same, len(F3_VARIANTS) * len(F3_TARGETS), f3_depth(ctx), len(F1_META))),
        "bounds": {"F3_ops": len(F3_OPS), "F3_depth": f3_depth(ctx), "F3_units": len(f3),
                   "F1_ops": len(OPS), "F1_depth": D1, "F1_units": len(f1), "F2_units": len(f2), "F2_depth": D2,
                   "F2_ops": len(f2_ops("nop")), "initial_objects": len(initial_objects()) + 1, "tier": ctx.tier},
        "assumptions": ["expected vectors of derived objects are predicted from the parent's vector by the model in "
                        "apply_op (override/add changes only that keyword's probes; extend(cls) == cls)",
                        "check_schema of a class reads the metaschema with the class's own keyword table and type "
                        "checker, so an overridden keyword changes exactly the check_schema answers the reference "
                        "evaluator says depend on it (mc/ref/spec.py on the metaschema file with the keyword deleted "
                        "/ made unsatisfiable); classes with a foreign type checker in F1 are recorded at creation",
                        "F2 re-probes only the draft class of the unit and the classes derived from it",
                        "F3: two metaschema ids are the same id iff they agree after lower-casing scheme and host, "
                        "decoding encoded unreserved characters and dropping an empty fragment / empty query; "
                        "retrieval of documents that are not in a resolver's store is blocked by handlers",
                        "F1 histories longer than 2 share their process with the other extensions of the same "
                        "2-prefix (registries restored in between); state kept elsewhere in the process by the code "
                        "under test would show as a violation in a later history of that unit"],
    }


def model_of(unit):
    if unit[0] == "F1":
        return MODEL
    if unit[0] == "F3":
        return Model3()
    return Model2(unit[1], unit[2], unit[3])


def run_unit(unit, ctx):
    D1, D2 = depths(ctx)
    m = model_of(unit)
    fam = unit[0]
    results = []
    viol = []
    forks = 0
    if fam == "F1":
        first, second = unit[1], unit[2]
        if second == -1:
            results.append(explore(m, [OPS[first]], 1, True))
        else:
            prefix = (OPS[first], OPS[second])
            r = explore(m, prefix, 2, True)
            results.append(r)
            forks += 1
            rest = in_child(explore, m, prefix, D1, False, r.get("root_obs", ()), True)
            if rest[0] == "escaped":
                viol.append({"signature": "C16|exception-escaped-into-the-check|%s|%s" % (rest[1], rest[2]), "size": 0,
                             "case": {"family": "F1", "unit": [first, second], "tier": ctx.tier},
                             "detail": {"exception": "%s: %s" % (rest[1], rest[3])}})
            else:
                results.append(rest[1])
    elif fam == "F3":
        results = [explore(m, [F3_OPS[unit[1]]], f3_depth(ctx), True)]
    else:
        a = (unit[3], unit[2])
        base = _baseline[("F2", unit[1])]
        for n in range(D2 + 1):         # the model's answers, computed here once: the children inherit them
            m.expected(["", None, base, ()], (a,) * n)
        e1 = m.expected(["", None, base, ()], (a,))
        predicted = sum(1 for k in ("meta", "val") for x, y in zip(base[k], e1[k]) if x != y)
        results = [explore(m, [op], D2, True) for op in m.ops(())]
    if not G.unchanged():
        viol.append({"signature": "C16|registries-not-restored", "size": 1, "case": {"history": []},
                     "detail": "a global registry of the exploring process changed although every history ran in a child"})
    out = {"evaluations": 0, "nontrivial": 0, "violations": viol, "samples": [], "outcomes": {},
           "counters": {"states": 0, "transitions": 0, "traces_validated_against_impl": 0, "unmerged_histories": 0,
                        "max_depth": 0, "forked_children": forks}}
    if fam == "F2":
        # vacuity guard: answers the model says the unit's override changes (0 = the override is inert for the battery)
        out["counters"]["F2_answers_the_override_must_change"] = predicted
        out["counters"]["F2_units_with_inert_override"] = int(predicted == 0)
    for r in results:
        for hist, (sig, detail) in r["violations"]:
            case = {"family": fam, "history": [list(op) for op in hist]}
            if fam == "F2":
                case["unit"] = list(unit[1:])
            viol.append({"signature": "C16|" + sig, "size": len(hist) * 100 + len(str(hist)), "case": case,
                         "detail": detail})
        out["evaluations"] += r["transitions"]
        out["nontrivial"] += r["nontrivial"]
        out["samples"] += r["samples"][:1]
        for k, v in r["outcomes"].items():
            out["outcomes"][k] = out["outcomes"].get(k, 0) + v
        c = out["counters"]
        c["states"] += len(r["states"])
        for k in ("transitions", "traces_validated_against_impl", "unmerged_histories"):
            c[k] += r["transitions"]
        c["forked_children"] += r["children"]
        c["max_depth"] = max(c["max_depth"], r["max_depth"])
        c["%s_histories" % fam] = c.get("%s_histories" % fam, 0) + r["transitions"]
    out["samples"] = out["samples"][:1]
    return out


def replay(case, ctx):
    G.snapshot()
    ensure_baseline()
    if "unit" in case and case.get("family") == "F1":          # a whole unit from which an exception escaped
        rest = in_child(explore, MODEL, (OPS[case["unit"][0]], OPS[case["unit"][1]]),
                        3 if case.get("tier", "quick") == "quick" else 4, False, (), True)
        return {"reproduced": rest[0] == "escaped", "observation": None, "problem": list(rest[1:]) if rest[0] == "escaped" else None}
    hist = tuple(tuple(op) for op in case["history"])
    if not hist:
        return {"reproduced": not G.unchanged(), "observation": None, "problem": None}
    fam = case.get("family", "F1")
    m = MODEL if fam == "F1" else (Model3() if fam == "F3" else Model2(*case["unit"]))
    r = in_child(run_history, m, hist)
    if r[0] == "escaped":
        return {"reproduced": True, "observation": None, "problem": list(r[1:])}
    obs, bad, canon, nobjs = r[1]
    return {"reproduced": bad is not None, "observation": obs[-1], "problem": bad}
