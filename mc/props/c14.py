"""C14 — JSON-Pointer fragments resolve to exactly the addressed value, or fail cleanly.

Documents are generated from *shape sequences* (s1, ..., sk): the root has shape
s1, every child of the root has shape s2, and so on; the children of the last
shape are marker objects.  A shape is an object with a designated key set drawn
from the hostile key alphabet K (every object additionally carries its own
marker under "enum", so that it is a discriminating schema), an array of a
given length, or a childless scalar / string.  Every node of every document is
a positive case (every spelling of its path must resolve to the *identical*
object, directly and through a validator); every node is also the container of
the negative cases (tokens that address nothing there).

The oracle is a plain walk of the generated document plus mc/ref/pointer.py
(an independent RFC 6901 + RFC 3986 codec) for the spellings; every
(spelling, token) encoding is decoded back by that codec before it is used and
whole fragments are cross-checked against the reference on the documents of
depth <= 2 over the designated key sets.
"""
import copy
import itertools
import json
import re

from jsonschema import RefResolver
from jsonschema.exceptions import RefResolutionError

from mc.props import _e1
from mc.ref import pointer

ID = "C14"
LEVEL = "exploration"

# ---------------------------------------------------------------- alphabets
K = ["", "a", "/", "~", "~0", "~1", "~01", "~10", "%", "%25", "%2F", "#", "?", " ", '"', "\\", "é",
     "0", "1", "01", "-", "a/b", "/~"]
# thorough only: more keys that collide after a wrong decoding
K_EXTRA = ["+", "Ã©", "%7E", "%C3%A9", "~~", "\U0001F600", "%2f", "00", "-1"]

# key sets whose members collide with one another after some wrong decoding
KEYSETS = [
    ("", "a"),                 # dropped empty tokens
    ("/", "~1"),               # missing unescape
    ("~", "~0"),
    ("~01", "~1", "/"),        # swapped unescape order: ~01 -> ~1 -> /
    ("~10", "~0", "~1"),
    ("%", "%25"),              # missing / double percent-decoding
    ("%2F", "/", "%25"),
    ("", "#", "?"),            # fragment cut at '?' or '#'
    (" ", '"', "\\"),
    ("é", "a"),
    ("0", "1", "01", "-"),     # keys normalised as if they were indices
    ("a/b", "a"),              # a/b next to a -> b (see the object under "a": it gets a "b" child when nested)
    ("/~", "/", "~"),
    (),
    tuple(K),
]
KEYSETS_EXTRA = [("+", " "), ("Ã©", "é"), ("%7E", "~", "%"), ("%C3%A9", "é"), ("~~", "~"),
                 ("\U0001F600", "a"), ("%2f", "%2F", "/"), ("00", "0", "01"), ("-1", "-", "1"), ("b", "a", "a/b")]
ARRAY_LENGTHS = [0, 1, 2, 3, 12]
LEAF_KINDS = ["string", "integer", "null", "boolean", "number"]

# selected shapes for the deepest nesting level of each tier
SEL = [("obj", ("", "a")), ("obj", ("~01", "~1", "/")), ("obj", ("%", "%25")), ("obj", ("a/b", "a")),
       ("obj", ("0", "1", "01", "-")), ("arr", 1), ("arr", 3), ("obj", ("", "#", "?"))]

# tokens that address nothing in an array, by class (first members are the
# representatives a signature is named after)
TOKEN_CLASSES = [
    ("end", ["-"]),
    ("negative", ["-1", "-2"]),
    ("leading-zero", ["01", "00", "001"]),
    ("sign", ["+1", "+0", "-0"]),
    ("whitespace", [" 1", " 0", "1 ", "\t1", "1\n", "0\n", "\n1", "1\r", "0\x0b"]),
    ("mixed-digits", ["1\u0662", "2\uff15", "1\u0660", "0\u0661", "10\u0663"]),
    ("underscore", ["1_0", "0_1", "0_0"]),
    ("decimal-point", ["1.0", "0.0", "1e0"]),
    ("non-ascii-digit", ["٣", "１", "١", "٠", "０"]),
    ("hex", ["0x0"]),
    ("empty", [""]),
    ("word", ["a", "true", "enum"]),
    ("huge", ["99999999999999999999", "1" + "0" * 400]),
    # canonical digit strings longer than CPython's int<->str conversion limit (4300 digits by default)
    ("beyond-int-str-limit", ["1" * 4301, "9" * 5000]),
    # characters that mean something to str.format / %-formatting (error messages quote the token)
    ("format-metacharacters", ["{", "}", "{0}", "{id}", "{}", "%s", "%(x)s", "{0!r:>9}"]),
]
CLASS_OF = {t: c for c, ts in TOKEN_CLASSES for t in ts}
REPS = dict(TOKEN_CLASSES)
ARRAY_TOKENS = [t for c, ts in TOKEN_CLASSES for t in ts]
STRING_TOKENS = ARRAY_TOKENS + ["0", "1", "2", "~0", "~1", "%", "/"]
SCALAR_TOKENS = ["0", "1", "-1", "", "a", "-", "enum", "~0", "%", "{id}", "{0}", "%s"]
CANONICAL = re.compile(r"\A(0|[1-9][0-9]*)\Z")

SPELLINGS = ("min", "full", "total", "enclead")
HEX = "0123456789abcdef"


def shapes_for(keysets):
    return ([("obj", ks) for ks in keysets] + [("arr", n) for n in ARRAY_LENGTHS] +
            [("leaf", k) for k in LEAF_KINDS])


BASE_SHAPES = set(shapes_for(KEYSETS))


def nchildren(shape):
    return len(shape[1]) if shape[0] == "obj" else shape[1] if shape[0] == "arr" else 0


def doc_sequences(tier):
    """The enumerated documents, as shape sequences; distinct sequences build distinct documents."""
    base = shapes_for(KEYSETS)
    inner = [s for s in base if nchildren(s)]
    seqs = [(s,) for s in base]
    if tier == "quick":
        seqs += [(a, b) for a in inner for b in base]
        seqs += [(a, b, c) for a in SEL for b in SEL for c in base]
    else:
        pairs = [ks for ks in itertools.combinations(K, 2)]
        wide = shapes_for(KEYSETS + KEYSETS_EXTRA + [ks for ks in pairs if ks not in KEYSETS] +
                          [(k,) for k in K + K_EXTRA])
        seqs = [(s,) for s in wide]
        winner = [s for s in wide if nchildren(s)]
        seqs += [(a, b) for a in winner for b in base]
        seqs += [(a, b) for a in inner for b in wide if b not in BASE_SHAPES]
        seqs += [(a, b, c) for a in inner for b in inner for c in base]
        seqs += [(a, b, c, e) for a in SEL for b in SEL for c in SEL for e in base]
    return seqs


def tier_keys(tier):
    return K if tier == "quick" else K + K_EXTRA + ["b"]


class Counter(object):
    def __init__(self):
        self.n = 0

    def next(self):
        self.n += 1
        return self.n


def build(seq, ctr):
    shape = seq[0]
    kind = shape[0]
    if kind == "leaf":
        n = ctr.next()
        return {"string": "str%d" % n, "integer": 100000 + n, "null": None, "boolean": True,
                "number": n + 0.5}[shape[1]]
    rest = seq[1:]
    if kind == "obj":
        node = {"enum": [ctr.next()]}
        for k in shape[1]:
            node[k] = build(rest, ctr) if rest else {"enum": [ctr.next()]}
        return node
    return [build(rest, ctr) if rest else {"enum": [ctr.next()]} for _ in range(shape[1])]


# ---------------------------------------------------------------- spellings
_enc = {}


def enc(sp, tok):
    """Encoding of one reference token in spelling sp (without the separator);
    verified by decoding it back with the independent codec."""
    key = (sp, tok)
    r = _enc.get(key)
    if r is None:
        e = pointer.escape_token(tok)
        if sp == "min" or sp == "enclead":
            r = pointer.pct_encode(e)
        elif sp == "full":
            r = pointer.pct_encode(e, safe=pointer.UNRESERVED)
        elif sp == "raw":
            r = e
        else:   # total: every octet percent-encoded, lower-case hex digits
            r = "".join("%" + HEX[b >> 4] + HEX[b & 15] for b in e.encode("utf-8"))
        if pointer.tokens("/" + r) != [tok] or (sp != "raw" and not set(r) <= pointer.FRAGMENT_SAFE | {"%"}):
            raise AssertionError("spelling %s of token %r is wrong: %r" % (sp, tok, r))
        _enc[key] = r
    return r


def sep(sp, first):
    if sp == "total":
        return "/" if first else "%2f"
    if sp == "enclead":
        return "%2F" if first else "/"
    return "/"


def spell(path, sp):
    return "".join(sep(sp, i == 0) + enc(sp, str(t)) for i, t in enumerate(path))


def all_nodes(doc):
    """[(path, value, {spelling: fragment})] for every node, root first."""
    out = []

    def rec(v, path, fr):
        out.append((path, v, fr))
        if isinstance(v, dict):
            items = v.items()
        elif isinstance(v, list):
            items = enumerate(v)
        else:
            return
        first = not path
        for k, c in items:
            t = str(k)
            rec(c, path + (k,), {sp: fr[sp] + sep(sp, first) + enc(sp, t) for sp in SPELLINGS})
    rec(doc, (), {sp: "" for sp in SPELLINGS})
    return out


def walk(doc, path):
    for t in path:
        doc = doc[t]
    return doc


def ref_resolve(doc, frag):
    """Reference resolution: mc.ref.pointer decodes the fragment, the walk is done here
    (pointer.walk lets the token "0" through on an empty array)."""
    for t in pointer.tokens(frag):
        if isinstance(doc, dict):
            if t not in doc:
                raise pointer.PointerError("no member %r" % t)
            doc = doc[t]
        elif isinstance(doc, list):
            if not CANONICAL.match(t) or len(t) > 18 or int(t) >= len(doc):
                raise pointer.PointerError("no element %r" % t)
            doc = doc[int(t)]
        else:
            raise pointer.PointerError("token %r applied to a scalar" % t)
    return doc


# ---------------------------------------------------------------- observation
_RF = RefResolver("", {}).resolve_fragment     # resolve_fragment reads nothing but its arguments


def observe(doc, frag):
    try:
        v = _RF(doc, frag)
    except RefResolutionError:
        return ("error", None)
    except Exception as e:
        return ("exc", type(e).__name__)
    return ("value", v)


def judge_pos(obs, target):
    if obs[0] == "value":
        return None if obs[1] is target else "wrong-value"
    if obs[0] == "error":
        return "unresolved"
    return "crash-" + obs[1]


def judge_neg(obs):
    if obs[0] == "error":
        return None
    if obs[0] == "value":
        return "wrong-value"
    return "wrong-exception-" + obs[1]


def neg_fragment(prefix, tok, sp):
    first = not prefix
    if sp == "raw":
        return "".join("/" + enc("raw", str(t)) for t in prefix) + "/" + enc("raw", tok)
    return spell(prefix, sp) + sep(sp, first) + enc(sp, tok)


def fails_pos(doc, path, sp):
    try:
        target = walk(doc, path)
    except (LookupError, TypeError):
        return None
    return judge_pos(observe(doc, spell(path, sp)), target)


def fails_neg(doc, prefix, tok, sp):
    """Kind of failure of the negative case, or None; None also when the token does address something."""
    try:
        c = walk(doc, prefix)
    except (LookupError, TypeError):
        return None
    if isinstance(c, dict) and tok in c:
        return None
    if isinstance(c, list) and CANONICAL.match(tok) and len(tok) <= 18 and int(tok) < len(c):
        return None
    return judge_neg(observe(doc, neg_fragment(prefix, tok, sp)))


def negative_tokens(node, keys):
    if isinstance(node, dict):
        return [k for k in keys if k not in node]
    if isinstance(node, list):
        return [str(len(node)), str(len(node) + 1)] + ARRAY_TOKENS
    if isinstance(node, str):
        return STRING_TOKENS
    return SCALAR_TOKENS


# ---------------------------------------------------------------- shrinking and signatures
def prune(doc, path, keep_target):
    """Copy of doc in which everything off the path is replaced by small fresh markers."""
    n = [900000]

    def marker():
        n[0] += 1
        return {"enum": [n[0]]}

    def rec(v, rest):
        if not rest:
            if keep_target or not isinstance(v, (dict, list)):
                return copy.deepcopy(v)
            return marker()
        if isinstance(v, dict):
            return {k: (rec(c, rest[1:]) if k == rest[0] else marker()) for k, c in v.items()}
        return [rec(c, rest[1:]) if i == rest[0] else marker() for i, c in enumerate(v)]
    return rec(doc, list(path))


def drop_siblings(doc, path, still):
    """Greedy deletion of everything that is not on the path (members of objects anywhere, trailing
    elements of arrays) while the failure persists."""
    path = tuple(path)

    def members(v, at):
        if isinstance(v, dict):
            for k in list(v):
                if k in v:
                    yield from members(v[k], at + (k,))
                    yield v, k, at + (k,)
        elif isinstance(v, list):
            for i in range(len(v)):
                yield from members(v[i], at + (i,))
            if v:
                yield v, len(v) - 1, at + (len(v) - 1,)

    changed = True
    while changed:
        changed = False
        for c, k, at in list(members(doc, ())):
            if path[:len(at)] == at:
                continue
            if isinstance(c, list):
                if k != len(c) - 1:
                    continue
                v = c.pop()
                if still(doc):
                    changed = True
                else:
                    c.append(v)
            elif k in c:
                v = c.pop(k)
                if still(doc):
                    changed = True
                else:
                    c[k] = v
    return doc


def shrink_pos(doc, path, sp, kind):
    path = tuple(path)
    for j in range(len(path) - 1, 0, -1):          # shortest failing suffix
        sub = walk(doc, path[:j])
        if fails_pos(sub, path[j:], sp) == kind:
            doc, path = sub, path[j:]
            break
    for m in range(1, len(path)):                  # shortest failing prefix of it
        if fails_pos(doc, path[:m], sp) == kind:
            path = path[:m]
            break
    small = prune(doc, path, keep_target=False)
    if fails_pos(small, path, sp) != kind:
        small = prune(doc, path, keep_target=True)
    if fails_pos(small, path, sp) != kind:
        small = copy.deepcopy(doc)
    doc = drop_siblings(small, path, lambda d: fails_pos(d, path, sp) == kind)
    doc, path = generalise(doc, path, lambda d, p: fails_pos(d, p, sp) == kind)
    return doc, path, sp


def generalise(doc, path, still):
    """Rename each key on the path to a plain one ("k<i>", shown as * in signatures) when the failure
    does not depend on it."""
    path = list(path)
    for i, t in enumerate(path):
        c = walk(doc, path[:i])
        new = "k%d" % i
        if not isinstance(c, dict) or new in c:
            continue
        cand = copy.deepcopy(doc)
        cc = walk(cand, path[:i])
        items = [(new if k == t else k, v) for k, v in cc.items()]
        cc.clear()
        cc.update(items)
        p2 = path[:i] + [new] + path[i + 1:]
        if still(cand, tuple(p2)):
            doc, path = cand, p2
    return doc, tuple(path)


def sig_pos(doc, path, sp, kind):
    if sp == "enclead" and fails_pos({"a": PLAIN}, ("a",), sp) is not None and \
            fails_pos({"a": PLAIN}, ("a",), "min") is None:
        return "C14|%s|percent-encoded-leading-slash" % kind
    if sp != "min" and fails_pos(doc, path, "min") is None:
        return "C14|%s|spelling=%s|key=%s" % (kind, sp, " > ".join(map(keyname, path)))
    if path and path[0] == "" and fails_pos({"a": doc}, ("a",) + tuple(path), sp) is None:
        return "C14|%s|leading-empty-key" % kind
    return "C14|%s|key=%s" % (kind, " > ".join(map(keyname, path)))


PLAIN = {"enum": [700000]}


def keyname(t):
    if isinstance(t, int):
        return "<index>"
    return "*" if re.match(r"^k[0-9]+$", t) else t


STD_ARRAY = [{"enum": [800000 + i]} for i in range(12)]
STD_STRING = "str0123456789"


def shrink_neg(doc, prefix, tok, sp, kind):
    prefix = tuple(prefix)
    for j in range(len(prefix), 0, -1):            # shortest failing suffix of the prefix
        sub = walk(doc, prefix[:j])
        if fails_neg(sub, prefix[j:], tok, sp) == kind:
            doc, prefix = sub, prefix[j:]
            break
    small = prune(doc, prefix, keep_target=False)
    if fails_neg(small, prefix, tok, sp) != kind:
        small = prune(doc, prefix, keep_target=True)
    if fails_neg(small, prefix, tok, sp) != kind:
        small = copy.deepcopy(doc)
    doc = drop_siblings(small, prefix, lambda d: fails_neg(d, prefix, tok, sp) == kind)
    c = walk(doc, prefix)
    # a simpler token of the same class on a standard container, if that fails the same way
    if not prefix and isinstance(c, (list, str)) and tok in CLASS_OF:
        std = STD_ARRAY if isinstance(c, list) else STD_STRING
        for rep in REPS[CLASS_OF[tok]]:
            if fails_neg(std, (), rep, sp) == kind:
                if rep != tok or len(c) > len(std):
                    doc, tok = copy.deepcopy(std), rep
                    if isinstance(doc, list):
                        doc = drop_siblings(doc, (), lambda d: fails_neg(d, (), tok, sp) == kind)
                break
    return doc, prefix, tok, sp


def sig_neg(doc, prefix, tok, sp, kind):
    c = walk(doc, prefix)
    tail = ""
    if sp == "enclead" and fails_pos({"a": PLAIN}, ("a",), sp) is not None and \
            fails_pos({"a": PLAIN}, ("a",), "min") is None:
        return "C14|%s|percent-encoded-leading-slash" % kind
    if sp not in ("min", "raw") and fails_neg(doc, prefix, tok, "min") is None:
        tail = "|spelling=%s" % sp
    lead = prefix[0] if prefix else tok
    if lead == "" and fails_neg({"a": doc}, ("a",) + tuple(prefix), tok, sp) is None:
        return "C14|%s|leading-empty-key%s" % (kind, tail)
    if prefix:
        tail += "|below=%s" % " > ".join(map(keyname, prefix))
    if isinstance(c, list):
        return "C14|%s|array-token=%s%s" % (kind, tok, tail)
    if isinstance(c, str):
        if CANONICAL.match(tok):
            return "C14|%s|index-into-string%s" % (kind, tail)
        return "C14|%s|index-into-string|lenient-int%s" % (kind, tail)
    if isinstance(c, dict):
        got = ""
        obs = observe(doc, neg_fragment(prefix, tok, sp))
        if obs[0] == "value":
            for k, v in c.items():
                if v is obs[1]:
                    got = "|got-key=%s" % k
        return "C14|%s|missing-key=%s%s%s" % (kind, tok, got, tail)
    return "C14|%s|token-on-%s=%s%s" % (kind, type(c).__name__, tok, tail)


def struct_key(v):
    if isinstance(v, dict):
        return ("o",) + tuple(v)
    if isinstance(v, list):
        return ("a", len(v))
    if isinstance(v, str):
        return ("s", len(v))
    return (type(v).__name__,)


# ---------------------------------------------------------------- through a validator
def via_validator(d, doc, path, frag, k, shared=None):
    """Behaviour of {"$ref": "#"+frag} against probe values; returns an outcome tuple.
    shared=None: the reference is placed in the document itself (object roots) or in a schema whose
    resolver's referrer is the document; shared=dict: one such resolver per (document, draft)."""
    ref = "#" + frag
    try:
        if shared is None and isinstance(doc, dict) and path:
            root = dict(doc)
            root["$ref"] = ref
            v = _e1.CLS[d](root)
        else:
            res = shared.get(d) if shared is not None else None
            if res is None:
                res = RefResolver("", doc)
                if shared is not None:
                    shared[d] = res
            v = _e1.CLS[d]({"$ref": ref}, resolver=res)
        return ("verdicts", v.is_valid(k), v.is_valid(-1))
    except RefResolutionError:
        return ("error",)
    except Exception as e:
        return ("exc", type(e).__name__)


def judge_via(out, positive):
    if positive:
        if out == ("verdicts", True, False):
            return None
        if out[0] == "verdicts":
            return "behaves-as-another-schema"
        return "unresolved" if out[0] == "error" else "crash-" + out[1]
    if out[0] == "error":
        return None
    return "no-error" if out[0] == "verdicts" else "wrong-exception-" + out[1]


# ---------------------------------------------------------------- harness protocol
_SEQS = {}


def get_seqs(tier):
    if tier not in _SEQS:
        _SEQS[tier] = doc_sequences(tier)
    return _SEQS[tier]


# ---- arrays that are not `list` objects ---------------------------------------------------------
# A document handed to a resolver need not come from json.load: arrays may be tuples (or other sequence
# types) wherever the program built the schema itself.  An array is an array whatever its Python type.
def seq_kinds():
    import collections
    return [("list", list), ("tuple", tuple), ("UserList", collections.UserList), ("deque", collections.deque)]


def seq_documents():
    """(label, document, [(path, target)], [(prefix, token)]) over array types x lengths x two levels."""
    out = []
    for kname, K in seq_kinds():
        for n in (1, 2, 3, 12):
            leaves = [{"enum": [900000 + i]} for i in range(n)]
            inner = K(leaves)
            for where in ("root", "member", "nested"):
                if where == "root":
                    doc, base = inner, ()
                elif where == "member":
                    doc, base = {"items": inner, "0": {"enum": [1]}}, ("items",)
                else:
                    doc, base = {"a": K([K(leaves), {"enum": [2]}])}, ("a", 0)
                pos = [(base + (i,), leaves[i]) for i in range(n)]
                neg = [(base, t) for t in [str(n), str(n + 1)] + ARRAY_TOKENS]
                out.append(("%s-%d-%s" % (kname, n, where), doc, pos, neg))
    return out


def run_sequences(unit, ctx):
    _, shard, nsh = unit
    ev = 0
    outcomes, viol = {}, []
    docs = seq_documents()
    for i in range(shard, len(docs), nsh):
        label, doc, pos, neg = docs[i]
        for path, target in pos:
            for sp in ("min", "full"):
                frag = pointer.fragment(list(path), sp == "full")
                ev += 1
                k = judge_pos(observe(doc, frag), target)
                key = "sequence-positive:%s:%s" % (label.split("-")[0], k or "exact-value")
                outcomes[key] = outcomes.get(key, 0) + 1
                if k is not None:
                    viol.append({"signature": "C14|%s|array-type=%s" % (k, label.split("-")[0]), "size": len(label) + len(path),
                                 "case": {"half": "sequence", "label": label, "path": list(path), "fragment": frag, "expect": "value"},
                                 "detail": {"kind": k}})
        for prefix, tok in neg:
            frag = pointer.fragment(list(prefix) + [tok])
            ev += 1
            k = judge_neg(observe(doc, frag))
            key = "sequence-negative:%s:%s" % (label.split("-")[0], k or "RefResolutionError")
            outcomes[key] = outcomes.get(key, 0) + 1
            if k is not None:
                viol.append({"signature": "C14|%s|array-type=%s|array-token=%s" % (k, label.split("-")[0], CLASS_OF.get(tok, "past-the-end")),
                             "size": len(label) + len(tok),
                             "case": {"half": "sequence", "label": label, "path": list(prefix) + [tok], "fragment": frag, "expect": "error"},
                             "detail": {"kind": k}})
    return {"evaluations": ev, "nontrivial": ev, "violations": viol, "samples": [], "outcomes": outcomes,
            "counters": {"sequence_type_cases": ev}}


# ---- whole documents of every JSON type, through every route that leads to resolve_fragment ---------------
ROUTE_URL = "http://h.invalid/c14/doc.json"
ROUTE_DOCS = [None, False, True, 0, 1.5, "", "s", [], {}, [None], {"a": None}, {"": 0}, [[], {}], 0.0, -1]


def route_cases(doc):
    """(fragment, expected value) for the document itself and its direct children."""
    out = [("", doc)]
    if isinstance(doc, list):
        out += [("/%d" % i, v) for i, v in enumerate(doc)]
    elif isinstance(doc, dict):
        out += [("/" + pointer.escape_token(k), v) for k, v in doc.items()]
    return out


def route_observations(doc, frag):
    """{route name: ("value", v) | ("error", None) | ("exc", name)} plus handler call counts."""
    import copy as _copy
    obs = {}

    def run(name, fn):
        try:
            obs[name] = ("value", fn())
        except RefResolutionError:
            obs[name] = ("error", None)
        except Exception as e:
            obs[name] = ("exc", type(e).__name__)
    ref = ROUTE_URL + "#" + frag
    r1 = RefResolver("", {}, store={ROUTE_URL: doc})
    run("store/resolve", lambda: r1.resolve(ref)[1])
    run("store/resolve-again", lambda: r1.resolve(ref)[1])
    run("store/resolve_from_url", lambda: r1.resolve_from_url(ref))

    def via_resolving(r, rf):
        with r.resolving(rf) as v:
            return v
    run("store/resolving", lambda: via_resolving(r1, ref))
    if not frag:
        run("store/no-fragment", lambda: r1.resolve(ROUTE_URL)[1])
    r2 = RefResolver(ROUTE_URL, doc)
    run("referrer/fragment-only", lambda: r2.resolve("#" + frag)[1])
    run("referrer/absolute", lambda: r2.resolve(ref)[1])
    calls = []

    def handler(uri):
        calls.append(uri)
        return _copy.deepcopy(doc)
    r3 = RefResolver("", {}, handlers={"http": handler})
    run("handler/resolve", lambda: r3.resolve(ref)[1])
    run("handler/resolve-again", lambda: r3.resolve(ref)[1])
    run("handler/resolve_from_url", lambda: r3.resolve_from_url(ref))
    return obs, len(calls)


def run_routes(unit, ctx):
    _, shard, nsh = unit
    ev = 0
    outcomes, viol = {}, []
    for i in range(shard, len(ROUTE_DOCS), nsh):
        doc = ROUTE_DOCS[i]
        for frag, want in route_cases(doc):
            obs, ncalls = route_observations(doc, frag)
            for name, o in sorted(obs.items()):
                ev += 1
                ok = o[0] == "value" and type(o[1]) is type(want) and o[1] == want
                key = "route:%s:%s" % (name.split("/")[0], "exact-value" if ok else o[0])
                outcomes[key] = outcomes.get(key, 0) + 1
                if not ok:
                    kind = "wrong-value" if o[0] == "value" else ("unresolved" if o[0] == "error" else "crash-" + o[1])
                    viol.append({"signature": "C14|%s|route=%s|document-type=%s%s" % (
                        kind, name, type(doc).__name__, "" if frag else "|whole-document"), "size": len(repr(doc)),
                                 "case": {"half": "route", "doc_index": i, "fragment": frag, "route": name},
                                 "detail": {"observed": list(o), "expected": want}})
            if ncalls > 1:
                viol.append({"signature": "C14|route=handler|document-retrieved-%d-times|document-type=%s" % (
                    ncalls, type(doc).__name__), "size": len(repr(doc)),
                             "case": {"half": "route", "doc_index": i, "fragment": frag, "route": "handler-count"},
                             "detail": {"handler_calls": ncalls}})
    return {"evaluations": ev, "nontrivial": ev, "violations": viol, "samples": [], "outcomes": outcomes,
            "counters": {"route_cases": ev}}


# ---- sequences of resolutions on ONE resolver -------------------------------------------------------------
SEQ_URLS = ["http://h.invalid/c14/a.json", "http://h.invalid/c14/b.json", "http://h.invalid/c14/c.json"]
SEQ_DOCS = [
    {"items": [{"enum": [1]}, {"enum": [2]}], "0": {"enum": [3]}, "x": {"enum": [4]}},         # array under "items"
    {"items": {"0": {"enum": [5]}, "1": {"enum": [6]}}, "x": [{"enum": [7]}]},                  # object with digit keys
    {"items": "abc", "x": {"0": {"enum": [8]}}},                                                # a string there
]
SEQ_FRAGS = ["/items/0", "/items/1", "/items/2", "/items", "/x/0", "/nope", "/items/-", "", "/0", "/items/01",
             "/%7Bid%7D", "/items/%7B0%7D", "/x/%7B"]


def seq_expected(doc, frag):
    try:
        return ("value", ref_resolve(doc, frag))
    except pointer.PointerError:
        return ("error", None)


def run_seqs(unit, ctx):
    """Every ordered pair (thorough: triple) of (document, fragment) resolutions on one resolver whose store holds
    the three documents: each resolution answers for its own document and pointer, whatever was asked before
    (a pointer that fails, the same fragment text met through an array / an object / a string ...)."""
    _, shard, nsh = unit
    steps = [(di, f) for di in range(len(SEQ_DOCS)) for f in SEQ_FRAGS]
    depth = 3 if ctx.thorough else 2
    ev = 0
    outcomes, viol = {}, []
    first = [st for i, st in enumerate(steps) if i % nsh == shard]
    import itertools as _it
    for head in first:
        for tail in _it.product(steps, repeat=depth - 1):
            seq = (head,) + tail
            r = RefResolver("", {}, store={u: copy.deepcopy(dd) for u, dd in zip(SEQ_URLS, SEQ_DOCS)})
            for si, (di, frag) in enumerate(seq):
                ev += 1
                want = seq_expected(SEQ_DOCS[di], frag)
                route = ("resolve", "resolve_from_url")[si % 2]
                try:
                    ref = SEQ_URLS[di] + "#" + frag
                    got = ("value", r.resolve(ref)[1] if route == "resolve" else r.resolve_from_url(ref))
                except RefResolutionError:
                    got = ("error", None)
                except Exception as e:
                    got = ("exc", type(e).__name__)
                ok = got[0] == want[0] and (got[0] != "value" or (type(got[1]) is type(want[1]) and got[1] == want[1]))
                key = "sequence:%s" % ("as-alone" if ok else "DIFFERS")
                outcomes[key] = outcomes.get(key, 0) + 1
                if not ok:
                    viol.append({"signature": "C14|sequence-on-one-resolver|%s-after-%s" % (
                        "wrong-value" if got[0] == "value" else ("unresolved" if got[0] == "error" else "crash-" + got[1]),
                        "failed-pointer" if any(seq_expected(SEQ_DOCS[a], b)[0] == "error" for a, b in seq[:si]) else "successful-pointers"),
                                 "size": si, "case": {"half": "seq", "steps": [list(st) for st in seq[:si + 1]]},
                                 "detail": {"observed": list(got), "expected": list(want)}})
                    break
    return {"evaluations": ev, "nontrivial": ev, "violations": viol, "samples": [], "outcomes": outcomes,
            "counters": {"sequence_steps": ev}}


def plan(ctx):
    seqs = get_seqs(ctx.tier)
    n = 96 if ctx.tier == "quick" else 192
    by_depth = {}
    for s in seqs:
        by_depth["documents_depth_%d" % len(s)] = by_depth.get("documents_depth_%d" % len(s), 0) + 1
    for sp in SPELLINGS + ("raw",):                  # verify every token encoding once, in the parent
        for t in set(tier_keys(ctx.tier)) | set(STRING_TOKENS) | set(SCALAR_TOKENS) | {str(i) for i in range(14)}:
            if sp != "raw" or "%" not in pointer.escape_token(t):
                enc(sp, t)
    return {
        "units": [(i, n) for i in range(n)] + [("sequences", i, 4) for i in range(4)] + [("routes", i, 3) for i in range(3)] + [("seqs", i, 6) for i in range(6)],
        "rule": ("SEQUENCES: every ordered pair (thorough: triple) of (document, fragment) resolutions over 3 stored "
                 "documents x 10 fragments on ONE resolver (the same fragment text met through an array, an object with "
                 "digit keys and a string; failing pointers first), alternating resolve / resolve_from_url.  ROUTES: whole documents of every JSON type (null, false, true, 0, 1.5, '', [], {} ... 15 of them) and "
                 "their direct children through resolve / resolve_from_url / resolving with the document in the "
                 "store, as the referrer, and served by a handler (retrieved once).  ARRAY TYPES: arrays given as list / tuple / UserList / deque of length 1, 2, 3, 12 at the root, as a "
                 "member and nested: every index (two spellings, identity of the value) and every non-index / "
                 "past-the-end token.  documents = shape sequences (s1..sk), k <= %d: the root has shape s1, each of its children shape s2, "
                 "..., the children of the last shape are marker objects {\"enum\": [unique n]}; shapes = objects with "
                 "one of the designated colliding key sets over K (%s) plus their own marker, arrays of length "
                 "0,1,2,3,12, and childless string / integer / null / boolean / number leaves. Positive cases: every "
                 "node of every document x every distinct spelling of its path (min = RFC 6901 + minimal RFC 3986; "
                 "full = every non-unreserved octet encoded; total = every octet encoded, lower-case hex, inner "
                 "separators as %%2f; enclead = leading slash as %%2F, documents of depth <= 2 only) directly "
                 "(identity) and, for object targets, through a validator of each of the four drafts (the reference "
                 "is placed in the document itself for object roots of depth <= 2 over the designated key sets, "
                 "otherwise in a schema whose resolver's referrer is the document). Negative cases: every node (the "
                 "list and the number inside a marker only in the documents of depth 1) x every token that addresses "
                 "nothing there (absent keys of K; index = len, len+1 and the non-index tokens on arrays; any token "
                 "on strings and scalars) x spelling (also the raw, un-percent-encoded spelling), and through the "
                 "validators for the documents of depth <= 2 over the designated key sets. Cases are distinct by "
                 "construction (distinct sequence, node, token, spelling string); non-trivial = the fragment has at "
                 "least one token" % (
                     4 if ctx.thorough else 3,
                     "thorough: additionally every pair of keys of K and the extended alphabet as a key set, at either "
                     "level of the documents of depth <= 2" if ctx.thorough else "quick tier")),
        "bounds": dict(by_depth, documents=len(seqs), keys=len(tier_keys(ctx.tier)),
                       key_sets=len(KEYSETS) if not ctx.thorough else len(KEYSETS) + len(KEYSETS_EXTRA) + 253 - 9,
                       array_tokens=len(ARRAY_TOKENS) + 2, string_tokens=len(STRING_TOKENS),
                       scalar_tokens=len(SCALAR_TOKENS), spellings=len(SPELLINGS) + 1, max_depth=4 if ctx.thorough else 3,
                       tier=ctx.tier),
        "assumptions": ["mc/ref/pointer.py (independent RFC 6901/3986 codec) for the spellings; every token encoding "
                        "is decoded back before use and whole fragments are cross-checked against that decoder plus "
                        "a strict walk on the documents of depth <= 2 over the designated key sets",
                        "a fragment is in the domain when its percent-decoding is a syntactically valid JSON Pointer "
                        "(so %2F may spell a separator); raw spellings (not valid URI fragments) are used in the "
                        "negative half only, where any correct treatment is a RefResolutionError"],
    }


def run_unit(unit, ctx):
    if unit[0] == "sequences":
        return run_sequences(unit, ctx)
    if unit[0] == "routes":
        return run_routes(unit, ctx)
    if unit[0] == "seqs":
        return run_seqs(unit, ctx)
    shard, nshards = unit
    seqs = get_seqs(ctx.tier)
    keys = tier_keys(ctx.tier)
    ev = nt = 0
    outcomes, counters, samples = {}, {}, []
    found = {}        # signature -> [count, smallest violation]
    memo = {}

    def bump(d, k, n=1):
        d[k] = d.get(k, 0) + n

    def record(sig, case, detail, size):
        slot = found.get(sig)
        if slot is None:
            found[sig] = [1, {"signature": sig, "case": case, "detail": detail, "size": size}]
        else:
            slot[0] += 1
            if size < slot[1]["size"]:
                slot[1] = {"signature": sig, "case": case, "detail": detail, "size": size}

    def report_pos(doc, path, sp, kind):
        # the shrunk form of a failure that already shows on (parent container, last token) depends only on
        # the structure of that container: shrink once per structure, count every occurrence
        if sp != "min" and fails_pos(doc, path, "min") == kind:
            sp = "min"           # the same case in the plain spelling fails the same way: one finding, not two
        parent = walk(doc, path[:-1])
        local = fails_pos(parent, path[-1:], sp) == kind
        mk = ("p", struct_key(parent), struct_key(walk(doc, path)), path[-1], sp, kind)
        hit = memo.get(mk) if local else None
        if hit is None:
            sdoc, spath, ssp = shrink_pos(doc, path, sp, kind)
            sig = sig_pos(sdoc, spath, ssp, kind)
            case = {"half": "positive", "document": sdoc, "path": list(spath), "spelling": ssp,
                    "fragment": spell(spath, ssp)}
            hit = (sig, case, len(json.dumps(sdoc)) + len(case["fragment"]))
            if local:
                memo[mk] = hit
        record(hit[0], hit[1], {"kind": kind, "expected": "the value at that path (identical object)",
                                "seen_in": {"path": list(path), "spelling": sp}}, hit[2])

    def report_neg(doc, prefix, tok, sp, kind):
        if sp != "min" and fails_neg(doc, prefix, tok, "min") == kind:
            sp = "min"
        c = walk(doc, prefix)
        local = fails_neg(c, (), tok, sp) == kind
        mk = ("n", struct_key(c), tok, sp, kind)
        hit = memo.get(mk) if local else None
        if hit is None:
            sdoc, spre, stok, ssp = shrink_neg(doc, prefix, tok, sp, kind)
            sig = sig_neg(sdoc, spre, stok, ssp, kind)
            case = {"half": "negative", "document": sdoc, "prefix": list(spre), "token": stok, "spelling": ssp,
                    "fragment": neg_fragment(spre, stok, ssp)}
            hit = (sig, case, len(json.dumps(sdoc)) + len(case["fragment"]))
            if local:
                memo[mk] = hit
        record(hit[0], hit[1], {"kind": kind, "expected": "RefResolutionError",
                                "seen_in": {"prefix": list(prefix), "token": tok, "spelling": sp}}, hit[2])

    ndocs = nnodes = 0
    for idx in range(shard, len(seqs), nshards):
        seq = seqs[idx]
        doc = build(seq, Counter())
        depth = len(seq)
        ndocs += 1
        rf = RefResolver("", doc).resolve_fragment
        shared = {}
        nodes = all_nodes(doc)
        nnodes += len(nodes)
        sps = SPELLINGS if depth <= 2 else SPELLINGS[:3]
        rich = depth <= 2 and all(sh in BASE_SHAPES for sh in seq)     # = every depth <= 2 document of the quick tier
        check_oracle = rich
        via_neg = rich
        for path, target, frs in nodes:
            # ---- positive half
            seen = set()
            for sp in sps:
                frag = frs[sp]
                if frag in seen:
                    continue
                seen.add(frag)
                if check_oracle and ref_resolve(doc, frag) is not target:
                    raise AssertionError("oracle self-check failed: %r in %r" % (frag, doc))
                ev += 1
                if path:
                    nt += 1
                try:
                    got = rf(doc, frag)
                    kind = None if got is target else "wrong-value"
                except RefResolutionError:
                    kind = "unresolved"
                except Exception as e:
                    kind = "crash-" + type(e).__name__
                bump(outcomes, "positive:" + (kind or "identical"))
                if kind is not None:
                    report_pos(doc, path, sp, kind)
                elif isinstance(target, dict):
                    k = target["enum"][0]
                    for d in _e1.DRAFTS:
                        ev += 1
                        vk = judge_via(via_validator(d, doc, path, frag, k, None if rich else shared), True)
                        bump(outcomes, "positive-via-validator:" + (vk or "behaves-as-target"))
                        if vk is not None:
                            sig = "C14|via-validator:%s|spelling=%s|key=%s" % (vk, sp, keyname(path[-1]) if path else "")
                            sdoc = prune(doc, path, keep_target=True)
                            record(sig, {"half": "positive", "via": "validator", "draft": d, "document": sdoc,
                                         "path": list(path), "spelling": sp, "fragment": frag},
                                   {"kind": vk}, len(json.dumps(sdoc)))
            if len(samples) < 2 and len(path) == depth and idx % 7 == 3 and "%" in frs["min"]:
                samples.append({"document": doc if len(json.dumps(doc)) < 700 else "(%d nodes) shape sequence %r" % (len(nodes), seq),
                                "path": list(path), "fragments": sorted(set(frs[sp] for sp in sps))})
            # ---- negative half (the list and the number inside a marker are containers of negative cases
            # only in the documents of depth 1: they are the same everywhere)
            if depth > 1 and path and (path[-1] == "enum" or (len(path) > 1 and path[-2] == "enum")):
                continue
            for tok in negative_tokens(target, keys):
                first = not path
                raw = None
                seen = set()
                for sp in sps + ("raw",):
                    if sp == "raw":
                        if "%" in tok or any("%" in str(t) for t in path):
                            continue
                        frag = neg_fragment(path, tok, "raw")
                    else:
                        frag = frs[sp] + sep(sp, first) + enc(sp, tok)
                    if frag in seen:
                        continue
                    seen.add(frag)
                    if check_oracle:
                        try:
                            ref_resolve(doc, frag)
                        except pointer.PointerError:
                            pass
                        else:
                            raise AssertionError("oracle self-check failed: %r resolves in %r" % (frag, doc))
                    ev += 1
                    nt += 1
                    try:
                        rf(doc, frag)
                        kind = "wrong-value"
                    except RefResolutionError:
                        kind = None
                    except Exception as e:
                        kind = "wrong-exception-" + type(e).__name__
                    bump(outcomes, "negative-%s:%s" % (type(target).__name__, kind or "RefResolutionError"))
                    if kind is not None:
                        report_neg(doc, path, tok, sp, kind)
                    elif via_neg and sp == "min":
                        for d in _e1.DRAFTS:
                            ev += 1
                            vk = judge_via(via_validator(d, doc, path + (tok,), frag, 0, shared), False)
                            bump(outcomes, "negative-via-validator:" + (vk or "RefResolutionError"))
                            if vk is not None:
                                sig = "C14|via-validator:%s|%s-token=%s" % (vk, type(target).__name__, tok)
                                sdoc = prune(doc, path, keep_target=True)
                                record(sig, {"half": "negative", "via": "validator", "draft": d, "document": sdoc,
                                             "prefix": list(path), "token": tok, "spelling": sp, "fragment": frag},
                                       {"kind": vk}, len(json.dumps(sdoc)))
    viol = []
    total = 0
    for sig, (count, v) in found.items():
        v["detail"]["occurrences_in_this_unit"] = count
        total += count
        viol.append(v)
    counters.update(documents=ndocs, nodes=nnodes, failing_cases_before_grouping=total)
    return {"evaluations": ev, "nontrivial": nt, "violations": viol, "samples": samples, "outcomes": outcomes,
            "counters": counters}


def replay(case, ctx):
    if case.get("half") == "seq":
        r = RefResolver("", {}, store={u: copy.deepcopy(dd) for u, dd in zip(SEQ_URLS, SEQ_DOCS)})
        bad = None
        for si, (di, frag) in enumerate(case["steps"]):
            want = seq_expected(SEQ_DOCS[di], frag)
            try:
                ref = SEQ_URLS[di] + "#" + frag
                got = ("value", r.resolve(ref)[1] if si % 2 == 0 else r.resolve_from_url(ref))
            except RefResolutionError:
                got = ("error", None)
            except Exception as e:
                got = ("exc", type(e).__name__)
            if got[0] != want[0] or (got[0] == "value" and got[1] != want[1]):
                bad = (si, got, want)
        return {"reproduced": bad is not None, "first": bad}
    if case.get("half") == "route":
        doc = ROUTE_DOCS[case["doc_index"]]
        obs, ncalls = route_observations(doc, case["fragment"])
        if case["route"] == "handler-count":
            return {"reproduced": ncalls > 1, "handler_calls": ncalls}
        want = dict(route_cases(doc))[case["fragment"]]
        o = obs[case["route"]]
        ok = o[0] == "value" and type(o[1]) is type(want) and o[1] == want
        return {"reproduced": not ok, "observed": list(o)}
    if case.get("half") == "sequence":
        for label, doc, pos, neg in seq_documents():
            if label == case["label"]:
                obs = observe(doc, case["fragment"])
                if case["expect"] == "error":
                    k = judge_neg(obs)
                else:
                    target = [t for p, t in pos if list(p) == case["path"]][0]
                    k = judge_pos(obs, target)
                return {"reproduced": k is not None, "kind": k}
        return {"reproduced": False, "note": "unknown label"}
    doc = case["document"]
    if case.get("via") == "validator":
        d = case["draft"]
        if case["half"] == "positive":
            target = walk(doc, [t for t in case["path"]])
            out = via_validator(d, doc, tuple(case["path"]), case["fragment"], target["enum"][0])
            kind = judge_via(out, True)
        else:
            out = via_validator(d, doc, tuple(case["prefix"]) + (case["token"],), case["fragment"], 0)
            kind = judge_via(out, False)
        return {"reproduced": kind is not None, "kind": kind, "observed": list(out)}
    if case["half"] == "positive":
        path = tuple(case["path"])
        frag = spell(path, case["spelling"])
        target = walk(doc, path)
        ref = ref_resolve(doc, frag)
        obs = observe(doc, frag)
        kind = judge_pos(obs, target)
        return {"reproduced": kind is not None and ref is target, "kind": kind, "fragment": frag,
                "expected": target, "observed": list(obs)}
    prefix, tok = tuple(case["prefix"]), case["token"]
    frag = neg_fragment(prefix, tok, case["spelling"])
    try:
        ref_resolve(doc, frag)
        ref_fails = False
    except pointer.PointerError:
        ref_fails = True
    obs = observe(doc, frag)
    kind = judge_neg(obs)
    return {"reproduced": kind is not None and ref_fails, "kind": kind, "fragment": frag,
            "expected": "RefResolutionError", "observed": list(obs)}
