"""C06 — each error locates itself truthfully in the instance and in the schema.

Invariants are checked on every error, transitively through `context`.
"""
import copy
from urllib.parse import urljoin

from jsonschema import RefResolver, exceptions

from mc.enum import jsonvals
from mc.props import _e1
from mc.ref import pointer, resolver as refmodel, spec

ID = "C06"
LEVEL = "exploration"

MAPKW = ("properties", "patternProperties", "dependencies", "definitions")


class Walk(Exception):
    pass


def local_hop(root):
    def hop(node, base):
        ref = node["$ref"]
        if not ref.startswith("#"):
            raise Walk("non-local reference %r" % ref)
        try:
            return pointer.resolve(root, ref[1:]), base
        except (pointer.PointerError, UnicodeDecodeError) as e:
            raise Walk("reference %r does not resolve: %s" % (ref, e))
    return hop


def walk_schema(root, path, hop, base="", id_of=None):
    """Follow an absolute schema path from the root schema, hopping through a
    reference exactly where the node reached is a reference object.
    Returns (last schema node, value reached, under_property_names)."""
    node = root
    path = list(path)
    i, n = 0, len(path)
    keymode = False
    first = True
    while True:
        hops = 0
        while True:
            if id_of is not None and isinstance(node, dict) and not first:
                nid = id_of(node)
                if nid:
                    base = urljoin(base, nid)
            first = False
            if not (isinstance(node, dict) and "$ref" in node):
                break
            node, base = hop(node, base)
            hops += 1
            if hops > 20:
                raise Walk("reference chain too long")
        if i == n:
            return node, node, keymode
        k = path[i]
        i += 1
        if not isinstance(node, dict) or k not in node:
            raise Walk("schema node %r has no keyword %r (path %r)" % (node, k, path))
        value = node[k]
        if k == "propertyNames":
            keymode = True      # from here on the instance is a property *name*
        if i == n:
            return node, value, keymode
        if k in MAPKW and isinstance(value, dict):
            name = path[i]
            i += 1
            if name not in value:
                raise Walk("no entry %r under %r" % (name, k))
            node = value[name]
        elif isinstance(value, list):
            idx = path[i]
            i += 1
            if not isinstance(idx, int) or isinstance(idx, bool) or not 0 <= idx < len(value):
                raise Walk("bad index %r into %r" % (idx, k))
            node = value[idx]
        else:
            node = value


def walk_instance(x, path):
    for el in path:
        if isinstance(x, list):
            if not isinstance(el, int) or isinstance(el, bool) or not 0 <= el < len(x):
                raise Walk("bad array index %r" % (el,))
            x = x[el]
        elif isinstance(x, dict):
            if el not in x:
                raise Walk("no member %r" % (el,))
            x = x[el]
        else:
            raise Walk("cannot index %s with %r" % (type(x).__name__, el))
    return x


def same(a, b):
    return a is b or (type(a) is type(b) and a == b)


def render_json_path(path):
    out = "$"
    for el in path:
        out += "[%d]" % el if isinstance(el, int) else "." + el
    return out


def check_error(d, root, X, e, hop, problems, depth=0, base="", id_of=None):
    ap, asp = list(e.absolute_path), list(e.absolute_schema_path)
    is_d3_required = (d == 3 and e.validator == "required" and len(asp) >= 3 and asp[-1] == "required"
                      and asp[-3] == "properties")
    # (5) absolute = parent's absolute + relative
    if e.parent is None:
        if ap != list(e.relative_path) or asp != list(e.relative_schema_path):
            problems.append("top-level error: absolute path differs from relative path")
    else:
        if ap != list(e.parent.absolute_path) + list(e.relative_path):
            problems.append("absolute_path != parent.absolute_path + relative_path")
        if asp != list(e.parent.absolute_schema_path) + list(e.relative_schema_path):
            problems.append("absolute_schema_path != parent.absolute_schema_path + relative_schema_path")
    # (6) json_path
    try:
        if e.json_path != render_json_path(ap):
            problems.append("json_path %r != rendering %r" % (e.json_path, render_json_path(ap)))
    except Exception as ex:
        problems.append("json_path raised %s" % type(ex).__name__)
    # schema side
    try:
        last, value, keymode = walk_schema(root, asp, hop, base, id_of)
    except Walk as w:
        problems.append("schema path %r not walkable: %s" % (asp, w))
        last, value, keymode = None, None, False
    else:
        if e.validator is None:
            if value is not False or e.schema is not False:
                problems.append("keyword-less error whose schema path does not end at a false schema")
        else:
            if not asp or e.validator != asp[-1]:
                problems.append("validator %r is not the last schema path element %r" % (e.validator, asp[-1:]))
            if value is not e.validator_value and not same(value, e.validator_value):
                problems.append("schema path leads to %r, recorded keyword value is %r" % (value, e.validator_value))
            if not is_d3_required:
                if last is not e.schema and last != e.schema:
                    problems.append("schema path's last schema %r is not the recorded schema %r" % (last, e.schema))
                if not isinstance(e.schema, dict) or e.validator not in e.schema or \
                        not same(e.schema[e.validator], e.validator_value):
                    problems.append("recorded schema does not hold the recorded value under the recorded keyword")
    # instance side
    try:
        if is_d3_required:
            parent = walk_instance(X, ap[:-1])
            if not same(parent, e.instance) or not isinstance(parent, dict) or ap[-1] in parent:
                problems.append("draft 3 required: path must be parent path + missing name")
        elif keymode:
            obj = walk_instance(X, ap)
            if not isinstance(obj, dict) or not isinstance(e.instance, str) or e.instance not in obj:
                problems.append("propertyNames error: instance %r is not a key of the object at its path" % (e.instance,))
        else:
            got = walk_instance(X, ap)
            if not same(got, e.instance):
                problems.append("instance path %r leads to %r, recorded instance is %r" % (ap, got, e.instance))
    except Walk as w:
        problems.append("instance path %r not walkable: %s" % (ap, w))
    # context: parent links, and expected content for the aggregate keywords
    for c in e.context:
        if c.parent is not e:
            problems.append("context error without parent link")
    if e.context or e.validator in ("anyOf", "oneOf") or (d == 3 and e.validator == "type"):
        if last is not None and not keymode and e.validator in ("anyOf", "oneOf", "type") and \
                isinstance(e.validator_value, list):
            try:
                exp = []
                valid_branches = 0
                for i, branch in enumerate(e.validator_value):
                    if e.validator == "type" and not isinstance(branch, dict):
                        continue
                    sub = spec.errs(d, branch, e.instance, tuple(ap), tuple(asp) + (i,), root)
                    if not sub:
                        valid_branches += 1
                    exp += sub
                if valid_branches and e.validator == "oneOf":
                    exp = []          # "valid under more than one": no context
                got = _e1.sort_locs(_e1.loc(c) for c in e.context)
                if got != _e1.sort_locs(exp):
                    problems.append("context locations %r differ from expected %r" % (got, _e1.sort_locs(exp)))
            except spec.Unsupported:
                pass
    if depth < 6:
        for c in e.context:
            check_error(d, root, X, c, hop, problems, depth + 1, base, id_of)


def detached_problems(d, S, X, v, hop):
    """Errors a caller keeps while everything else is dropped: every context error on its own (its parents
    are not referenced by the caller any more) and the error best_match picks (what jsonschema.validate raises)."""
    problems = []
    kept = []

    def collect(e):
        for c in e.context:
            kept.append((c, list(c.absolute_path), list(c.absolute_schema_path), c.json_path))
            collect(c)
    for e in v.iter_errors(X):
        collect(e)
    e = None
    for c, ap, asp, jp in kept:
        if list(c.absolute_path) != ap or list(c.absolute_schema_path) != asp or c.json_path != jp:
            problems.append("detached context error: absolute paths changed once its top-level error was dropped")
            break
    # an error re-created from another one (create_from: how check_schema turns a ValidationError into a
    # SchemaError) is the same error: same absolute locations for itself and for what hangs below it
    for c, ap, asp, jp in kept:
        try:
            twin = type(c).create_from(c)
            # the copy owns its paths: relocating the copy (prefixing a document name) leaves the original alone
            keep = (list(c.path), list(c.schema_path))
            twin.path.appendleft("relocated")
            twin.schema_path.appendleft("relocated")
            if (list(c.path), list(c.schema_path)) != keep:
                problems.append("create_from: relocating the copy moved the original error as well")
                break
            twin.path.popleft()
            twin.schema_path.popleft()
            below = [(list(k.absolute_path), list(k.absolute_schema_path)) for k in c.context]
            if list(twin.absolute_path) != ap or list(twin.absolute_schema_path) != asp or twin.json_path != jp:
                problems.append("create_from: the copy of a context error reports other absolute paths than the original")
                break
            if [(list(k.absolute_path), list(k.absolute_schema_path)) for k in twin.context] != below or \
                    [(list(k.absolute_path), list(k.absolute_schema_path)) for k in c.context] != below:
                problems.append("create_from: the errors below a copied context error changed their absolute paths")
                break
        except Exception as ex:
            problems.append("create_from raised %s" % type(ex).__name__)
            break
    del kept
    best = exceptions.best_match(v.iter_errors(X))
    if best is not None:
        sub = []
        check_error(d, S, X, best, hop, sub)
        problems += ["detached best_match error: " + p for p in sub[:3]]
    return problems


def check_case(d, S, X, v=None, hop=None, with_reference=True):
    if v is None:
        v = _e1.CLS[d](S)
    if hop is None:
        hop = local_hop(S)
    try:
        errors = list(v.iter_errors(X))
    except Exception as e:
        return 0, ["crash %s" % type(e).__name__]
    problems = []
    nerr = 0
    for e in errors:
        try:
            check_error(d, S, X, e, hop, problems)
        except Exception as ex:         # an error object so malformed that looking at it fails
            problems.append("invariant evaluation raised %s" % type(ex).__name__)
        nerr += 1 + _count_ctx(e)
    if not problems and any(e.context for e in errors):
        del errors
        try:
            problems += detached_problems(d, S, X, v, hop)
        except Exception as ex:
            problems.append("detached: invariant evaluation raised %s" % type(ex).__name__)
        errors = list(v.iter_errors(X))
    if not problems and errors:
        # an ErrorTree built from the errors is a reader of them: afterwards every error still says where it is
        try:
            before = [(list(e.path), list(e.schema_path), list(e.absolute_path), list(e.absolute_schema_path), e.json_path)
                      for e in errors]
            exceptions.ErrorTree(errors)
            exceptions.best_match(errors)
            after = [(list(e.path), list(e.schema_path), list(e.absolute_path), list(e.absolute_schema_path), e.json_path)
                     for e in errors]
            if before != after:
                problems.append("building an ErrorTree / best_match changed the errors' own paths")
        except Exception as ex:
            if "propertyNames" not in str(S):
                problems.append("ErrorTree / best_match over the errors raised %s" % type(ex).__name__)
    if with_reference:
        try:
            exp = _e1.sort_locs(spec.errs(d, S, X))
            got = _e1.sort_locs(_e1.loc(e) for e in errors)
            if got != exp:
                problems.append("locations %r differ from the reference's %r" % (got, exp))
        except spec.Unsupported:
            pass
    return nerr, problems


# ---- observers and hand-made errors: extension keywords are part of the public surface ---------------
_observing = {}


def observing_class(d):
    """The draft's class with EVERY keyword wrapped by an observer that reads the public location attributes of
    each error passing through (as a logging / metrics extension would).  Reading is not writing: everything
    reported must be exactly what the plain class reports."""
    if d not in _observing:
        from jsonschema import validators as jv
        cls = _e1.CLS[d]

        def wrap(fn):
            def observer(validator, value, instance, schema):
                for error in fn(validator, value, instance, schema):
                    look(error)
                    yield error
            return observer

        def look(error, depth=0):
            list(error.absolute_path), list(error.absolute_schema_path), error.json_path
            list(error.relative_path), list(error.relative_schema_path), error.parent
            if depth < 4:
                for c in error.context:
                    look(c, depth + 1)
        _observing[d] = jv.extend(cls, {k: wrap(fn) for k, fn in cls.VALIDATORS.items()})
    return _observing[d]


_custom = {}


def custom_class(d):
    """The draft's class plus keywords that build their errors by hand, presetting some attributes as the
    constructor allows: x-each reports every member/element at its own location with path and instance given;
    x-named also names validator, value and schema itself; x-bare gives nothing but a message."""
    if d not in _custom:
        from jsonschema import validators as jv
        cls = _e1.CLS[d]

        def members(instance):
            if isinstance(instance, dict):
                return list(instance.items())
            if isinstance(instance, list):
                return list(enumerate(instance))
            return []

        def x_each(validator, value, instance, schema):
            for k, v in members(instance):
                yield exceptions.ValidationError("member %r" % (k,), path=[k], instance=v)

        def x_named(validator, value, instance, schema):
            for k, v in members(instance):
                yield exceptions.ValidationError("named %r" % (k,), path=[k], instance=v, validator="x-named",
                                                 validator_value=value, schema=schema)

        def x_bare(validator, value, instance, schema):
            if value:
                yield exceptions.ValidationError("bare")
        _custom[d] = jv.extend(cls, {"x-each": x_each, "x-named": x_named, "x-bare": x_bare})
    return _custom[d]


def custom_wrappers(d):
    """Positions for the hand-made errors: root, below properties / items / an applicator with context."""
    inner = [{"x-each": 1}, {"x-named": [1]}, {"x-bare": True, "x-each": 0}]
    out = []
    for c in inner:
        out.append(c)
        out.append({"properties": {"a": c}})
        out.append({"items": c})
        out.append({"additionalProperties": c})
        if d >= 4:
            out.append({"anyOf": [c, {"type": "null"}]})
            out.append({"properties": {"a": {"oneOf": [c, {"enum": [[]]}]}}})
        else:
            out.append({"type": [c, "null"]})
            out.append({"extends": [c]})
    return out


def check_ref_case(d, S, docs, X, split):
    """C02's placements: schema paths are walked hopping through references with the designation model."""
    cls = _e1.CLS[d]
    world = refmodel.World(d, S, docs)
    store, served = {}, {}
    for i, (k, v) in enumerate(sorted(docs.items())):
        (served if (split and i % 2 == 0) else store)[k] = copy.deepcopy(v)
    r = RefResolver.from_schema(S, id_of=cls.ID_OF, store=store,
                                handlers={"http": lambda uri: copy.deepcopy(served[uri])})
    try:
        errors = list(cls(S, resolver=r).iter_errors(X))
    except exceptions.RefResolutionError:
        return 0, []          # C02's business
    except Exception as e:
        return 0, ["crash %s" % type(e).__name__]

    def hop(node, base):
        try:
            return world.hop(node, base)
        except refmodel.Unresolvable as u:
            raise Walk("reference does not resolve in the model: %s" % u)
    problems = []
    n = 0
    for e in errors:
        try:
            check_error(d, S, X, e, hop, problems, 0, world.base0, world.id_of)
        except Exception as ex:
            problems.append("invariant evaluation raised %s" % type(ex).__name__)
        n += 1 + _count_ctx(e)
    return n, problems


def _count_ctx(e):
    return sum(1 + _count_ctx(c) for c in e.context)


def get_ud():
    return jsonvals.universe_distinct_leaves() + [None, True, 1.5, "", "ab", [], [0, "a"], {}, {"a": 0},
                                                  {"b": 0, "ab": 0}]


def plan(ctx):
    units, sizes = _e1.make_units(ctx)
    from mc.props import c02
    for d in _e1.DRAFTS:
        for fam in ("two-slot", "nested-id", "recursive"):
            n = 8 if fam == "two-slot" else 1
            units += [(d, "ref:" + fam, i, n) for i in range(n)]
    for d in _e1.DRAFTS:
        for kind in ("groups", "nested"):
            units += [(d, "observed:" + kind, i, 4) for i in range(4)]
        units.append((d, "custom", 0, 1))
        units.append((d, "many", 0, 1))
    return {
        "units": units,
        "rule": ("MANY SCHEMAS: one validator object handed ~1000 short-lived schema objects in turn (twice): every "
                 "error names the keyword / value / schema it came from.  OBSERVERS: sibling groups and nested schemas x U_d validated by the draft's class with every "
                 "keyword wrapped by an observer that reads each passing error's absolute paths / json_path / "
                 "parent (context included): all invariants, and the same error identities as the plain class.  "
                 "HAND-MADE ERRORS: extension keywords that construct their errors with path / instance / "
                 "validator / schema preset, at the root and below properties, items, additionalProperties and "
                 "context-bearing applicators.  C02's reference placements (two-slot skeletons, ids on the evaluation path, recursion; schema paths "
                 "walked by hopping through references with the designation model) and "
                 "G(draft) (singles, all ordered pairs, sibling groups, nested) x U_d (instances with pairwise "
                 "distinct leaves, plus one instance per JSON type); every error and every context error "
                 "(transitively) is checked against the path/keyword/value/parent/json_path invariants, the "
                 "top-level location multiset against the reference evaluator, and the context of anyOf/oneOf/"
                 "draft-3 type against the reference applied to each branch; where errors have context, every context "
                 "error is re-examined after the top-level errors were dropped, and so is the error best_match picks "
                 "(what jsonschema.validate raises); non-trivial = case with >= 1 error"),
        "bounds": dict(sizes, universe=len(get_ud()), tier=ctx.tier),
        "assumptions": ["reference evaluator for expected locations; the three documented exceptions (draft 3 "
                        "required, propertyNames, false schema) are modelled as the property words them"],
    }


def fails(d, S, X):
    if not _e1.accepted(d, S):
        return False
    return bool(check_case(d, S, X)[1])


def run_ref_unit(unit, ctx):
    from mc.props import c02
    d, fam, shard, n = unit[0], unit[1][4:], unit[2], unit[3]
    gen, inst = c02.FAMILIES[fam]
    ev = nt = nerrs = 0
    viol, samples = [], []
    for i, (label, S, docs) in enumerate(gen(d, ctx.tier)):
        if i % n != shard or not _e1.accepted(d, S):
            continue
        for X in (inst if (ctx.thorough or fam != "two-slot") else inst[::2]):
            for split in ((False, True) if docs else (False,)):
                if split and not ctx.thorough and fam == "two-slot":
                    continue
                ev += 1
                k, problems = check_ref_case(d, S, docs, X, split)
                if k:
                    nt += 1
                    nerrs += k
                if problems:
                    sig = "C06|ref|%s" % problems[0][:40].split("%")[0].split("[")[0].split("'")[0].strip()
                    viol.append({"signature": sig, "size": len(str(S)) + len(str(X)),
                                 "case": {"draft": d, "label": label, "schema": S, "docs": docs, "instance": X,
                                          "handler_served": split},
                                 "detail": {"problems": problems[:6]}})
        if len(samples) < 1 and i % 301 == 7:
            samples.append({"draft": d, "label": label, "schema": S, "docs": docs})
    return {"evaluations": ev, "nontrivial": nt, "violations": viol, "samples": samples, "outcomes": {},
            "counters": {"ref_cases": ev, "errors_checked_incl_context": nerrs}}


def run_observed(unit, ctx):
    d, kind, shard, n = unit[0], unit[1][9:], unit[2], unit[3]
    U = get_ud()
    lst = _e1.get_list(kind, d, ctx.tier)
    cls_obs = observing_class(d)
    ev = nt = 0
    viol = []
    for i in range(shard, len(lst), n):
        S = lst[i]
        if not _e1.accepted(d, S):
            continue
        v = cls_obs(S)
        plain = _e1.CLS[d](S)
        hop = local_hop(S)
        for X in U:
            ev += 1
            k, problems = check_case(d, S, X, v, hop, with_reference=False)
            if k:
                nt += 1
            if not problems:
                try:
                    a = sorted((_e1.ident(e) for e in v.iter_errors(X)), key=repr)
                    b = sorted((_e1.ident(e) for e in plain.iter_errors(X)), key=repr)
                    if a != b:
                        problems = ["observed errors differ from the plain class's errors"]
                except Exception as ex:
                    problems = ["observed validation raised %s" % type(ex).__name__]
            if problems:
                viol.append({"signature": "C06|observed|%s" % problems[0][:50].split("%")[0].split("[")[0].split("'")[0].strip(),
                             "size": len(str(S)) + len(str(X)),
                             "case": {"draft": d, "schema": S, "instance": X, "observed": True},
                             "detail": {"problems": problems[:6]}})
    return {"evaluations": ev, "nontrivial": nt, "violations": viol, "samples": [], "outcomes": {},
            "counters": {"observed_cases": ev}}


def custom_problems(d, S, X):
    cls = custom_class(d)
    try:
        errors = list(cls(S).iter_errors(X))
    except Exception as e:
        return 0, ["crash %s" % type(e).__name__]
    problems = []
    n = 0

    def visit(e):
        ap, asp = list(e.absolute_path), list(e.absolute_schema_path)
        if e.parent is not None and (ap != list(e.parent.absolute_path) + list(e.relative_path) or
                                     asp != list(e.parent.absolute_schema_path) + list(e.relative_schema_path)):
            problems.append("absolute != parent's absolute + relative")
        if e.json_path != render_json_path(ap):
            problems.append("json_path differs from the rendering of the absolute path")
        if e.validator in ("x-each", "x-named", "x-bare"):
            try:
                got = walk_instance(X, ap)
                if not same(got, e.instance):
                    problems.append("hand-made error: path %r leads to %r, recorded instance is %r" % (ap, got, e.instance))
            except Walk as w:
                problems.append("hand-made error: path not walkable: %s" % w)
            if not asp or asp[-1] != e.validator:
                problems.append("hand-made error: keyword %r is not the last schema path element %r" % (e.validator, asp))
            try:
                last, value, _ = walk_schema(S, asp, local_hop(S))
                if not same(value, e.validator_value):
                    problems.append("hand-made error: schema path leads to %r, recorded value is %r" % (value, e.validator_value))
                if last is not e.schema and last != e.schema:
                    problems.append("hand-made error: recorded schema is not the schema holding the keyword")
            except Walk as w:
                problems.append("hand-made error: schema path not walkable: %s" % w)
        for c in e.context:
            visit(c)
    for e in errors:
        n += 1
        visit(e)
    return n, problems


def run_many_schemas(unit, ctx):
    """ONE validator object is handed several hundred short-lived schema objects (iter_errors(x, schema)), more than
    any bounded table would hold: every error still names the keyword, value and schema it really came from."""
    d = unit[0]
    U = get_ud()[:6]
    w = _e1.CLS[d]({})
    lst = _e1.get_list("singles", d, ctx.tier) + _e1.get_list("groups", d, ctx.tier)[:400]
    ev = nt = 0
    viol = []
    for rounds in range(2):
        for i, S0 in enumerate(lst):
            if not isinstance(S0, dict) or not _e1.accepted(d, S0):
                continue
            import json as _json
            S = _json.loads(_json.dumps(S0))          # a new object every time; the previous one is garbage by now
            X = U[(i + rounds) % len(U)]
            ev += 1
            try:
                errors = list(w.iter_errors(X, S))
            except Exception as ex:
                viol.append({"signature": "C06|many-schemas|crash-%s" % type(ex).__name__, "size": i,
                             "case": {"draft": d, "many": True, "upto": i, "round": rounds}, "detail": {}})
                break
            problems = []
            for e in errors:
                nt += 1
                if e.validator is None:
                    continue
                if not isinstance(e.schema, dict) or e.validator not in e.schema or not same(e.schema[e.validator], e.validator_value):
                    problems.append("recorded schema does not hold the recorded value under the recorded keyword")
                elif not list(e.schema_path) or list(e.schema_path)[-1] != e.validator:
                    problems.append("the recorded keyword is not the last element of the schema path")
                else:
                    try:
                        last, value, _ = walk_schema(S, list(e.absolute_schema_path), local_hop(S))
                        if not same(value, e.validator_value):
                            problems.append("schema path of the schema asked about leads to another value than recorded")
                    except Walk:
                        problems.append("schema path cannot be walked in the schema asked about")
            if problems:
                viol.append({"signature": "C06|many-schemas|%s" % problems[0][:40], "size": i,
                             "case": {"draft": d, "many": True, "upto": i, "round": rounds},
                             "detail": {"problems": problems[:3], "schema": S}})
                break
    return {"evaluations": ev, "nontrivial": nt, "violations": viol, "samples": [], "outcomes": {},
            "counters": {"ephemeral_schemas_through_one_validator": ev}}


def run_custom(unit, ctx):
    d = unit[0]
    U = get_ud()
    ev = nt = 0
    viol = []
    for S in custom_wrappers(d):
        for X in U:
            ev += 1
            k, problems = custom_problems(d, S, X)
            if k:
                nt += 1
            if problems:
                viol.append({"signature": "C06|hand-made|%s" % problems[0][:50].split("%")[0].split("[")[0].split("'")[0].strip(),
                             "size": len(str(S)) + len(str(X)),
                             "case": {"draft": d, "schema": S, "instance": X, "custom": True},
                             "detail": {"problems": problems[:6]}})
    return {"evaluations": ev, "nontrivial": nt, "violations": viol, "samples": [], "outcomes": {},
            "counters": {"hand_made_error_cases": ev}}


def run_unit(unit, ctx):
    if isinstance(unit[1], str) and unit[1].startswith("observed:"):
        return run_observed(unit, ctx)
    if unit[1] == "custom":
        return run_custom(unit, ctx)
    if unit[1] == "many":
        return run_many_schemas(unit, ctx)
    if isinstance(unit[1], str) and unit[1].startswith("ref:"):
        return run_ref_unit(unit, ctx)
    d = unit[0]
    U = get_ud() if ctx.tier == "quick" or unit[1] == "pairs" else get_ud() + _e1.get_universe("quick")
    ev = nt = nerrs = nschemas = nctx = 0
    viol, samples, outcomes = [], [], {}
    for S in _e1.iter_unit(unit, ctx.tier):
        if unit[1] != "singles" and not _e1.accepted(d, S):
            continue
        nschemas += 1
        v = _e1.CLS[d](S)
        hop = local_hop(S)
        for X in U:
            ev += 1
            n, problems = check_case(d, S, X, v, hop)
            if n:
                nt += 1
                nerrs += n
            if problems:
                small = _e1.shrink_keys(S, lambda c: fails(d, c, X))
                kind = problems[0].split(" ")[0].split(":")[0]
                sig = "C06|%s|%s" % (problems[0][:40].split("%")[0].split("[")[0].split("'")[0].strip(), _e1.kwsig(small))
                viol.append({"signature": sig, "size": len(str(small)) + len(str(X)),
                             "case": {"draft": d, "schema": small, "instance": X},
                             "detail": {"problems": problems[:6], "unshrunk_schema": S}})
            if n >= 2 and len(samples) < 2 and nschemas % 83 == 5:
                samples.append({"draft": d, "schema": S, "instance": X, "errors_checked": n})
    return {"evaluations": ev, "nontrivial": nt, "violations": viol, "samples": samples,
            "outcomes": outcomes, "counters": {"schemas_accepted": nschemas, "errors_checked_incl_context": nerrs}}


def replay(case, ctx):
    if case.get("many"):
        r = run_many_schemas((case["draft"], "many", 0, 1), ctx)
        return {"reproduced": bool(r["violations"]), "violations": [v["signature"] for v in r["violations"]]}
    if case.get("custom"):
        n, problems = custom_problems(case["draft"], case["schema"], case["instance"])
        return {"reproduced": bool(problems), "problems": problems}
    if case.get("observed"):
        d, S, X = case["draft"], case["schema"], case["instance"]
        v = observing_class(d)(S)
        n, problems = check_case(d, S, X, v, local_hop(S), with_reference=False)
        if not problems:
            a = sorted((_e1.ident(e) for e in v.iter_errors(X)), key=repr)
            b = sorted((_e1.ident(e) for e in _e1.CLS[d](S).iter_errors(X)), key=repr)
            if a != b:
                problems = ["observed errors differ from the plain class's errors"]
        return {"reproduced": bool(problems), "problems": problems}
    if "docs" in case:
        n, problems = check_ref_case(case["draft"], case["schema"], case["docs"], case["instance"],
                                     case.get("handler_served"))
        return {"reproduced": bool(problems), "errors": n, "problems": problems}
    n, problems = check_case(case["draft"], case["schema"], case["instance"])
    return {"reproduced": bool(problems), "errors": n, "problems": problems}
