"""C02 — $ref is transparent: a reference behaves as the schema it designates.

Skeleton schemas with two reference slots x definition names (hostile) x
where the target lives / how the reference is spelled x base-URI arrangement
x ignored siblings x instances x 4 drafts.  Oracle: the designation model
(mc/ref/resolver.py) inlines every reference; the inlined schema is validated
by the implementation; verdict and multiset of (instance path, keyword) of the
errors must agree.
"""
import collections
import copy
import json
from urllib.parse import urljoin

from jsonschema import RefResolver, exceptions

from mc.props import _e1
from mc.ref import pointer, resolver as model

ID = "C02"
LEVEL = "exploration"

ROOT = "http://h.invalid/dir/root.json"
NAMES = ["a", "", "0", "a/b", "a~b", "~01", "~10", "%25", "a b", "é", "#", "?", "~1", "/", "%", "\"", "\\",
         "01", "-", "~0", "%2F", "a%20b", "a+b", "C++", "application/ld+json", "{id}", "a&b=c", "a;b", "a=b", "$x", "a,b", "@", "!*'()"]
NAMES_Q = ["a", "", "0", "a/b", "~01", "%25", "a b", "é", "#", "/", "~1", "?", "a+b", "{id}", "a&b=c;d,e@f!$'()*"]
T_INT, T_STR, T_MIN = {"type": "integer"}, {"type": "string"}, {"minimum": 1}
INST = [0, 1, "a", None, [0, "a"], ["a", 1, 2], {"a": 0}, {"a": "a", "b": 0}, {"a": [0, "a"]}, [], {},
        {"a": [0, "a"], "b": 0}, [{"a": "a"}, 0], {"a": {"a": ["a", 0]}, "b": "a"}, [[0, "a"], ["a"]]]


def skeletons(d, X, Y):
    """Schemas with two slots: X is evaluated first (often under an applicator that abandons it)."""
    sk = [("properties", {"properties": {"a": X, "b": Y}}),
          ("items-tuple", {"items": [X, Y]}),
          ("items+properties", {"items": X, "properties": {"a": Y}}),
          ("additionalProperties+items", {"additionalProperties": X, "items": Y}),
          ("patternProperties", {"patternProperties": {"^a": X, "b": Y}}),
          ("dependencies", {"dependencies": {"a": X}, "properties": {"b": Y}})]
    if d >= 4:
        sk += [("allOf", {"allOf": [X, Y]}), ("anyOf", {"anyOf": [X, Y]}), ("oneOf", {"oneOf": [X, Y]}),
               ("not+properties", {"not": X, "properties": {"a": Y}}),
               ("allOf-not", {"allOf": [{"not": X}, Y]}),
               ("properties-not", {"properties": {"a": {"not": X}, "b": Y}})]
    if d >= 6:
        sk += [("contains+items", {"contains": X, "items": Y}),
               ("propertyNames", {"propertyNames": X, "properties": {"a": Y}})]
    if d == 7:
        sk += [("if-then-else", {"if": X, "then": Y, "else": Y}),
               ("if-then", {"properties": {"a": {"if": X, "then": Y}}})]
    if d == 3:
        sk += [("extends", {"extends": [X, Y]}), ("disallow+properties", {"disallow": [X], "properties": {"a": Y}}),
               ("type-union", {"type": [X, Y]}), ("extends-object", {"extends": X, "properties": {"a": Y}})]
    return sk


def siblings(d):
    return [{}, {"type": "null"}, ({"not": {}} if d >= 4 else {"disallow": "any"}), {"description": "x"},
            {"minimum": 100, "maxLength": 0}]


def arrangements(d, name, T1, T2, full):
    """(label, root id or None, ref for X, ref for Y, extra root members, documents by URL)"""
    enc = lambda path: pointer.fragment(path, full)
    p1 = enc(["definitions", name])
    p2 = enc(["definitions", name + "2"])
    other = "http://h.invalid/dir/other.json"
    absdoc = "http://h.invalid/o.json"
    idk = model.IDK[d]
    defs = {"definitions": {name: T1, name + "2": T2}}
    out = [
        ("frag-only,no-id", None, "#" + p1, "#" + p2, defs, {}),
        ("frag-only,root-id", ROOT, "#" + p1, "#" + p2, defs, {}),
        ("relative-url", ROOT, "root.json#" + p1, "root.json#" + p2, defs, {}),
        ("absolute-url", ROOT, ROOT + "#" + p1, ROOT + "#" + p2, defs, {}),
        ("upper-case-scheme", ROOT, "HTTP" + ROOT[4:] + "#" + p1, "#" + p2, defs, {}),
        ("store-relative", ROOT, "other.json#" + enc(["x", name]), "#" + p2, defs, {other: {"x": {name: T1}}}),
        ("store-absolute,no-id", None, absdoc + "#" + enc([name]), "#" + p2, defs, {absdoc: {name: T1}}),
        ("store-doc-with-own-id", ROOT, "other.json#" + enc(["x", name]), "#" + p2, defs,
         {other: {idk: other, "x": {name: T1}}}),
        ("store-key-with-hash", ROOT, "other.json#" + enc(["x", name]), "#" + p2, defs, {other + "#": {"x": {name: T1}}}),
        ("store-key-upper-case-scheme", ROOT, "other.json#" + enc(["x", name]), "#" + p2, defs,
         {"HTTP" + other[4:]: {"x": {name: T1}}}),
        ("store-doc-refers-back", ROOT, "other.json#" + enc(["y"]), "#" + p2, defs,
         {other: {"y": {"$ref": "root.json#" + p1}}}),
        ("store-doc-local-ref", ROOT, "other.json#" + enc(["y"]), "#" + p2, defs,
         {other: {"y": {"$ref": "#" + enc(["x", name])}, "x": {name: T1}}}),
        ("chain", ROOT, "#" + enc(["definitions", "c"]), "#" + p2,
         {"definitions": {name: T1, name + "2": T2, "c": {"$ref": "#" + p1}}}, {}),
        ("target-in-properties", None, "#" + enc(["properties", name]), "#" + p2,
         {"definitions": {name + "2": T2}, "properties@": {name: T1}}, {}),
        ("target-in-items", None, "#" + enc(["dependencies", name, "items", 0]), "#" + p2,
         {"definitions": {name + "2": T2}, "dependencies@": {name: {"items": [T1]}}}, {}),
        ("whole-document", ROOT, "other.json", "other.json#", defs, {other: T1}),
        ("target-at-index-10-and-20", None, "#" + enc(["dependencies", name, "items", 10]),
         "#" + enc(["dependencies", name, "items", 20]), {"dependencies@": {name: {"items": [{}] * 10 + [T1] + [{}] * 9 + [T2]}}}, {}),
        ("store-target-at-index-100", ROOT, "other.json#" + enc(["x", 100]), "#" + p2, defs, {other: {"x": [{}] * 100 + [T1]}}),
    ]
    # two documents whose URLs differ only in a reserved character being percent-encoded: different resources
    for tag, u1, u2 in (("slash", "a%2Fb.json", "a/b.json"), ("question", "f%3Fq.json", "f?q.json"),
                        ("percent", "p%2541.json", "p%41.json"), ("colon-at", "u%40h.json", "u@h.json")):
        d1, d2 = urljoin(ROOT, u1), urljoin(ROOT, u2)
        for order in (0, 1):
            docs = collections.OrderedDict([(d1, {"x": {name: T1}}), (d2, {"x": {name: T2}})][::1 if not order else -1])
            out.append(("url-pair-%s-%d" % (tag, order), ROOT, u1 + "#" + enc(["x", name]), u2 + "#" + enc(["x", name]),
                        defs, dict(docs)))
    return out


def build_case(d, sk, rid, extra, idk):
    S = dict(sk)
    for k, v in extra.items():
        if k.endswith("@"):
            # merge into (or create) the keyword without disturbing the skeleton's own entries
            k0 = k[:-1]
            cur = dict(S.get(k0, {})) if isinstance(S.get(k0, {}), dict) else None
            if cur is None:
                return None
            for kk, vv in v.items():
                if kk in cur:
                    return None
                cur[kk] = vv
            S[k0] = cur
        else:
            S[k] = v
    if rid:
        S[idk] = rid
    return S


def observe(d, S, docs, x, split=None):
    """(instance path, keyword) multiset, or the exception class."""
    cls = _e1.CLS[d]
    store, served = {}, {}
    for i, (k, v) in enumerate(sorted(docs.items())):
        (served if (split and i % 2 == 0) else store)[k] = copy.deepcopy(v)

    def handler(uri):
        for k, v in served.items():
            if model.dockey(k) == model.dockey(uri):
                return copy.deepcopy(v)
        raise KeyError(uri)
    r = RefResolver.from_schema(S, id_of=cls.ID_OF, store=store, handlers={"http": handler})
    v = cls(S, resolver=r)
    try:
        return sorted(((tuple(e.absolute_path), e.validator) for e in v.iter_errors(x)), key=repr)
    except exceptions.RefResolutionError as e:
        return "RefResolutionError"
    except Exception as e:
        return "EXC " + type(e).__name__


DECOY_T = {"type": "boolean"}


def decoy_of(S, d):
    """A schema with the same base URI and the same definition names, every definition meaning something else."""
    idk = model.IDK[d]
    D = {"definitions": {k: DECOY_T for k in (S.get("definitions") or {})} if isinstance(S, dict) else {}}
    D["properties"] = {k: DECOY_T for k in (S.get("properties") or {})} if isinstance(S.get("properties"), dict) else {}
    D["dependencies"] = {k: DECOY_T for k in (S.get("dependencies") or {})} if isinstance(S.get("dependencies"), dict) else {}
    if idk in S:
        D[idk] = S[idk]
    return D


def observe_mode(d, S, docs, x, mode):
    """Other ways for the same documents to be available; the answer must be the same designation.
      flaky        every handler-served document fails on its first request and is served from the second on;
                   the instance is validated twice and the second answer is observed
      late-store   the documents are missing (handler refuses) for a first validation and are then put into
                   resolver.store; second answer observed
      decoy-after  a second resolver for a decoy schema (same base URI, same names, other meanings) is constructed
                   with the first resolver's store object before the validator under test is used
      decoy-before the validator under test is constructed with the store object of a decoy's resolver
      legacy-resolver the validator is given a resolver object that offers resolving() but no resolve()
      foreign-base-resolver the validator is given a RefResolver constructed with another base URI"""
    cls = _e1.CLS[d]
    failed_once = set()
    serving = {"on": mode != "late-store"}

    def handler(uri):
        for k, v in docs.items():
            if model.dockey(k) == model.dockey(uri):
                if not serving["on"]:
                    raise IOError("not there yet")
                if mode == "flaky" and k not in failed_once:
                    failed_once.add(k)
                    raise IOError("first request fails")
                return copy.deepcopy(v)
        raise KeyError(uri)

    def errs(v):
        try:
            return sorted(((tuple(e.absolute_path), e.validator) for e in v.iter_errors(x)), key=repr)
        except exceptions.RefResolutionError:
            return "RefResolutionError"
        except Exception as e:
            return "EXC " + type(e).__name__

    if mode in ("flaky", "late-store"):
        r = RefResolver.from_schema(S, id_of=cls.ID_OF, store={}, handlers={"http": handler})
        v = cls(S, resolver=r)
        for _ in range(len(docs) + 1):
            errs(v)                       # each attempt may stop at the first document that is not available yet
            if mode == "late-store":
                break
        if mode == "late-store":
            for k, doc in docs.items():
                r.store[k] = copy.deepcopy(doc)
        return errs(v)
    store = {k: copy.deepcopy(v) for k, v in docs.items()}
    if mode == "legacy-resolver":
        r = RefResolver.from_schema(S, id_of=cls.ID_OF, store=store, handlers={"http": handler})
        return errs(cls(S, resolver=LegacyResolver(r)))
    if mode == "foreign-base-resolver":
        # a resolver the caller built with a base URI of its own (as the command line's --base-uri does): the
        # schema's root id, where there is one, is still entered when validation starts
        # (the caller also files the schema under the URI it declares for itself, so that references into
        # "the same document" written relative to that id find it)
        rid = S.get(model.IDK[d]) if isinstance(S, dict) else None
        if isinstance(rid, str) and rid:
            store[rid] = S
        r = RefResolver(base_uri=ELSEWHERE, referrer=S, store=store, handlers={"http": handler})
        return errs(cls(S, resolver=r))
    D = decoy_of(S, d)
    if mode == "decoy-after":
        r = RefResolver.from_schema(S, id_of=cls.ID_OF, store=store, handlers={"http": handler})
        v = cls(S, resolver=r)
        r2 = RefResolver.from_schema(D, id_of=cls.ID_OF, store=r.store, handlers={"http": handler})
        cls(D, resolver=r2).is_valid(x)
        return errs(v)
    r2 = RefResolver.from_schema(D, id_of=cls.ID_OF, store=store, handlers={"http": handler})
    cls(D, resolver=r2).is_valid(x)
    r = RefResolver.from_schema(S, id_of=cls.ID_OF, store=r2.store, handlers={"http": handler})
    return errs(cls(S, resolver=r))


class LegacyResolver(object):
    """The older resolver interface a caller may hand to a validator: resolving() as a context manager and the
    scope stack, but no resolve()."""

    def __init__(self, inner):
        self._inner = inner

    @property
    def resolution_scope(self):
        return self._inner.resolution_scope

    @property
    def base_uri(self):
        return self._inner.base_uri

    def push_scope(self, scope):
        self._inner.push_scope(scope)

    def pop_scope(self):
        self._inner.pop_scope()

    def in_scope(self, scope):
        return self._inner.in_scope(scope)

    def resolving(self, ref):
        return self._inner.resolving(ref)


MODES = ("flaky", "late-store", "decoy-after", "decoy-before", "legacy-resolver", "foreign-base-resolver")
ELSEWHERE = "http://elsewhere.invalid/checkout/"
MODE_INST = 4       # the extra environment modes meet the first instances of the family


def expected(d, S, docs, x):
    w = model.World(d, S, docs)
    try:
        I = model.inline(w, S, depth=model.depth_of(x) + 3)
    except model.Unresolvable as e:
        return None, "unresolvable in model: %s" % e
    try:
        return sorted(((tuple(e.absolute_path), e.validator) for e in _e1.CLS[d](I).iter_errors(x)), key=repr), I
    except Exception as e:
        return None, "inlined schema crashed: %s" % type(e).__name__


def classify(d, S, x, got, exp):
    """Signature from the violation: which reference spelling / name kind fails and how."""
    refs = []

    def walk(n):
        if isinstance(n, dict):
            if "$ref" in n and isinstance(n["$ref"], str):
                refs.append((n["$ref"], sorted(k for k in n if k != "$ref")))
            for v in n.values():
                walk(v)
        elif isinstance(n, list):
            for v in n:
                walk(v)
    walk(S)
    idk = model.IDK[d]
    if any(idk in sib for _, sib in refs):
        return "id-next-to-ref"
    how = got if isinstance(got, str) else "different-errors"
    frags = [r.split("#", 1)[1] if "#" in r else "" for r, _ in refs]
    feats = set()
    for f in frags:
        try:
            toks = pointer.tokens(f)
        except Exception:
            toks = []
        if "" in toks:
            feats.add("empty-key")
        if any("/" in t for t in toks):
            feats.add("slash-in-key")
        if any("~" in t for t in toks):
            feats.add("tilde-in-key")
        if any("%" in t for t in toks):
            feats.add("percent-in-key")
        if any(t.isdigit() or t == "-" for t in toks):
            feats.add("numeric-key")
        if any(ord(c) > 127 for t in toks for c in t):
            feats.add("non-ascii-key")
    return "%s|%s" % (how, "+".join(sorted(feats)) or "plain-names")


def check(d, S, docs, x, split=False):
    exp, I = expected(d, S, docs, x)
    if exp is None:
        return None, None      # outside the model (never happens for the enumerated cases; counted)
    got = observe(d, S, docs, x, split)
    if got != exp:
        return (got, exp, I), classify(d, S, x, got, exp)
    return None, exp


# ---------------------------------------------------------------- enumeration
def gen_two_slot(d, tier):
    """Yields (label, schema, docs) for the two-slot family."""
    idk = model.IDK[d]
    names = NAMES if tier == "thorough" else NAMES_Q
    for name in names:
        for T1, T2 in ((T_INT, T_STR), (T_MIN, T_INT)):
            for full in ((False, True) if (tier == "thorough" or name in ("a b", "é", "%25", "/")) else (False,)):
                for label, rid, r1, r2, extra, docs in arrangements(d, name, T1, T2, full):
                    sibs = siblings(d) if (tier == "thorough" or label in ("frag-only,no-id", "store-relative")) else [{}]
                    for sib in sibs:
                        X = dict({"$ref": r1}, **sib)
                        Y = {"$ref": r2}
                        for sname, sk in skeletons(d, X, Y):
                            S = build_case(d, sk, rid, extra, idk)
                            if S is None:
                                continue
                            yield ("%s|%s|%s|%s" % (label, sname, "full" if full else "min", json.dumps(sib)), S, docs)


def gen_nested_id(d, tier):
    """ids on the evaluation path (relative, absolute, doubly nested) with references relative to them."""
    idk = model.IDK[d]
    for nested in ("sub/", "http://other.invalid/x/y.json", "sub/z.json", "../up.json", "y.json", "#anchor", "?q=1"):
        base = urljoin(ROOT, nested)
        for name in (("a", "~01", "a/b", "%25", "") if tier == "thorough" else ("a", "~01", "")):
            docs = {urljoin(base, "o.json"): {"x": {name: T_INT}}}
            p = pointer.fragment(["definitions", name])
            refs_in = [ROOT + "#" + p, "o.json#" + pointer.fragment(["x", name]),
                       urljoin(base, "o.json") + "#" + pointer.fragment(["x", name])]
            if nested == "sub/":
                refs_in.append("../root.json#" + p)
            for rin in refs_in:
                Y = {"$ref": "#" + pointer.fragment(["definitions", name + "2"])}
                X = {"$ref": rin}
                wraps = [
                    ("props-items", {"properties": {"a": {idk: nested, "items": X}, "b": Y}}),
                    ("items-props", {"items": [{idk: nested, "properties": {"a": X}}, Y]}),
                    ("abandoned", ({"allOf": [{idk: nested, "not": X}, Y]} if d >= 4
                                   else {"extends": [{idk: nested, "disallow": [X]}, Y]})),
                    ("after-nested", {"properties": {"a": {idk: nested, "items": X}, "b": {"items": Y}}}),
                ]
                # an id-bearing schema whose evaluation is abandoned at its first error (not / contains / if)
                ab = {idk: nested, "type": "null", "items": X}
                if d >= 4:
                    wraps.append(("abandoned-id-not", {"allOf": [{"not": ab}, Y], "properties": {"b": Y}}))
                else:
                    wraps.append(("abandoned-id-disallow", {"extends": [{"disallow": [ab]}, Y], "properties": {"b": Y}}))
                if d >= 6:
                    wraps.append(("abandoned-id-contains", {"contains": ab, "items": Y, "properties": {"b": Y}}))
                if d == 7:
                    wraps.append(("abandoned-id-if", {"if": ab, "then": Y, "else": {"properties": {"b": Y}}}))
                if rin.startswith("http"):
                    wraps.append(("double", {"properties": {"a": {idk: nested, "properties": {
                        "a": {idk: "deeper/", "items": X}}}, "b": Y}}))
                    wraps.append(("double-anchor", {"properties": {"a": {idk: nested, "properties": {
                        "a": {idk: "#inner", "type": "object"}, "c": {"items": X}}}, "b": Y}}))
                for wname, sk in wraps:
                    S = dict(sk)
                    S[idk] = ROOT
                    S["definitions"] = {name: T_INT, name + "2": T_STR}
                    yield ("nested-id|%s|%s|%s" % (nested, wname, rin), S, docs)


def gen_recursive(d, tier):
    idk = model.IDK[d]
    tree = {"properties": {"v": {"type": "integer"}, "kids": {"items": {"$ref": "#"}}}}
    yield ("recursive-#", tree, {})
    yield ("recursive-#-with-id", dict(tree, **{idk: ROOT}), {})
    yield ("recursive-definition", {"definitions": {"n": {"properties": {"v": {"type": "integer"},
                                                                       "next": {"$ref": "#/definitions/n"}}}},
                                    "items": {"$ref": "#/definitions/n"}}, {})
    yield ("recursive-through-store", {idk: ROOT, "properties": {"kids": {"items": {"$ref": "node.json"}}}},
           {"http://h.invalid/dir/node.json": {"properties": {"v": {"type": "string"},
                                                              "kids": {"items": {"$ref": "node.json"}}}}})
    # the empty reference designates the document itself (RFC 3986 same-document reference); with ignored siblings
    for i, sib in enumerate(siblings(d)):
        yield ("recursive-empty-ref|sib%d" % i,
               {"properties": {"v": {"type": "integer"}, "kids": {"items": dict({"$ref": ""}, **sib)}}}, {})
        yield ("recursive-empty-ref-with-id|sib%d" % i,
               {idk: ROOT, "properties": {"v": {"type": "integer"}, "kids": {"items": dict({"$ref": ""}, **sib)}}}, {})
        yield ("recursive-hash-ref|sib%d" % i,
               {"properties": {"v": {"type": "integer"}, "kids": {"items": dict({"$ref": "#"}, **sib)}}}, {})
    yield ("mutual", {"definitions": {"a": {"items": {"$ref": "#/definitions/b"}},
                                      "b": {"properties": {"x": {"$ref": "#/definitions/a"}}, "type": "object"}},
                      "$ref": "#/definitions/a"}, {})


def _chain(n, leaf):
    x = leaf
    for _ in range(n):
        x = {"v": 1, "next": x}
    return x


def _tree(n, leaf):
    x = leaf
    for _ in range(n):
        x = {"v": 1, "kids": [x]}
    return x


REC_INST = [[_chain(70, {"v": "bad"})], _tree(70, {"v": "bad"}), [_chain(100, {"v": 2})], _tree(100, {"v": 3}),
            {"v": 1, "kids": [{"v": "x", "kids": [{"v": 2}, {"v": None}]}, {"v": 3}]}, {"v": "a"}, [],
            [{"v": 1, "next": {"v": "s", "next": {"v": 2}}}, {"v": 2.5}], {"kids": [{"v": 0, "kids": [[]]}]},
            [{"x": [{"x": [1]}, 2]}, 3], [[{"x": []}]], 5, {"kids": [{"kids": [{"kids": [{"v": []}]}]}]}]


def gen_id_next_to_ref(d, tier):
    idk = model.IDK[d]
    for idval in ("http://other.invalid/", "sub/", "x.json"):
        yield ("id-next-to-ref|" + idval,
               {"definitions": {"a": T_INT}, "properties": {"a": {idk: idval, "$ref": "#/definitions/a"}}}, {})


FAMILIES = {"two-slot": (gen_two_slot, INST), "nested-id": (gen_nested_id, INST), "recursive": (gen_recursive, REC_INST),
            "id-next-to-ref": (gen_id_next_to_ref, INST[:8])}


def plan(ctx):
    units = []
    sizes = {}
    for d in _e1.DRAFTS:
        for fam, (gen, inst) in FAMILIES.items():
            n = 32 if fam == "two-slot" else (4 if fam == "nested-id" else 1)
            if ctx.thorough and fam == "two-slot":
                n = 48
            units += [(d, fam, i, n) for i in range(n)]
    return {
        "units": units,
        "rule": ("two-slot skeletons (every applicator position incl. the abandoning ones) x hostile definition "
                 "names x 14 target-location/spelling arrangements (fragment-only, relative, absolute, upper-case "
                 "scheme, store documents with and without own id, documents referring back, chains, targets in "
                 "properties/items, whole documents, minimal and fully percent-encoded spellings) x ignored "
                 "siblings x 15 instances; ids on the evaluation path (relative, absolute, double) x references "
                 "relative to them (anchor-like and query-only ids included); pairs of documents whose URLs "
                 "differ only in the percent-encoding of a reserved character; recursive schemas; each case run "
                 "with store-only and with handler-served documents, and for the first 4 instances also with a "
                 "handler that fails once per document, with documents put into resolver.store after a failed "
                 "validation, with a decoy resolver (same base URI and names, other meanings) built from / "
                 "feeding the resolver's store object, with a resolver object of the older interface "
                 "(resolving() only), and with a resolver constructed with another base URI; the designation model inlines every reference and the inlined schema is validated by "
                 "the implementation; distinct by construction (label is unique); non-trivial = the expected "
                 "error multiset is non-empty"),
        "bounds": {"names": len(NAMES if ctx.thorough else NAMES_Q), "instances": len(INST), "tier": ctx.tier},
        "assumptions": ["urllib.parse.urljoin/urldefrag implement RFC 3986 (trusted)",
                        "targets identified only by embedded ids and base changes off the evaluation path are "
                        "outside the property (issue 371) and are not generated"],
    }


def run_unit(unit, ctx):
    d, fam, shard, n = unit
    gen, inst = FAMILIES[fam]
    ev = nt = nsch = rejected = outside = 0
    viol, samples, outcomes = [], [], {}
    for i, (label, S, docs) in enumerate(gen(d, ctx.tier)):
        if i % n != shard:
            continue
        if not _e1.accepted(d, S):
            rejected += 1
            continue
        nsch += 1
        for x in inst:
            for split in ((False, True) if docs else (False,)):
                ev += 1
                bad, sig = check(d, S, docs, x, split)
                if bad is None and sig is None:
                    outside += 1
                    continue
                if bad is None:
                    key = "agree-errors" if sig else "agree-valid"
                    if sig:
                        nt += 1
                else:
                    key = "DISAGREE"
                    nt += 1
                    viol.append({"signature": "C02|%s" % sig, "size": len(str(S)) + len(str(x)),
                                 "case": {"draft": d, "label": label, "schema": S, "docs": docs, "instance": x,
                                          "handler_served": split},
                                 "detail": {"observed": bad[0], "expected": bad[1], "inlined": bad[2]}})
                outcomes[key] = outcomes.get(key, 0) + 1
        for x in inst[:MODE_INST]:
            exp, I = expected(d, S, docs, x)
            if exp is None:
                continue
            for mode in MODES:
                if mode in ("flaky", "late-store") and not docs:
                    continue
                ev += 1
                got = observe_mode(d, S, docs, x, mode)
                if exp:
                    nt += 1
                key = "agree-" + mode if got == exp else "DISAGREE-" + mode
                outcomes[key] = outcomes.get(key, 0) + 1
                if got != exp:
                    viol.append({"signature": "C02|environment=%s|%s" % (mode, classify(d, S, x, got, exp)),
                                 "size": len(str(S)) + len(str(x)),
                                 "case": {"draft": d, "label": label, "schema": S, "docs": docs, "instance": x,
                                          "mode": mode},
                                 "detail": {"observed": got, "expected": exp, "inlined": I}})
        if len(samples) < 1 and nsch % 211 == 17:
            samples.append({"draft": d, "label": label, "schema": S, "docs": docs})
    return {"evaluations": ev, "nontrivial": nt, "violations": viol, "samples": samples, "outcomes": outcomes,
            "counters": {"schemas": nsch, "schemas_rejected_by_check_schema": rejected, "outside_model": outside}}


def replay(case, ctx):
    if case.get("mode"):
        exp, I = expected(case["draft"], case["schema"], case["docs"], case["instance"])
        got = observe_mode(case["draft"], case["schema"], case["docs"], case["instance"], case["mode"])
        return {"reproduced": exp is not None and got != exp, "observed": got, "expected": exp}
    bad, sig = check(case["draft"], case["schema"], case["docs"], case["instance"], case.get("handler_served"))
    return {"reproduced": bad is not None, "observed_expected_inlined": bad, "signature": sig}
