"""Shared machinery of the E1 checks C01 / C05 / C06 (and users of G x U)."""
import copy
import itertools
import json

from jsonschema import (Draft3Validator, Draft4Validator, Draft6Validator,
                        Draft7Validator, exceptions)

from mc.enum import jsonvals, schemas
from mc.ref import spec

CLS = {3: Draft3Validator, 4: Draft4Validator, 6: Draft6Validator, 7: Draft7Validator}
DRAFTS = (3, 4, 6, 7)

_cache = {}


def accepted(d, S):
    try:
        CLS[d].check_schema(S)
        return True
    except exceptions.SchemaError:
        return False


def get_singles(d, tier):
    key = ("singles-kv", d, tier)
    if key not in _cache:
        _cache[key] = [(k, v) for k, v in schemas.singles(d, tier) if accepted(d, {k: v})]
    return _cache[key]


def get_list(kind, d, tier):
    key = (kind, d, tier)
    if key not in _cache:
        if kind == "singles":
            lst = [{k: v} for k, v in get_singles(d, tier)]
        elif kind == "groups":
            lst = schemas.sibling_groups(d, tier)
        elif kind == "nested":
            lst = schemas.nested(d, tier)
        else:
            raise KeyError(kind)
        seen, out = set(), []
        for s in lst:
            t = json.dumps(s)
            if t not in seen:
                seen.add(t)
                out.append(s)
        _cache[key] = out
    return _cache[key]


def get_universe(tier, kind=None):
    """U for the tier; in the quick tier the (very many) ordered pairs meet a
    sub-universe that still has every JSON type, array length and key count."""
    key = ("U", tier)
    if key not in _cache:
        _cache[key] = jsonvals.universe(tier)
    if tier == "quick" and kind == "pairs-small":
        return jsonvals.universe_small()
    if tier == "quick" and kind == "pairs":
        key2 = ("U-pairs", tier)
        if key2 not in _cache:
            _cache[key2] = jsonvals.universe_pairs_quick()
        return _cache[key2]
    return _cache[key]


def make_units(ctx, kinds=("singles", "pairs", "groups", "nested"), pair_shards=24, prebuild=True):
    """Work units: (draft, kind, shard, nshards).  Lists are built in the
    parent so that forked workers share them."""
    units = []
    sizes = {}
    for d in DRAFTS:
        sg = get_singles(d, ctx.tier)
        for kind in kinds:
            if kind == "pairs":
                n = pair_shards if ctx.tier == "quick" else pair_shards * 2
                units += [(d, "pairs", i, n) for i in range(n)]
                sizes["pairs_d%d" % d] = sum(1 for _ in schemas.ordered_pairs(sg))
            else:
                lst = get_list(kind, d, ctx.tier)
                n = max(1, min(16, len(lst) // 150))
                units += [(d, kind, i, n) for i in range(n)]
                sizes["%s_d%d" % (kind, d)] = len(lst)
    get_universe(ctx.tier)
    return units, sizes


def iter_unit(unit, tier):
    d, kind, shard, n = unit
    if kind == "pairs":
        for i, S in enumerate(schemas.ordered_pairs(get_singles(d, tier))):
            if i % n == shard:
                yield S
    else:
        lst = get_list(kind, d, tier)
        for i in range(shard, len(lst), n):
            yield lst[i]


# keyword -> JSON types of instance it applies to (None = all)
APPLIES = {
    "minimum": {"number"}, "maximum": {"number"}, "exclusiveMinimum": {"number"},
    "exclusiveMaximum": {"number"}, "multipleOf": {"number"}, "divisibleBy": {"number"},
    "minLength": {"string"}, "maxLength": {"string"}, "pattern": {"string"},
    "minItems": {"array"}, "maxItems": {"array"}, "uniqueItems": {"array"}, "items": {"array"},
    "additionalItems": {"array"}, "contains": {"array"},
    "minProperties": {"object"}, "maxProperties": {"object"}, "required": {"object"},
    "properties": {"object"}, "patternProperties": {"object"}, "additionalProperties": {"object"},
    "propertyNames": {"object"}, "dependencies": {"object"},
    "type": None, "enum": None, "const": None, "allOf": None, "anyOf": None, "oneOf": None,
    "not": None, "if": None, "extends": None, "disallow": None,
}


def nontrivial(S, x):
    """At least one keyword of the schema applies to the instance's JSON type."""
    if not isinstance(S, dict):
        return True
    t = spec.jtype(x)
    for k in S:
        if k in APPLIES and (APPLIES[k] is None or t in APPLIES[k]):
            return True
    return False


def ident(e, with_values=True):
    """Error identity: keyword, message, relative paths, values, context (recursively)."""
    return (
        e.validator, e.message, tuple(e.path), tuple(e.schema_path),
        repr(e.validator_value) if with_values else None,
        repr(e.instance) if with_values else None,
        tuple(sorted((ident(c, with_values) for c in e.context), key=repr)),
    )


def loc(e):
    return (tuple(e.absolute_path), tuple(e.absolute_schema_path))


def sort_locs(locs):
    return sorted(locs, key=repr)


def shrink_keys(S, still_fails):
    """Greedy deletion of top-level keywords while the disagreement persists."""
    if not isinstance(S, dict):
        return S
    cur = dict(S)
    changed = True
    while changed and len(cur) > 1:
        changed = False
        for k in list(cur):
            cand = {kk: vv for kk, vv in cur.items() if kk != k}
            try:
                if still_fails(cand):
                    cur = cand
                    changed = True
                    break
            except Exception:
                pass
    return cur


def kwsig(S):
    if isinstance(S, dict):
        return "+".join(sorted(S)) or "{}"
    return repr(S)
