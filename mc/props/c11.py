"""C11 — check_schema accepts exactly what the draft's bundled metaschema allows.

Part E (candidates): every JSON value of the hostile universe W, every
{keyword: w}, sibling products the metaschemas constrain, each placed at every
subschema position; the non-finite numbers json.loads produces (1e999, -1e999,
NaN) wherever a keyword value or an element of one can stand; ordered tuples
over an alphabet of equal-but-differently-written entries for every keyword
whose metaschema entry is an array (draft 3 type / disallow unions, type
arrays, required, enum, dependencies); "type confusions" of every valid keyword
value (a string vs. the list of its characters, x vs. [x], int vs. float vs.
bool vs. numeral, object vs. list of pairs ...); the four metaschemas
themselves.  Oracle: the reference evaluator applied to the metaschema *file*
of the draft.

Part H (environment histories): all sequences, up to a depth, of registrations
of further dialects (validators.create / extend with a version, the validates
decorator) that re-use a bundled metaschema id — fewer keywords, altered
metaschema content, a type checker that redefines integer / number / string —
or use another id; after every step the check_schema-vs-metaschema
differential is re-run on a probe set for all four draft classes.  The
registries are snapshotted before and restored (and the restoration verified)
after every history.

Part P (derived dialects used first, pristine processes): dialects made by
Python SUBCLASSING of the draft classes (TYPE_CHECKER / VALIDATORS /
META_SCHEMA overridden as class attributes), instances with an assigned
TYPE_CHECKER, the registrations of part H, and the draft class itself, each
merely *used* (check_schema, validation, is_type); every sequence up to depth
2 runs in its own child forked from a fresh interpreter that has executed
nothing of the package (order of first use), followed by the differential.

Part T (threads): check_schema in two real threads under the baton scheduler
of mc/explore/threads.py -- two different draft classes, and ONE draft class
on the same schema object / on two schemas sharing a nested subschema object /
on equal copies (valid and invalid variants, all four drafts); every schedule
with at most `bound` preemptions at call granularity; expected verdicts from
the same oracle.
"""
import copy
import itertools
import json
import os

import jsonschema
from jsonschema import exceptions
from jsonschema import validators as V

from mc.enum import jsonvals, schemas
from mc.explore import threads
from mc.props import _e1
from mc.ref import nonfinite, spec

ID = "C11"
LEVEL = "exploration"

PKG = os.path.dirname(os.path.abspath(jsonschema.__file__))

KW = ["$ref", "additionalItems", "additionalProperties", "allOf", "anyOf", "const", "contains", "dependencies",
      "disallow", "divisibleBy", "enum", "exclusiveMaximum", "exclusiveMinimum", "extends", "format", "if", "then",
      "else", "items", "maxItems", "maxLength", "maxProperties", "maximum", "minItems", "minLength", "minProperties",
      "minimum", "multipleOf", "not", "oneOf", "pattern", "patternProperties", "properties", "propertyNames",
      "required", "type", "uniqueItems", "id", "$id", "definitions", "default", "$schema", "title", "description",
      "examples", "$comment", "readOnly", "contentEncoding", "maxDecimal", "foo"]
W = jsonvals.W + [-0.5, 2 ** 53, "ipv4", ["a", 1], [None], {"a": None}, {"a": "integer"}, [{"type": "foo"}],
                  {"a": ["a", "a"]}, {"a": [1]}, ["integer", "foo"], "http://["]

WRAP = [
    ("", lambda s: s),
    ("properties/x", lambda s: {"properties": {"x": s}}),
    ("items", lambda s: {"items": s}),
    ("items/0", lambda s: {"items": [s]}),
    ("items/1", lambda s: {"items": [{}, s]}),
    ("not", lambda s: {"not": s}),
    ("allOf/0", lambda s: {"allOf": [s]}),
    ("anyOf/1", lambda s: {"anyOf": [{}, s]}),
    ("oneOf/0", lambda s: {"oneOf": [s]}),
    ("definitions/x", lambda s: {"definitions": {"x": s}}),
    ("dependencies/x", lambda s: {"dependencies": {"x": s}}),
    ("additionalProperties", lambda s: {"additionalProperties": s}),
    ("additionalItems", lambda s: {"additionalItems": s}),
    ("patternProperties/a", lambda s: {"patternProperties": {"a": s}}),
    ("type/0", lambda s: {"type": [s]}),
    ("disallow/0", lambda s: {"disallow": [s]}),
    ("extends", lambda s: {"extends": s}),
    ("extends/0", lambda s: {"extends": [s]}),
    ("if", lambda s: {"if": s}),
    ("then", lambda s: {"then": s}),
    ("contains", lambda s: {"contains": s}),
    ("propertyNames", lambda s: {"propertyNames": s}),
    ("properties/x/items", lambda s: {"properties": {"x": {"items": s}}}),
    ("allOf/0/not", lambda s: {"allOf": [{"not": s}]}),
]
WRAPD = dict(WRAP)

_meta = {}


def meta(d, repo):
    if d not in _meta:
        with open(os.path.join(repo, "jsonschema", "schemas", "draft%d.json" % d)) as f:
            _meta[d] = json.load(f)
    return _meta[d]


def base_candidates():
    """The finite hostile family (also used by C04; keep its meaning)."""
    c = list(W)
    c += [{k: w} for k in KW for w in W]
    for a, b in (("minimum", "exclusiveMinimum"), ("maximum", "exclusiveMaximum")):
        c += [{a: 1, b: w} for w in W] + [{b: w, a: 0} for w in W]
    c += [{"properties": {"a": {"required": w}}} for w in W]
    c += [{"dependencies": {"a": w}} for w in W]
    c += [{"type": ["string", w]} for w in W]
    c += [{"items": [{}, w]} for w in W]
    return c


# ---- family "nonfinite": what json.loads makes of 1e999 / -1e999 / NaN ---------------------------
def _j(text):
    return json.loads(text)


def nonfinite_values():
    """Fresh objects, exactly as a parsed document has them (two NaN literals are two float objects)."""
    return [_j(t) for t in (
        "1e999", "-1e999", "NaN", "[1e999]", "[-1e999]", "[NaN]", "[1e999, 1e999]", "[1e999, -1e999]", "[NaN, NaN]",
        "[\"a\", 1e999]", "[1, NaN]", "{\"a\": 1e999}", "{\"a\": -1e999}", "{\"a\": NaN}", "{\"a\": [1e999]}",
        "[{\"minLength\": 1e999}]", "{\"a\": {\"maxItems\": -1e999}}", "{\"a\": {\"minimum\": NaN}}")]


def nonfinite_candidates():
    c = nonfinite_values()
    c += [{k: w} for k in KW for w in nonfinite_values()]
    for a, b in (("minimum", "exclusiveMinimum"), ("maximum", "exclusiveMaximum")):
        for w in nonfinite_values()[:3]:
            c += [{a: w, b: True}, {b: False, a: w}, {a: w, b: 1}, {a: 1, b: w}, {b: w, a: w}]
    c += [{"type": ["string", w]} for w in nonfinite_values()[:3]]
    c += [{"required": ["a", w]} for w in nonfinite_values()[:3]]
    c += [{"required": [w, w]} for w in nonfinite_values()[:3]]
    c += [{"enum": [w, "a", w]} for w in nonfinite_values()[:3]]
    return c


# ---- family "unions": arrays whose entries must be unique -----------------------------------------
# equal-but-differently-written entries (member order, 1 / 1.0), entries that differ only in bool / number,
# type names, and objects whose repr sorts between two equal ones
UE = ["string", "null", "any", "integer",
      {"minimum": 1}, {"minimum": 1.0}, {"minimum": 1.5}, {"minimum": 0},
      {"type": "string", "maxLength": 3}, {"maxLength": 3, "type": "string"},
      {"enum": [1, 2]}, {"enum": [1.0, 2]}, {"enum": [1, 3]}, {"enum": [True, 2]},
      {"a": 1, "b": [2]}, {"b": [2.0], "a": 1.0}]
UE4 = ["string", "null", {"minimum": 1}, {"minimum": 1.0}, {"minimum": 1.5}, {"type": "string", "maxLength": 3},
       {"maxLength": 3, "type": "string"}, {"minimum": 0}]
UKW = ["type", "disallow", "required", "enum", "extends", "dependencies/a"]


def union_candidates(thorough):
    tuples = [list(t) for n in (2, 3) for t in itertools.product(UE, repeat=n)]
    if thorough:
        tuples += [list(t) for t in itertools.product(UE4, repeat=4)]
    out = []
    for k in UKW:
        for t in tuples:
            if k == "dependencies/a":
                out.append(("", {"dependencies": {"a": t}}))
            else:
                out.append(("", {k: t}))
            if k in ("type", "disallow"):
                out.append(("properties/x", {k: t}))
                if thorough:
                    out.append(("extends/0", {k: t}))
    return out


# ---- family "confusion": type confusions of valid keyword values ------------------------------------
def confusions(v, depth=1):
    """Values a sloppy producer (or a sloppy comparison) confuses with v."""
    out = []
    if isinstance(v, str):
        out += [list(v), [v], {v: {}}, {v: v}]
        if v.isdigit():
            out.append(int(v))
    elif v is True or v is False:
        out += [int(v), float(v), "true" if v else "false", [v]]
    elif isinstance(v, int):
        out += [float(v), str(v), [v]]
        if v in (0, 1):
            out.append(bool(v))
    elif isinstance(v, float):
        out += [str(v), [v]]
        if v == int(v):
            out += [int(v)]
    elif v is None:
        out += ["null", 0, False, [None]]
    elif isinstance(v, list):
        out += [[v], {str(i): e for i, e in enumerate(v)}]
        if len(v) == 1:
            out.append(v[0])
        if v and all(isinstance(e, str) for e in v):
            out += [{e: {} for e in v}, "".join(v), ",".join(v)]
        out.append(v + v[:1] if v else [[]])
        if depth:
            for i, e in enumerate(v):
                for m in confusions(e, depth - 1):
                    out.append(v[:i] + [m] + v[i + 1:])
    elif isinstance(v, dict):
        out += [[[k, e] for k, e in v.items()], list(v), list(v.values()), [v]]
        if depth:
            for k, e in v.items():
                for m in confusions(e, depth - 1):
                    out.append(dict(v, **{k: m}))
    return out


def valid_values():
    """(keyword, value) pairs valid in at least one draft: the singles of the schema grammar of every draft."""
    seen, out = set(), []
    extra = [("$ref", "#"), ("$ref", "#/definitions/a"), ("id", "http://x.invalid/a"), ("$id", "http://x.invalid/a"),
             ("$schema", "http://json-schema.org/draft-04/schema#"), ("definitions", {"a": {"type": "integer"}}),
             ("description", "x"), ("examples", [0]), ("$comment", "x"), ("readOnly", True),
             ("contentEncoding", "base64"), ("required", True), ("required", False)]
    for d in _e1.DRAFTS:
        for k, v in schemas.singles(d, "quick") + extra:
            t = json.dumps([k, v])
            if t not in seen:
                seen.add(t)
                out.append((k, v))
    return out


def confusion_candidates(thorough):
    out = []
    for k, v in valid_values():
        for m in confusions(v, 2 if thorough else 1):
            out.append({k: m})
    return out


CONF_WRAPS = ["", "properties/x", "items/0", "anyOf/1"]
CONF_WRAPS_T = CONF_WRAPS + ["not", "dependencies/x", "extends/0", "type/0", "additionalProperties", "definitions/x"]

_cands = None


def candidates(ctx):
    """[(family, wrap name, candidate, inner candidate or None)], de-duplicated by JSON text."""
    global _cands
    if _cands is None:
        out = []
        seen = set()

        def add(fam, wname, inner):
            s = WRAPD[wname](inner)
            t = json.dumps(s)
            if t not in seen:
                seen.add(t)
                out.append((fam, wname, s, inner if wname else None))

        base = base_candidates()
        wraps = WRAP if ctx.thorough else WRAP[:16]
        for wname, wr in wraps:
            for c in base:
                add("base", wname, c)
        if ctx.thorough:
            # ordered pairs of keyword candidates over a reduced W at the top level
            small = [None, True, 0, -1, 1.5, "", "a", [], ["a"], [{}], {}, {"a": {}}, {"a": []}]
            for (k1, k2) in itertools.permutations(KW[:42], 2):
                for w1, w2 in ((w1, w2) for w1 in small[:6] for w2 in small[6:]):
                    add("base", "", {k1: w1, k2: w2})
        for wname, wr in wraps:
            for c in nonfinite_candidates():      # fresh float objects per position, as parsed documents have them
                add("nonfinite", wname, c)
        for wname, c in union_candidates(ctx.thorough):
            add("unions", wname, c)
        conf = confusion_candidates(ctx.thorough)
        for wname in (CONF_WRAPS_T if ctx.thorough else CONF_WRAPS):
            for c in conf:
                add("confusion", wname, c)
        _cands = out
    return _cands


# ---- part H: registration histories ----------------------------------------------------------------
OP_KINDS = ["few", "strict", "loose", "intstr", "anystr", "decor", "otherid", "copy"]
OPS = [(k, d) for d in _e1.DRAFTS for k in OP_KINDS]


def _only_enum(validator, enums, instance, schema):
    if instance not in enums:
        yield exceptions.ValidationError("%r not allowed" % (instance,))


def _idkey(D):
    return "id" if "id" in D.META_SCHEMA else "$id"


def apply_op(kind, d):
    """Register one further dialect; returns the new class."""
    D = _e1.CLS[d]
    name = "c11 %s d%d" % (kind, d)
    if kind == "few":          # same metaschema (same id), a one-keyword table
        return V.create(meta_schema=D.META_SCHEMA, validators={"enum": _only_enum}, version=name, id_of=D.ID_OF)
    if kind == "strict":       # same id, altered content: no unknown keywords
        return V.create(meta_schema=dict(D.META_SCHEMA, additionalProperties=False), validators=D.VALIDATORS,
                        type_checker=D.TYPE_CHECKER, id_of=D.ID_OF, version=name)
    if kind == "loose":        # the documented recipe: extend, then replace META_SCHEMA of the new class
        X = V.extend(D, version=name)
        X.META_SCHEMA = {_idkey(D): D.META_SCHEMA[_idkey(D)]}
        return X
    if kind == "intstr":       # numerals count as integers / numbers
        base = D.TYPE_CHECKER

        def is_integer(checker, instance):
            return (isinstance(instance, str) and instance.isdigit()) or base.is_type(instance, "integer")

        def is_number(checker, instance):
            return (isinstance(instance, str) and instance.isdigit()) or base.is_type(instance, "number")
        return V.extend(D, type_checker=base.redefine_many({"integer": is_integer, "number": is_number}), version=name)
    if kind == "anystr":       # everything is a string; nothing is an object
        tc = D.TYPE_CHECKER.redefine_many({"string": lambda checker, instance: True,
                                           "object": lambda checker, instance: False})
        return V.extend(D, type_checker=tc, version=name)
    if kind == "decor":        # an unversioned class with an empty keyword table, registered through the decorator
        X = V.create(meta_schema=D.META_SCHEMA, validators={}, id_of=D.ID_OF)
        return V.validates(name)(X)
    if kind == "otherid":      # a dialect with an id of its own (control)
        return V.create(meta_schema={_idkey(D): "urn:x-c11:dialect-%d" % d, "additionalProperties": False},
                        validators={"enum": _only_enum}, version=name, id_of=D.ID_OF)
    if kind == "copy":         # plain extension: another class object with equal content
        return V.extend(D, version=name)
    raise KeyError(kind)


def reg_snapshot():
    return dict(V.validators), dict(V.meta_schemas.store)


def reg_restore(snap):
    V.validators.clear()
    V.validators.update(snap[0])
    V.meta_schemas.store.clear()
    V.meta_schemas.store.update(snap[1])


def reg_same(snap):
    cur = reg_snapshot()
    for a, b in zip(cur, snap):
        if list(a) != list(b) or any(a[k] is not b[k] for k in a):
            return False
    return True


def probes():
    """The reduced candidate set of part H: every kind of dialect of the alphabet changes the verdict on some."""
    out = [[], "a", 1, None, {}]
    vals = ["3", 3, -1, "a", 2.0, [], {}, {"a": 7}, True, {"a": {"x-note": 1}}]
    kws = ["minLength", "maxItems", "multipleOf", "divisibleBy", "type", "properties", "items", "required", "enum",
           "pattern", "additionalProperties", "dependencies", "x-note"]
    for k in kws:
        for w in vals:
            out.append({k: w})
    for k in ("minLength", "type", "properties", "pattern", "x-note", "required"):
        for w in vals[:5]:
            out.append({"properties": {"a": {k: w}}})
    for k in ("minLength", "type", "x-note"):
        for w in vals[:4]:
            out.append({"items": [{k: w}]})
            out.append({"extends": {k: w}, "not": {k: w}, "contains": {k: w}})
    seen, res = set(), []
    for c in out:
        t = json.dumps(c)
        if t not in seen:
            seen.add(t)
            res.append(c)
    return res


MINI = 12           # probes checked after a non-final step of a history (the check is itself an operation)
_probes = None
_probe_exp = {}
_base_snap = None


def probe_table(ctx):
    global _probes
    if _probes is None:
        _probes = probes()
        for d in _e1.DRAFTS:
            M = meta(d, ctx.repo)
            exp = []
            for c in _probes:
                try:
                    exp.append(not spec.errs(d, M, c))
                except spec.Unsupported:
                    exp.append(None)
            _probe_exp[d] = exp
    return _probes


def hist_depth(ctx):
    return 3 if ctx.thorough else 2


def histories(ctx):
    for n in range(1, hist_depth(ctx) + 1):
        for h in itertools.product(range(len(OPS)), repeat=n):
            yield h


def check_state(ctx, limit=None, only=None):
    """check_schema vs. metaschema for the four draft classes in the current registry state.
    -> (evaluations, [(draft, probe index or 'own-metaschema', got, expected)])"""
    P = probe_table(ctx)
    bad = []
    ev = 0
    for d in _e1.DRAFTS:
        if only is not None and d != only[0]:
            continue
        cls = _e1.CLS[d]
        M = meta(d, ctx.repo)
        if only is None or only[1] == "own-metaschema":
            ev += 1
            got = outcome(cls, M)
            if got is not True or cls.META_SCHEMA != M:
                bad.append((d, "own-metaschema", got if got is not True else "META_SCHEMA attribute changed", True))
        idx = range(len(P) if limit is None else min(limit, len(P))) if only is None else (
            [only[1]] if only[1] != "own-metaschema" else [])
        exp = _probe_exp[d]
        for i in idx:
            if exp[i] is None:
                continue
            ev += 1
            got = outcome(cls, P[i])
            if got != exp[i]:
                bad.append((d, i, got, exp[i]))
    return ev, bad


def run_history(ctx, ops, only=None):
    """Replays one history on the restored registries: mini check after every non-final step, full check after the
    last.  -> (evaluations, mismatches of the final state, mismatches of earlier states)"""
    ev = 0
    early = []
    reg_restore(_base_snap)
    try:
        for j, (kind, d) in enumerate(ops):
            apply_op(kind, d)
            last = j == len(ops) - 1
            n, bad = check_state(ctx, None if last else MINI, only if last else None)
            ev += n
            if not last:
                early += bad
        return ev, bad, early
    finally:
        reg_restore(_base_snap)
        if not reg_same(_base_snap):
            raise RuntimeError("C11 harness: registries not restored after a history")


def kind_of(got, exp):
    if isinstance(got, str):
        return "crash-" + got[4:] if got.startswith("EXC ") else got
    return "accepts-invalid" if got else "rejects-valid"


def shrink_history(ctx, ops, d, what):
    """Greedy deletion of registrations while the same (class, probe) still disagrees."""
    cur = list(ops)
    changed = True
    while changed and len(cur) > 1:
        changed = False
        for i in range(len(cur)):
            cand = cur[:i] + cur[i + 1:]
            _, bad, _ = run_history(ctx, cand, only=(d, what))
            if bad:
                cur, changed = cand, True
                break
    return cur


def hist_violation(ctx, ops, bad_all):
    """One violation per (history, class): the first disagreeing probe, shrunk."""
    out = []
    for d in _e1.DRAFTS:
        bad = [b for b in bad_all if b[0] == d]
        if not bad:
            continue
        _, what, got, exp = bad[0]
        small = shrink_history(ctx, ops, d, what)
        _, again, _ = run_history(ctx, small, only=(d, what))
        if again:
            got = again[0][2]
        rel = sorted({"%s:%s" % (k, "same-draft" if dd == d else "other-draft") for k, dd in small})
        sig = "C11|after-registering-dialects|%s|%s" % (
            "own-metaschema-rejected" if what == "own-metaschema" else kind_of(got, exp), "+".join(rel))
        cand = "metaschema-of-draft-%d" % d if what == "own-metaschema" else probe_table(ctx)[what]
        out.append({"signature": sig, "size": 10 * len(small) + len(json.dumps(cand)) // 20,
                    "case": {"part": "H", "history": [list(o) for o in small], "draft": d, "candidate": cand},
                    "detail": {"check_schema": got, "reference": exp, "explored_history": [list(o) for o in ops],
                               "probes_disagreeing_for_this_class_in_this_state": len(bad)}})
    return out


# ---- part P: derived dialects that are merely USED, in pristine processes ---------------------------------
# A dialect need not be registered to matter: a Python subclass of a public draft class (overriding TYPE_CHECKER,
# VALIDATORS or META_SCHEMA as class attributes), or an instance with an assigned TYPE_CHECKER, shares whatever the
# draft class keeps at class level.  And who uses a thing FIRST matters for anything filled in lazily: a pool worker
# has long used the draft classes, so every history of this part runs in its own child forked from a fresh
# interpreter that has imported the package and executed nothing (mc/explore/isolated.py).
SUB_KINDS = ["sub-int-lenient", "sub-int-strict", "sub-num-str", "sub-anystr", "sub-few", "sub-notype",
             "sub-meta-loose", "sub-meta-strict"]
INST_KINDS = ["inst-tc-lenient", "inst-tc-strict"]
P_USES = ["cs", "val"]


def p_ops():
    """(kind, draft, use): 'first' = the draft class itself is used; sub-* = a Python subclass of it; inst-* = an
    instance of it with an assigned TYPE_CHECKER; reg-* = the registrations of part H (the new class is used)."""
    out = []
    for d in _e1.DRAFTS:
        out += [("first", d, u) for u in P_USES]
        out += [(k, d, u) for k in SUB_KINDS for u in P_USES]
        out += [(k, d, "val") for k in INST_KINDS]
        out += [("reg-" + k, d, "cs") for k in OP_KINDS]
    return out


def _integral(checker, instance):
    if isinstance(instance, bool):
        return False
    return isinstance(instance, int) or (isinstance(instance, float) and instance.is_integer())


def _strictly_int(checker, instance):
    return isinstance(instance, int) and not isinstance(instance, bool)


def _numeral(base, name):
    def check(checker, instance):
        return (isinstance(instance, str) and instance.isdigit()) or base.is_type(instance, name)
    return check


def p_dialect(kind, d):
    """-> a function schema -> validator object, and the class whose check_schema the 'cs' use calls."""
    D = _e1.CLS[d]
    tc = D.TYPE_CHECKER
    if kind == "first":
        return D, D
    if kind.startswith("reg-"):
        X = apply_op(kind[4:], d)
        return X, X
    if kind.startswith("inst-tc-"):
        new = tc.redefine("integer", _integral if kind.endswith("lenient") else _strictly_int)

        def mk(schema):
            v = D(schema)
            v.TYPE_CHECKER = new
            return v
        return mk, None
    attrs = {
        "sub-int-lenient": lambda: {"TYPE_CHECKER": tc.redefine("integer", _integral)},
        "sub-int-strict": lambda: {"TYPE_CHECKER": tc.redefine("integer", _strictly_int)},
        "sub-num-str": lambda: {"TYPE_CHECKER": tc.redefine_many({"integer": _numeral(tc, "integer"),
                                                                  "number": _numeral(tc, "number")})},
        "sub-anystr": lambda: {"TYPE_CHECKER": tc.redefine_many({"string": lambda c, i: True,
                                                                 "object": lambda c, i: False})},
        "sub-few": lambda: {"VALIDATORS": {"enum": _only_enum}},
        "sub-notype": lambda: {"VALIDATORS": {k: v for k, v in D.VALIDATORS.items() if k not in ("type", "$ref")}},
        "sub-meta-loose": lambda: {"META_SCHEMA": {_idkey(D): D.META_SCHEMA[_idkey(D)]}},
        "sub-meta-strict": lambda: {"META_SCHEMA": dict(D.META_SCHEMA, additionalProperties=False)},
    }[kind]()
    X = type("C11" + kind.title().replace("-", "") + "Draft%d" % d, (D,), attrs)
    return X, X


P_USE_PROBES = [{"minLength": 2.0}, {"minLength": 2}, {"minLength": "3"}, {"maxItems": 2.5}, {"type": "integer"},
                {"type": ["string", "null"]}, {"properties": {"a": {"x-note": 1, "maxLength": 1.0}}}, {"pattern": 7},
                {"items": [{"multipleOf": "2"}]}, {"required": ["a"]}, {"enum": [1]}, [], {}]
P_USE_TYPES = ["integer", "number", "string", "object", "array", "boolean", "null", "any"]
P_USE_INSTANCES = [None, True, 0, 2, 2.0, 2.5, "3", "a", [], {}]


def p_use(mk, cls, use):
    """Use a dialect; whatever it answers or raises is its own business."""
    if use == "cs":
        for c in P_USE_PROBES:
            try:
                cls.check_schema(c)
            except Exception:
                pass
        return
    try:
        plain = mk({})
    except Exception:
        return
    for t in P_USE_TYPES:
        try:
            typed = mk({"type": t})
        except Exception:
            continue
        for x in P_USE_INSTANCES:
            try:
                typed.is_valid(x)
            except Exception:
                pass
            try:
                plain.is_type(x, t)
            except Exception:
                pass
    try:
        list(mk({"properties": {"a": {"type": "integer", "minimum": 1}}, "minLength": 1}).iter_errors({"a": 2.0}))
    except Exception:
        pass


P_OTHERS = 8        # probes for the draft classes no operation of the history derives from


def p_child(item):
    """Child side: one history from the pristine state; then the differential for the four draft classes."""
    ctx, ops, only = _p_ctx, item["ops"], item.get("only")
    failed = []
    for kind, d, use in ops:
        try:
            mk, cls = p_dialect(kind, d)
        except Exception as e:
            failed.append([kind, d, use, type(e).__name__])
            continue
        p_use(mk, cls, use)
    touched = {d for _, d, _ in ops}
    P = probe_table(ctx)
    ev, bad = 0, []
    for d in _e1.DRAFTS:
        if only is not None and d != only[0]:
            continue
        cls = _e1.CLS[d]
        M = meta(d, ctx.repo)
        if only is None or only[1] == "own-metaschema":
            ev += 1
            got = outcome(cls, M)
            if got is not True or cls.META_SCHEMA != M:
                bad.append([d, "own-metaschema", got if got is not True else "META_SCHEMA attribute changed", True])
        if only is not None:
            idx = [only[1]] if only[1] != "own-metaschema" else []
        else:
            idx = range(len(P) if d in touched else min(P_OTHERS, len(P)))
        for i in idx:
            exp = _probe_exp[d][i]
            if exp is None:
                continue
            ev += 1
            got = outcome(cls, P[i])
            if got != exp:
                bad.append([d, i, got, exp])
    return {"ev": ev, "bad": bad, "failed_ops": failed}


_p_ctx = None


def p_histories(tier):
    ops = p_ops()
    for o in ops:
        yield [o]
    for a in ops:
        for b in ops:
            if tier != "quick" or a[1] == b[1]:
                yield [a, b]


def p_nursery(arg):
    """Nursery side (fresh interpreter, nothing of the package executed yet): every history of the shard in its own
    forked child; disagreeing histories are shrunk (again one child per attempt)."""
    global _p_ctx
    from mc.core import harness
    from mc.explore import isolated
    repo = os.path.realpath(os.environ.get("VERIF_REPO", "/repo"))
    ctx = _p_ctx = harness.Ctx(arg["tier"], 0, 1, repo)
    probe_table(ctx)                       # reference only: executes nothing of the package
    if "replay" in arg:
        case = arg["replay"]
        c = case["candidate"]
        what = "own-metaschema" if isinstance(c, str) and c.startswith("metaschema-of-draft-") else (
            [json.dumps(q) for q in _probes].index(json.dumps(c)))
        r = isolated.fork_each([{"ops": case["history"], "only": [case["draft"], what]}], p_child)[0]
        return {"reproduced": bool(r["bad"]), "mismatches": r["bad"]}
    hs = [h for i, h in enumerate(p_histories(arg["tier"])) if i % arg["n"] == arg["shard"]]
    res = isolated.fork_each([{"ops": h} for h in hs], p_child)
    out = {"evaluations": 0, "histories": len(hs), "violations": [], "outcomes": {}}
    oc = out["outcomes"]
    for h, r in zip(hs, res):
        out["evaluations"] += r["ev"]
        key = "pristine-history-depth-%d:%s" % (len(h), "DISAGREE" if r["bad"] else "agree")
        oc[key] = oc.get(key, 0) + 1
        if r["failed_ops"]:
            oc["pristine:operation-raised(skipped)"] = oc.get("pristine:operation-raised(skipped)", 0) + 1
        for d in _e1.DRAFTS:
            bad = [b for b in r["bad"] if b[0] == d]
            if not bad:
                continue
            _, what, got, exp = bad[0]
            small = list(h)
            changed = True
            while changed and len(small) > 1:
                changed = False
                for i in range(len(small)):
                    cand = small[:i] + small[i + 1:]
                    rr = isolated.fork_each([{"ops": cand, "only": [d, what]}], p_child)[0]
                    if rr["bad"]:
                        small, changed, got = cand, True, rr["bad"][0][2]
                        break
            rel = sorted({"%s/%s:%s" % (k, u, "same-draft" if dd == d else "other-draft") for k, dd, u in small})
            sig = "C11|after-using-derived-dialects-first|%s|%s" % (
                "own-metaschema-rejected" if what == "own-metaschema" else kind_of(got, exp), "+".join(rel))
            cand = "metaschema-of-draft-%d" % d if what == "own-metaschema" else _probes[what]
            out["violations"].append({
                "signature": sig, "size": 10 * len(small) + len(json.dumps(cand)) // 20,
                "case": {"part": "P", "history": [list(o) for o in small], "draft": d, "candidate": cand,
                         "tier": arg["tier"]},
                "detail": {"check_schema": got, "reference": exp, "explored_history": [list(o) for o in h],
                           "probes_disagreeing_for_this_class_in_this_state": len(bad)}})
    return out


def run_pris_unit(unit, ctx):
    from mc.explore import isolated
    _, shard, n = unit
    r = isolated.run("mc.props.c11", "p_nursery", {"tier": ctx.tier, "shard": shard, "n": n})
    return {"evaluations": r["evaluations"], "nontrivial": r["evaluations"], "violations": r["violations"],
            "samples": [], "outcomes": r["outcomes"], "counters": {"pristine_histories": r["histories"]}}


# ---- part T: check_schema of different drafts in concurrent threads ------------------------------------
T_CANDS = {
    # one accepted and one rejected candidate per draft, both judged through a $ref of the metaschema
    3: [{"extends": {"minLength": 1}}, {"items": {"minLength": -1}}],
    4: [{"minLength": 1}, {"items": {"minLength": -1}}],
    6: [{"minLength": 1}, {"items": {"minLength": -1}}],
    7: [{"minLength": 1, "required": ["a"]}, {"items": {"minLength": -1}}],
}


ACC, REJ, BOTH = (0,), (1,), (0, 1)


SAME_VARIANTS = ("same", "nested", "copies")
SAME_SUB = {"valid": {"type": "string", "minLength": 1}, "invalid": {"minLength": -1}}


def same_schemas(variant, validity):
    """Fresh schema objects for two threads that check with the SAME draft class:
    same    both threads check the very same schema object;
    nested  two different schemas that contain the same subschema object (shared by identity);
    copies  two equal schemas that share no container (only interned atoms such as small ints and strings)."""
    sub = copy.deepcopy(SAME_SUB[validity])
    a = {"properties": {"item": sub}}
    if variant == "same":
        return [a, a]
    if variant == "nested":
        return [a, {"patternProperties": {"a": sub}}]
    if variant == "copies":
        return [a, copy.deepcopy(a)]
    raise KeyError(variant)


def is_same(thr):
    return thr[0] == "same"


def t_configs(tier):
    """thread spec, granularity, preemption bound.  A spec is ((draft, which of its two candidates), ...) for
    threads with different draft classes, or ("same", draft, variant, validity) for two threads with one class."""
    same = [("same", d, v, val) for d in _e1.DRAFTS for v in SAME_VARIANTS for val in ("invalid", "valid")]
    if tier == "quick":
        out = [(((4, ACC), (7, REJ)), "call", 2), (((3, REJ), (6, ACC)), "call", 1),
               (((4, BOTH), (7, BOTH)), "call", 1), (((6, BOTH), (3, BOTH)), "call", 1)]
        out += [(sp, "call", 1) for sp in same]
        out += [(("same", 3, "nested", "invalid"), "call", 2)]
        return out
    out = []
    for a, b in itertools.permutations(_e1.DRAFTS, 2):
        out.append((((a, ACC), (b, REJ)), "call", 2))
        out.append((((a, BOTH), (b, BOTH)), "call", 1))
    out += [(((4, ACC), (7, ACC)), "call", 2), (((6, REJ), (3, REJ)), "call", 2),
            (((4, ACC), (6, REJ), (7, ACC)), "call", 1), (((7, ACC), (4, REJ)), "line", 1)]
    out += [(sp, "call", 2) for sp in same]
    out += [(("same", 4, "nested", "invalid"), "line", 1), (("same", 7, "same", "invalid"), "line", 1)]
    return out


def t_bodies(thr):
    if is_same(thr):
        _, d, variant, validity = thr
        cls = _e1.CLS[d]
        schemas_ = same_schemas(variant, validity)       # fresh per schedule, shared between its two threads

        def mk_same(S):
            def body():
                return (t_outcome(cls, S),)
            return body
        return [mk_same(S) for S in schemas_]

    def mk(d, which):
        cls = _e1.CLS[d]

        def body():
            return tuple(t_outcome(cls, copy.deepcopy(T_CANDS[d][i])) for i in which)
        return body
    return [mk(d, which) for d, which in thr]


SCHED = "SCHEDULER: prefix not replayable"


def t_outcome(cls, c):
    """outcome(), but an exception thrown by the baton scheduler itself (its trace function refuses a schedule
    prefix that the run no longer follows) is told apart from an exception of the code under test."""
    try:
        cls.check_schema(c)
        return True
    except exceptions.SchemaError:
        return False
    except Exception as e:
        tb = e.__traceback__
        while tb.tb_next is not None:
            tb = tb.tb_next
        if os.path.abspath(tb.tb_frame.f_code.co_filename) == os.path.abspath(threads.__file__):
            return SCHED
        return "EXC " + type(e).__name__


def t_expected(ctx, d, which=BOTH):
    M = meta(d, ctx.repo)
    return tuple(not spec.errs(d, M, T_CANDS[d][i]) for i in which)


def t_check(ctx, thr):
    if is_same(thr):
        _, d, variant, validity = thr
        M = meta(d, ctx.repo)
        cands = same_schemas(variant, validity)
        exp = [(not spec.errs(d, M, c),) for c in cands]
        drafts = [d, d]
        shown = [[c] for c in cands]
    else:
        exp = [t_expected(ctx, d, which) for d, which in thr]
        drafts = [d for d, _ in thr]
        shown = [[T_CANDS[d][j] for j in which] for d, which in thr]

    def check(results):
        for i, d in enumerate(drafts):
            if results[i] != exp[i]:
                return {"thread": i, "draft": d, "candidates": shown[i], "got": results[i], "expected": exp[i]}
        return None
    check.expected = exp
    return check


def t_warm(thr):
    """Run the bodies sequentially twice, so that whatever the first call of a kind builds lazily exists before the
    root run and before every explored schedule alike (cold start is C18's part D)."""
    for _ in range(2):
        for b in t_bodies(thr):
            b()


def t_name(thr):
    if is_same(thr):
        return "d%d+d%d:%s-%s" % (thr[1], thr[1], thr[2], thr[3])
    return "+".join("d%d:%s" % (d, "".join("ar"[i] for i in which)) for d, which in thr)


def t_json(thr):
    return list(thr) if is_same(thr) else [[d, list(w)] for d, w in thr]


def t_unjson(j):
    return tuple(j) if j[0] == "same" else tuple((d, tuple(w)) for d, w in j)


# ---- plan / run ---------------------------------------------------------------------------------------
def plan(ctx):
    global _base_snap
    cands = candidates(ctx)
    n = 32 if ctx.tier == "quick" else 96
    units = [(d, i, n) for d in _e1.DRAFTS for i in range(n)]
    units += [("meta", 0, 1)]
    probe_table(ctx)
    _base_snap = reg_snapshot()
    nh = sum(len(OPS) ** k for k in range(1, hist_depth(ctx) + 1))
    hs = 48 if ctx.tier == "quick" else 256
    units += [("hist", i, hs) for i in range(hs)]
    ps = 32 if ctx.tier == "quick" else 128
    units += [("pris", i, ps) for i in range(ps)]
    n_pris = sum(1 for _ in p_histories(ctx.tier))
    sizes = {}
    for ci, (thr, gran, bound) in enumerate(t_configs(ctx.tier)):
        if is_same(thr):
            e = t_check(ctx, thr).expected
            assert e == [(thr[3] == "valid",)] * 2, (thr, e)
        else:
            for d, which in thr:
                e = t_expected(ctx, d)
                assert e == (True, False), (d, e)
        t_warm(thr)
        npts = None
        for _ in range(5):          # the scheduler's wall-clock stall monitor can misfire on a busy machine
            sc = threads.Sched(t_bodies(thr), [], PKG, gran)
            try:
                _, pts = sc.run()
            except threads.Deadlock:
                continue
            if not sc.stalls:
                npts = len(pts)
                break
        if npts is None:
            raise RuntimeError("C11 harness: no undisturbed root run of the thread bodies in 5 attempts")
        sizes["thread_points_%s_%s_bound%d" % (t_name(thr), gran, bound)] = npts
        chunk = max(1, npts // (32 if bound >= 2 else 4))
        for lo in range(0, npts, chunk):
            units.append(("thr", ci, lo, lo + chunk if lo + chunk < npts else 10 ** 9))
    fam = {}
    for f, _, _, _ in cands:
        fam[f] = fam.get(f, 0) + 1
    return {
        "units": units,
        "rule": ("part E: every value of W, every {keyword: w} for 50 keyword names (all drafts' keywords, annotations, "
                 "unknown names) x W, sibling products for exclusive*/required/dependencies/type/items, each placed "
                 "at every subschema position of the wrap table [base]; the same for the non-finite numbers "
                 "json.loads produces (inf, -inf, nan: bare, in arrays, in objects, in nested subschemas) "
                 "[nonfinite]; every ordered tuple of length 2-3 (4 over a reduced alphabet in thorough) over 16 "
                 "entries (type names, equal-but-differently-written objects: member order, 1 / 1.0; bool-vs-number "
                 "look-alikes; objects sorting between them) as the value of type, disallow, required, enum, "
                 "extends, dependencies/a [unions]; type confusions of every valid keyword value of the schema "
                 "grammar of every draft (string <-> list of characters / [s] / {s: ..}, x <-> [x], int <-> float "
                 "<-> bool <-> numeral, null <-> 0 / false / 'null', array <-> object, object <-> list of pairs / "
                 "keys / values, one level inside arrays and objects too) at 4 positions [confusion]; "
                 "de-duplicated by JSON text; x 4 drafts; plus each bundled metaschema against every class; "
                 "check_schema outcome vs the reference evaluator applied to the draft's metaschema file (for "
                 "candidates with non-finite numbers: the same evaluator over the extended reals; where the verdict "
                 "depends on the meaning of a comparison with NaN only 'nothing but SchemaError escapes' is "
                 "demanded).  part H: every sequence of <= depth registrations over 8 dialect kinds x 4 bundled "
                 "drafts (create/extend with a version or the validates decorator: same id + one-keyword table, "
                 "same id + stricter content, same id + content replaced on the extended class, same id + type "
                 "checker redefining integer/number resp. string/object, same id + empty table, other id, plain "
                 "copy), each replayed on the restored registries, a mini check after every non-final step and "
                 "the full probe differential for all four draft classes after the last; registries restored "
                 "and the restoration verified after every history.  part P: operations (kind, draft, use) with "
                 "kind in {the draft class itself; 8 Python subclasses of it overriding TYPE_CHECKER (integral floats "
                 "are integers / only ints are / numerals are numbers / everything is a string), VALIDATORS (one "
                 "keyword / no type and $ref) or META_SCHEMA (id only / no unknown keywords); an instance with an "
                 "assigned TYPE_CHECKER (2); the 8 registrations of part H} and use in {check_schema on 13 schemas; "
                 "is_valid and is_type over 8 type names x 10 instances}: every single operation and every ordered "
                 "pair (quick: pairs on the same draft), each history in its own child forked from a fresh "
                 "interpreter that has imported the package and executed nothing of it, then the probe differential "
                 "(all probes for the drafts the history derives from, 8 + own metaschema for the others).  "
                 "part T: check_schema in real threads under a baton scheduler, every schedule with <= bound "
                 "preemptions at call granularity: two (three) different draft classes, one accepted and one "
                 "rejected candidate each; and two threads with the SAME draft class x 4 drafts x {the same schema "
                 "object, two schemas sharing a nested subschema object, equal copies} x {valid, invalid} "
                 "(objects shared by identity between the threads; quick: bound 1, bound 2 for one configuration; "
                 "thorough: bound 2 for all).  non-trivial = candidates the reference decides (all distinct) + "
                 "probe evaluations in registry / pristine states + schedules with a preemption"),
        "bounds": dict(sizes, candidates_per_draft=len(cands), W=len(W), keywords=len(KW),
                       positions=len(WRAP if ctx.thorough else WRAP[:16]), tier=ctx.tier,
                       history_depth=hist_depth(ctx), history_ops=len(OPS), histories=nh, probes=len(_probes),
                       pristine_ops=len(p_ops()), pristine_histories=n_pris,
                       thread_configs=["%s %s bound=%d" % (t_name(c[0]), c[1], c[2]) for c in t_configs(ctx.tier)],
                       **{"family_" + k: v for k, v in fam.items()}),
        "assumptions": ["reference evaluator mc/ref/spec.py (handles $ref '#' and '#/definitions/...', draft 3 "
                        "extends/type unions); format is inert as check_schema passes no format checker",
                        "inf / -inf are ordered above / below every finite number and equal to themselves; a "
                        "non-finite number is a number and not an integer (mc/ref/nonfinite.py)",
                        "part H: expected verdicts of the draft classes do not depend on the registry state (the "
                        "property ties them to the bundled metaschema); dialect classes themselves are not judged",
                        "part P: a forked child of a fresh interpreter that imported jsonschema and mc.props.c11 "
                        "is in the state of a new process (importing the property module executes no check_schema)",
                        "part T: preemption only at Python call boundaries inside the package; a thread problem is "
                        "reported only if the identical schedule reproduces it twice more"],
    }


def outcome(cls, c):
    try:
        cls.check_schema(c)
        return True
    except exceptions.SchemaError:
        return False
    except Exception as e:
        return "EXC " + type(e).__name__


def reference(d, M, c):
    """True / False, or 'no-crash' when only the exception clause can be demanded; raises Unsupported."""
    if nonfinite.contains_nonfinite(c):
        try:
            return nonfinite.verdict(d, M, c)
        except nonfinite.Ambiguous:
            return "no-crash"
    return not spec.errs(d, M, c)


def disagreement(d, M, cls, c):
    """None, or (kind, got, expected)."""
    exp = reference(d, M, c)
    got = outcome(cls, c)
    if exp == "no-crash":
        if isinstance(got, str):
            return ("crash-" + got[4:], got, exp)
        return None
    if got != exp:
        return (kind_of(got, exp), got, exp)
    return None


def run_unit(unit, ctx):
    d, shard, n = unit[0], unit[1], unit[2]
    viol, samples, outcomes = [], [], {}
    ev = nt = 0
    if d == "meta":
        for dm in _e1.DRAFTS:
            M = meta(dm, ctx.repo)
            for dc in _e1.DRAFTS:
                ev += 1
                nt += 1
                got = outcome(_e1.CLS[dc], M)
                try:
                    exp = not spec.errs(dc, meta(dc, ctx.repo), M)
                except spec.Unsupported:
                    continue
                if dm == dc and got is not True:
                    viol.append({"signature": "C11|own-metaschema-rejected|d%d" % dm, "size": 1,
                                 "case": {"draft": dc, "candidate": "metaschema-of-draft-%d" % dm}, "detail": {"got": got}})
                elif got != exp:
                    viol.append({"signature": "C11|metaschema-cross|d%d-under-d%d" % (dm, dc), "size": 1,
                                 "case": {"draft": dc, "candidate": "metaschema-of-draft-%d" % dm},
                                 "detail": {"got": got, "expected": exp}})
            if _e1.CLS[dm].META_SCHEMA != M:
                viol.append({"signature": "C11|class-metaschema-differs-from-file|d%d" % dm, "size": 1,
                             "case": {"draft": dm, "candidate": "META_SCHEMA attribute"}, "detail": {}})
        return {"evaluations": ev, "nontrivial": nt, "violations": viol, "samples": [], "outcomes": {}, "counters": {}}
    if d == "hist":
        return run_hist_unit(unit, ctx)
    if d == "thr":
        return run_thr_unit(unit, ctx)
    if d == "pris":
        return run_pris_unit(unit, ctx)
    cands = candidates(ctx)
    M = meta(d, ctx.repo)
    cls = _e1.CLS[d]
    for i in range(shard, len(cands), n):
        fam, wname, c, inner = cands[i]
        try:
            exp = reference(d, M, c)
        except spec.Unsupported:
            outcomes["outside-oracle"] = outcomes.get("outside-oracle", 0) + 1
            continue
        ev += 1
        got = outcome(cls, c)
        key = fam + ":" + ("nan-ambiguous:only-no-crash-demanded" if exp == "no-crash" else
                           "accepted" if exp else "rejected")
        outcomes[key] = outcomes.get(key, 0) + 1
        nt += 1
        bad = None
        if exp == "no-crash":
            if isinstance(got, str):
                bad = ("crash-" + got[4:], got, exp)
        elif got != exp:
            bad = (kind_of(got, exp), got, exp)
        if bad:
            rc = c
            if inner is not None:
                # shrink: the same candidate without the position wrapper, if that disagrees in the same way
                try:
                    b2 = disagreement(d, M, cls, inner)
                except spec.Unsupported:
                    b2 = None
                if b2 and b2[0] == bad[0]:
                    rc, bad = inner, b2
            sig = "C11|%s|%s" % (bad[0], shape(rc))
            viol.append({"signature": sig, "size": len(json.dumps(rc)),
                         "case": {"draft": d, "candidate": rc},
                         "detail": {"check_schema": bad[1], "reference": bad[2], "family": fam,
                                    "found_at_position": wname}})
        if len(samples) < 2 and i % 997 == 5:
            samples.append({"draft": d, "family": fam, "candidate": c, "reference": exp})
    return {"evaluations": ev, "nontrivial": nt, "violations": viol, "samples": samples, "outcomes": outcomes,
            "counters": {}}


def run_hist_unit(unit, ctx):
    _, shard, n = unit
    viol, samples, outcomes = [], [], {}
    ev = states = 0
    probe_table(ctx)
    if not reg_same(_base_snap):
        raise RuntimeError("C11 harness: registries differ from the initial snapshot at the start of a unit")
    for i, h in enumerate(histories(ctx)):
        if i % n != shard:
            continue
        ops = [OPS[j] for j in h]
        e, bad, early = run_history(ctx, ops)
        ev += e
        states += len(ops)
        key = "history-depth-%d:%s" % (len(ops), "DISAGREE" if bad else "agree")
        outcomes[key] = outcomes.get(key, 0) + 1
        outcomes["registries-restored-and-verified"] = outcomes.get("registries-restored-and-verified", 0) + 1
        if bad:
            viol += hist_violation(ctx, ops, bad)
        if len(samples) < 1 and i % 211 == 7:
            samples.append({"part": "H", "history": [list(o) for o in ops], "probes_per_class": len(_probes)})
    return {"evaluations": ev, "nontrivial": ev, "violations": viol, "samples": samples, "outcomes": outcomes,
            "counters": {"registry_states_checked": states}}


def run_thr_unit(unit, ctx):
    _, ci, lo, hi = unit
    thr, gran, bound = t_configs(ctx.tier)[ci]
    viol, samples = [], []
    t_warm(thr)
    check = t_check(ctx, thr)
    try:
        r = threads.explore(lambda: t_bodies(thr), check, PKG, gran, bound, (lo, hi))
    except threads.Deadlock:
        # no thread finished within the scheduler's wall-clock limit: an overloaded machine, or code that blocks
        # while another thread holds the baton -- an artefact of serialising the threads, not a verdict
        return {"evaluations": 0, "nontrivial": 0, "samples": [], "violations": [], "counters": {},
                "outcomes": {"threads:unit-abandoned-after-scheduler-timeout": 1}}
    extra = {}
    for choices, bad in r["problems"]:
        if "got" not in bad:
            # the scheduler's wall-clock stall monitor gave up on the schedule ('deadlock'): check_schema takes no
            # locks; waits and deadlocks are C18's business, and on a busy machine the monitor misfires
            extra["threads:scheduler-stall-or-deadlock(not judged here)"] = extra.get(
                "threads:scheduler-stall-or-deadlock(not judged here)", 0) + 1
            continue
        got = bad["got"]
        # a problem counts only if the identical schedule shows it again, twice (DESIGN 3.3: an observation that
        # does not repeat under the same schedule is harness / interpreter nondeterminism, never a VIOLATION)
        if isinstance(got, tuple) and SCHED in got:
            extra["threads:run-left-its-schedule-prefix(dropped)"] = extra.get(
                "threads:run-left-its-schedule-prefix(dropped)", 0) + 1
            continue
        again = []
        for _ in range(2):
            try:
                res, _pts = threads.Sched(t_bodies(thr), choices, PKG, gran).run()
                again.append(check(res))
            except threads.Deadlock:
                again.append(None)
        if any(a is None or a["got"] != got or a["thread"] != bad["thread"] for a in again):
            extra["threads:problem-not-repeated-under-the-same-schedule(dropped)"] = extra.get(
                "threads:problem-not-repeated-under-the-same-schedule(dropped)", 0) + 1
            continue
        what = "crash-" + "+".join(sorted({g[4:] for g in got if isinstance(g, str)})) if (
            isinstance(got, tuple) and any(isinstance(g, str) for g in got)) else (
            "wrong-verdict" if isinstance(got, tuple) and got[:1] != ("EXC",) else "thread-died")
        viol.append({"signature": "C11|threads-check_schema%s|%s|%s" % (
            "-same-class-%s" % thr[2] if is_same(thr) else "", gran, what), "size": len(choices),
                     "case": {"part": "T", "threads": t_json(thr), "granularity": gran,
                              "choices": choices},
                     "detail": bad})
    outcomes = {"threads:preemptions=%d" % k: v for k, v in r["by_preemptions"].items()}
    outcomes.update(extra)
    if r.get("diverged"):
        outcomes["threads:replay-diverged-from-its-prefix(left unjudged by the scheduler)"] = r["diverged"]
    nt = sum(v for k, v in r["by_preemptions"].items() if k > 0)
    if lo == 0:
        samples.append({"part": "T", "threads": t_name(thr), "granularity": gran, "bound": bound,
                        "scheduling_points_in_deviation_free_run": r["points_root"]})
    return {"evaluations": r["schedules"], "nontrivial": nt, "violations": viol, "samples": samples,
            "outcomes": outcomes, "counters": {"thread_schedules": r["schedules"], "thread_steps": r["steps"]}}


def shape(c, depth=0):
    """Keyword skeleton of a candidate (values abstracted to their JSON type)."""
    if isinstance(c, dict) and depth < 3:
        return "{" + ",".join("%s:%s" % (k, shape(v, depth + 1)) for k, v in sorted(c.items())) + "}"
    if isinstance(c, list):
        return "[" + ",".join(sorted({shape(e, depth + 1) for e in c})) + "]"
    if nonfinite.nonfinite(c):
        return "nan" if c != c else "inf"
    return spec.jtype(c) if not isinstance(c, (dict,)) else "object"


def replay(case, ctx):
    part = case.get("part")
    if part == "T":
        thr = t_unjson(case["threads"])
        t_warm(thr)
        sc = threads.Sched(t_bodies(thr), case["choices"], PKG, case["granularity"])
        try:
            results, points = sc.run()
        except threads.Deadlock as e:
            return {"reproduced": False, "scheduler": str(e)}
        bad = t_check(ctx, thr)(results)
        return {"reproduced": bad is not None, "problem": bad}
    d, c = case["draft"], case["candidate"]
    if part == "P":
        from mc.explore import isolated
        return isolated.run("mc.props.c11", "p_nursery", {"tier": case.get("tier", ctx.tier), "replay": case})
    if part == "H":
        global _base_snap
        probe_table(ctx)
        if _base_snap is None:
            _base_snap = reg_snapshot()
        if isinstance(c, str) and c.startswith("metaschema-of-draft-"):
            what = "own-metaschema"
        else:
            P = probe_table(ctx)
            what = [json.dumps(p) for p in P].index(json.dumps(c))
        _, bad, _ = run_history(ctx, [tuple(o) for o in case["history"]], only=(d, what))
        return {"reproduced": bool(bad), "mismatches": [list(b) for b in bad]}
    if isinstance(c, str) and c.startswith("metaschema-of-draft-"):
        c = meta(int(c.rsplit("-", 1)[1]), ctx.repo)
        exp = not spec.errs(d, meta(d, ctx.repo), c)
        got = outcome(_e1.CLS[d], c)
        return {"reproduced": got != exp, "check_schema": got, "reference": exp}
    bad = disagreement(d, meta(d, ctx.repo), _e1.CLS[d], c)
    return {"reproduced": bad is not None, "disagreement": list(bad) if bad else None}
