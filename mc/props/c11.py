"""C11 — check_schema accepts exactly what the draft's bundled metaschema allows.

Part E (candidates): every JSON value of the hostile universe W, every
{keyword: w}, sibling products the metaschemas constrain, each placed at every
subschema position; the non-finite numbers json.loads produces (1e999, -1e999,
NaN) wherever a keyword value or an element of one can stand; ordered tuples
over an alphabet of equal-but-differently-written entries for every keyword
whose metaschema entry is an array (draft 3 type / disallow unions, type
arrays, required, enum, dependencies); "type confusions" of every valid keyword
value (a string vs. the list of its characters, x vs. [x], int vs. float vs.
bool vs. numeral, object vs. list of pairs ...); the four metaschemas
themselves.  Oracle: the reference evaluator applied to the metaschema *file*
of the draft.

Part H (environment histories): all sequences, up to a depth, of registrations
of further dialects (validators.create / extend with a version, the validates
decorator) that re-use a bundled metaschema id — fewer keywords, altered
metaschema content, a type checker that redefines integer / number / string —
or use another id; after every step the check_schema-vs-metaschema
differential is re-run on a probe set for all four draft classes.  The
registries are snapshotted before and restored (and the restoration verified)
after every history.

Part T (threads): check_schema of two different draft classes in two real
threads under the baton scheduler of mc/explore/threads.py, every schedule
with at most two preemptions at call granularity; expected verdicts from the
same oracle.
"""
import copy
import itertools
import json
import os

import jsonschema
from jsonschema import exceptions
from jsonschema import validators as V

from mc.enum import jsonvals, schemas
from mc.explore import threads
from mc.props import _e1
from mc.ref import nonfinite, spec

ID = "C11"
LEVEL = "exploration"

PKG = os.path.dirname(os.path.abspath(jsonschema.__file__))

KW = ["$ref", "additionalItems", "additionalProperties", "allOf", "anyOf", "const", "contains", "dependencies",
      "disallow", "divisibleBy", "enum", "exclusiveMaximum", "exclusiveMinimum", "extends", "format", "if", "then",
      "else", "items", "maxItems", "maxLength", "maxProperties", "maximum", "minItems", "minLength", "minProperties",
      "minimum", "multipleOf", "not", "oneOf", "pattern", "patternProperties", "properties", "propertyNames",
      "required", "type", "uniqueItems", "id", "$id", "definitions", "default", "$schema", "title", "description",
      "examples", "$comment", "readOnly", "contentEncoding", "maxDecimal", "foo"]
W = jsonvals.W + [-0.5, 2 ** 53, "ipv4", ["a", 1], [None], {"a": None}, {"a": "integer"}, [{"type": "foo"}],
                  {"a": ["a", "a"]}, {"a": [1]}, ["integer", "foo"], "http://["]

WRAP = [
    ("", lambda s: s),
    ("properties/x", lambda s: {"properties": {"x": s}}),
    ("items", lambda s: {"items": s}),
    ("items/0", lambda s: {"items": [s]}),
    ("items/1", lambda s: {"items": [{}, s]}),
    ("not", lambda s: {"not": s}),
    ("allOf/0", lambda s: {"allOf": [s]}),
    ("anyOf/1", lambda s: {"anyOf": [{}, s]}),
    ("oneOf/0", lambda s: {"oneOf": [s]}),
    ("definitions/x", lambda s: {"definitions": {"x": s}}),
    ("dependencies/x", lambda s: {"dependencies": {"x": s}}),
    ("additionalProperties", lambda s: {"additionalProperties": s}),
    ("additionalItems", lambda s: {"additionalItems": s}),
    ("patternProperties/a", lambda s: {"patternProperties": {"a": s}}),
    ("type/0", lambda s: {"type": [s]}),
    ("disallow/0", lambda s: {"disallow": [s]}),
    ("extends", lambda s: {"extends": s}),
    ("extends/0", lambda s: {"extends": [s]}),
    ("if", lambda s: {"if": s}),
    ("then", lambda s: {"then": s}),
    ("contains", lambda s: {"contains": s}),
    ("propertyNames", lambda s: {"propertyNames": s}),
    ("properties/x/items", lambda s: {"properties": {"x": {"items": s}}}),
    ("allOf/0/not", lambda s: {"allOf": [{"not": s}]}),
]
WRAPD = dict(WRAP)

_meta = {}


def meta(d, repo):
    if d not in _meta:
        with open(os.path.join(repo, "jsonschema", "schemas", "draft%d.json" % d)) as f:
            _meta[d] = json.load(f)
    return _meta[d]


def base_candidates():
    """The finite hostile family (also used by C04; keep its meaning)."""
    c = list(W)
    c += [{k: w} for k in KW for w in W]
    for a, b in (("minimum", "exclusiveMinimum"), ("maximum", "exclusiveMaximum")):
        c += [{a: 1, b: w} for w in W] + [{b: w, a: 0} for w in W]
    c += [{"properties": {"a": {"required": w}}} for w in W]
    c += [{"dependencies": {"a": w}} for w in W]
    c += [{"type": ["string", w]} for w in W]
    c += [{"items": [{}, w]} for w in W]
    return c


# ---- family "nonfinite": what json.loads makes of 1e999 / -1e999 / NaN ---------------------------
def _j(text):
    return json.loads(text)


def nonfinite_values():
    """Fresh objects, exactly as a parsed document has them (two NaN literals are two float objects)."""
    return [_j(t) for t in (
        "1e999", "-1e999", "NaN", "[1e999]", "[-1e999]", "[NaN]", "[1e999, 1e999]", "[1e999, -1e999]", "[NaN, NaN]",
        "[\"a\", 1e999]", "[1, NaN]", "{\"a\": 1e999}", "{\"a\": -1e999}", "{\"a\": NaN}", "{\"a\": [1e999]}",
        "[{\"minLength\": 1e999}]", "{\"a\": {\"maxItems\": -1e999}}", "{\"a\": {\"minimum\": NaN}}")]


def nonfinite_candidates():
    c = nonfinite_values()
    c += [{k: w} for k in KW for w in nonfinite_values()]
    for a, b in (("minimum", "exclusiveMinimum"), ("maximum", "exclusiveMaximum")):
        for w in nonfinite_values()[:3]:
            c += [{a: w, b: True}, {b: False, a: w}, {a: w, b: 1}, {a: 1, b: w}, {b: w, a: w}]
    c += [{"type": ["string", w]} for w in nonfinite_values()[:3]]
    c += [{"required": ["a", w]} for w in nonfinite_values()[:3]]
    c += [{"required": [w, w]} for w in nonfinite_values()[:3]]
    c += [{"enum": [w, "a", w]} for w in nonfinite_values()[:3]]
    return c


# ---- family "unions": arrays whose entries must be unique -----------------------------------------
# equal-but-differently-written entries (member order, 1 / 1.0), entries that differ only in bool / number,
# type names, and objects whose repr sorts between two equal ones
UE = ["string", "null", "any", "integer",
      {"minimum": 1}, {"minimum": 1.0}, {"minimum": 1.5}, {"minimum": 0},
      {"type": "string", "maxLength": 3}, {"maxLength": 3, "type": "string"},
      {"enum": [1, 2]}, {"enum": [1.0, 2]}, {"enum": [1, 3]}, {"enum": [True, 2]},
      {"a": 1, "b": [2]}, {"b": [2.0], "a": 1.0}]
UE4 = ["string", "null", {"minimum": 1}, {"minimum": 1.0}, {"minimum": 1.5}, {"type": "string", "maxLength": 3},
       {"maxLength": 3, "type": "string"}, {"minimum": 0}]
UKW = ["type", "disallow", "required", "enum", "extends", "dependencies/a"]


def union_candidates(thorough):
    tuples = [list(t) for n in (2, 3) for t in itertools.product(UE, repeat=n)]
    if thorough:
        tuples += [list(t) for t in itertools.product(UE4, repeat=4)]
    out = []
    for k in UKW:
        for t in tuples:
            if k == "dependencies/a":
                out.append(("", {"dependencies": {"a": t}}))
            else:
                out.append(("", {k: t}))
            if k in ("type", "disallow"):
                out.append(("properties/x", {k: t}))
                if thorough:
                    out.append(("extends/0", {k: t}))
    return out


# ---- family "confusion": type confusions of valid keyword values ------------------------------------
def confusions(v, depth=1):
    """Values a sloppy producer (or a sloppy comparison) confuses with v."""
    out = []
    if isinstance(v, str):
        out += [list(v), [v], {v: {}}, {v: v}]
        if v.isdigit():
            out.append(int(v))
    elif v is True or v is False:
        out += [int(v), float(v), "true" if v else "false", [v]]
    elif isinstance(v, int):
        out += [float(v), str(v), [v]]
        if v in (0, 1):
            out.append(bool(v))
    elif isinstance(v, float):
        out += [str(v), [v]]
        if v == int(v):
            out += [int(v)]
    elif v is None:
        out += ["null", 0, False, [None]]
    elif isinstance(v, list):
        out += [[v], {str(i): e for i, e in enumerate(v)}]
        if len(v) == 1:
            out.append(v[0])
        if v and all(isinstance(e, str) for e in v):
            out += [{e: {} for e in v}, "".join(v), ",".join(v)]
        out.append(v + v[:1] if v else [[]])
        if depth:
            for i, e in enumerate(v):
                for m in confusions(e, depth - 1):
                    out.append(v[:i] + [m] + v[i + 1:])
    elif isinstance(v, dict):
        out += [[[k, e] for k, e in v.items()], list(v), list(v.values()), [v]]
        if depth:
            for k, e in v.items():
                for m in confusions(e, depth - 1):
                    out.append(dict(v, **{k: m}))
    return out


def valid_values():
    """(keyword, value) pairs valid in at least one draft: the singles of the schema grammar of every draft."""
    seen, out = set(), []
    extra = [("$ref", "#"), ("$ref", "#/definitions/a"), ("id", "http://x.invalid/a"), ("$id", "http://x.invalid/a"),
             ("$schema", "http://json-schema.org/draft-04/schema#"), ("definitions", {"a": {"type": "integer"}}),
             ("description", "x"), ("examples", [0]), ("$comment", "x"), ("readOnly", True),
             ("contentEncoding", "base64"), ("required", True), ("required", False)]
    for d in _e1.DRAFTS:
        for k, v in schemas.singles(d, "quick") + extra:
            t = json.dumps([k, v])
            if t not in seen:
                seen.add(t)
                out.append((k, v))
    return out


def confusion_candidates(thorough):
    out = []
    for k, v in valid_values():
        for m in confusions(v, 2 if thorough else 1):
            out.append({k: m})
    return out


CONF_WRAPS = ["", "properties/x", "items/0", "anyOf/1"]
CONF_WRAPS_T = CONF_WRAPS + ["not", "dependencies/x", "extends/0", "type/0", "additionalProperties", "definitions/x"]

_cands = None


def candidates(ctx):
    """[(family, wrap name, candidate, inner candidate or None)], de-duplicated by JSON text."""
    global _cands
    if _cands is None:
        out = []
        seen = set()

        def add(fam, wname, inner):
            s = WRAPD[wname](inner)
            t = json.dumps(s)
            if t not in seen:
                seen.add(t)
                out.append((fam, wname, s, inner if wname else None))

        base = base_candidates()
        wraps = WRAP if ctx.thorough else WRAP[:16]
        for wname, wr in wraps:
            for c in base:
                add("base", wname, c)
        if ctx.thorough:
            # ordered pairs of keyword candidates over a reduced W at the top level
            small = [None, True, 0, -1, 1.5, "", "a", [], ["a"], [{}], {}, {"a": {}}, {"a": []}]
            for (k1, k2) in itertools.permutations(KW[:42], 2):
                for w1, w2 in ((w1, w2) for w1 in small[:6] for w2 in small[6:]):
                    add("base", "", {k1: w1, k2: w2})
        for wname, wr in wraps:
            for c in nonfinite_candidates():      # fresh float objects per position, as parsed documents have them
                add("nonfinite", wname, c)
        for wname, c in union_candidates(ctx.thorough):
            add("unions", wname, c)
        conf = confusion_candidates(ctx.thorough)
        for wname in (CONF_WRAPS_T if ctx.thorough else CONF_WRAPS):
            for c in conf:
                add("confusion", wname, c)
        _cands = out
    return _cands


# ---- part H: registration histories ----------------------------------------------------------------
OP_KINDS = ["few", "strict", "loose", "intstr", "anystr", "decor", "otherid", "copy"]
OPS = [(k, d) for d in _e1.DRAFTS for k in OP_KINDS]


def _only_enum(validator, enums, instance, schema):
    if instance not in enums:
        yield exceptions.ValidationError("%r not allowed" % (instance,))


def _idkey(D):
    return "id" if "id" in D.META_SCHEMA else "$id"


def apply_op(kind, d):
    """Register one further dialect; returns the new class."""
    D = _e1.CLS[d]
    name = "c11 %s d%d" % (kind, d)
    if kind == "few":          # same metaschema (same id), a one-keyword table
        return V.create(meta_schema=D.META_SCHEMA, validators={"enum": _only_enum}, version=name, id_of=D.ID_OF)
    if kind == "strict":       # same id, altered content: no unknown keywords
        return V.create(meta_schema=dict(D.META_SCHEMA, additionalProperties=False), validators=D.VALIDATORS,
                        type_checker=D.TYPE_CHECKER, id_of=D.ID_OF, version=name)
    if kind == "loose":        # the documented recipe: extend, then replace META_SCHEMA of the new class
        X = V.extend(D, version=name)
        X.META_SCHEMA = {_idkey(D): D.META_SCHEMA[_idkey(D)]}
        return X
    if kind == "intstr":       # numerals count as integers / numbers
        base = D.TYPE_CHECKER

        def is_integer(checker, instance):
            return (isinstance(instance, str) and instance.isdigit()) or base.is_type(instance, "integer")

        def is_number(checker, instance):
            return (isinstance(instance, str) and instance.isdigit()) or base.is_type(instance, "number")
        return V.extend(D, type_checker=base.redefine_many({"integer": is_integer, "number": is_number}), version=name)
    if kind == "anystr":       # everything is a string; nothing is an object
        tc = D.TYPE_CHECKER.redefine_many({"string": lambda checker, instance: True,
                                           "object": lambda checker, instance: False})
        return V.extend(D, type_checker=tc, version=name)
    if kind == "decor":        # an unversioned class with an empty keyword table, registered through the decorator
        X = V.create(meta_schema=D.META_SCHEMA, validators={}, id_of=D.ID_OF)
        return V.validates(name)(X)
    if kind == "otherid":      # a dialect with an id of its own (control)
        return V.create(meta_schema={_idkey(D): "urn:x-c11:dialect-%d" % d, "additionalProperties": False},
                        validators={"enum": _only_enum}, version=name, id_of=D.ID_OF)
    if kind == "copy":         # plain extension: another class object with equal content
        return V.extend(D, version=name)
    raise KeyError(kind)


def reg_snapshot():
    return dict(V.validators), dict(V.meta_schemas.store)


def reg_restore(snap):
    V.validators.clear()
    V.validators.update(snap[0])
    V.meta_schemas.store.clear()
    V.meta_schemas.store.update(snap[1])


def reg_same(snap):
    cur = reg_snapshot()
    for a, b in zip(cur, snap):
        if list(a) != list(b) or any(a[k] is not b[k] for k in a):
            return False
    return True


def probes():
    """The reduced candidate set of part H: every kind of dialect of the alphabet changes the verdict on some."""
    out = [[], "a", 1, None, {}]
    vals = ["3", 3, -1, "a", [], {}, {"a": 7}, True, {"a": {"x-note": 1}}]
    kws = ["minLength", "maxItems", "multipleOf", "divisibleBy", "type", "properties", "items", "required", "enum",
           "pattern", "additionalProperties", "dependencies", "x-note"]
    for k in kws:
        for w in vals:
            out.append({k: w})
    for k in ("minLength", "type", "properties", "pattern", "x-note", "required"):
        for w in vals[:4]:
            out.append({"properties": {"a": {k: w}}})
    for k in ("minLength", "type", "x-note"):
        for w in vals[:4]:
            out.append({"items": [{k: w}]})
            out.append({"extends": {k: w}, "not": {k: w}, "contains": {k: w}})
    seen, res = set(), []
    for c in out:
        t = json.dumps(c)
        if t not in seen:
            seen.add(t)
            res.append(c)
    return res


MINI = 12           # probes checked after a non-final step of a history (the check is itself an operation)
_probes = None
_probe_exp = {}
_base_snap = None


def probe_table(ctx):
    global _probes
    if _probes is None:
        _probes = probes()
        for d in _e1.DRAFTS:
            M = meta(d, ctx.repo)
            exp = []
            for c in _probes:
                try:
                    exp.append(not spec.errs(d, M, c))
                except spec.Unsupported:
                    exp.append(None)
            _probe_exp[d] = exp
    return _probes


def hist_depth(ctx):
    return 3 if ctx.thorough else 2


def histories(ctx):
    for n in range(1, hist_depth(ctx) + 1):
        for h in itertools.product(range(len(OPS)), repeat=n):
            yield h


def check_state(ctx, limit=None, only=None):
    """check_schema vs. metaschema for the four draft classes in the current registry state.
    -> (evaluations, [(draft, probe index or 'own-metaschema', got, expected)])"""
    P = probe_table(ctx)
    bad = []
    ev = 0
    for d in _e1.DRAFTS:
        if only is not None and d != only[0]:
            continue
        cls = _e1.CLS[d]
        M = meta(d, ctx.repo)
        if only is None or only[1] == "own-metaschema":
            ev += 1
            got = outcome(cls, M)
            if got is not True or cls.META_SCHEMA != M:
                bad.append((d, "own-metaschema", got if got is not True else "META_SCHEMA attribute changed", True))
        idx = range(len(P) if limit is None else min(limit, len(P))) if only is None else (
            [only[1]] if only[1] != "own-metaschema" else [])
        exp = _probe_exp[d]
        for i in idx:
            if exp[i] is None:
                continue
            ev += 1
            got = outcome(cls, P[i])
            if got != exp[i]:
                bad.append((d, i, got, exp[i]))
    return ev, bad


def run_history(ctx, ops, only=None):
    """Replays one history on the restored registries: mini check after every non-final step, full check after the
    last.  -> (evaluations, mismatches of the final state, mismatches of earlier states)"""
    ev = 0
    early = []
    reg_restore(_base_snap)
    try:
        for j, (kind, d) in enumerate(ops):
            apply_op(kind, d)
            last = j == len(ops) - 1
            n, bad = check_state(ctx, None if last else MINI, only if last else None)
            ev += n
            if not last:
                early += bad
        return ev, bad, early
    finally:
        reg_restore(_base_snap)
        if not reg_same(_base_snap):
            raise RuntimeError("C11 harness: registries not restored after a history")


def kind_of(got, exp):
    if isinstance(got, str):
        return "crash-" + got[4:] if got.startswith("EXC ") else got
    return "accepts-invalid" if got else "rejects-valid"


def shrink_history(ctx, ops, d, what):
    """Greedy deletion of registrations while the same (class, probe) still disagrees."""
    cur = list(ops)
    changed = True
    while changed and len(cur) > 1:
        changed = False
        for i in range(len(cur)):
            cand = cur[:i] + cur[i + 1:]
            _, bad, _ = run_history(ctx, cand, only=(d, what))
            if bad:
                cur, changed = cand, True
                break
    return cur


def hist_violation(ctx, ops, bad_all):
    """One violation per (history, class): the first disagreeing probe, shrunk."""
    out = []
    for d in _e1.DRAFTS:
        bad = [b for b in bad_all if b[0] == d]
        if not bad:
            continue
        _, what, got, exp = bad[0]
        small = shrink_history(ctx, ops, d, what)
        _, again, _ = run_history(ctx, small, only=(d, what))
        if again:
            got = again[0][2]
        rel = sorted({"%s:%s" % (k, "same-draft" if dd == d else "other-draft") for k, dd in small})
        sig = "C11|after-registering-dialects|%s|%s" % (
            "own-metaschema-rejected" if what == "own-metaschema" else kind_of(got, exp), "+".join(rel))
        cand = "metaschema-of-draft-%d" % d if what == "own-metaschema" else probe_table(ctx)[what]
        out.append({"signature": sig, "size": 10 * len(small) + len(json.dumps(cand)) // 20,
                    "case": {"part": "H", "history": [list(o) for o in small], "draft": d, "candidate": cand},
                    "detail": {"check_schema": got, "reference": exp, "explored_history": [list(o) for o in ops],
                               "probes_disagreeing_for_this_class_in_this_state": len(bad)}})
    return out


# ---- part T: check_schema of different drafts in concurrent threads ------------------------------------
T_CANDS = {
    # one accepted and one rejected candidate per draft, both judged through a $ref of the metaschema
    3: [{"extends": {"minLength": 1}}, {"items": {"minLength": -1}}],
    4: [{"minLength": 1}, {"items": {"minLength": -1}}],
    6: [{"minLength": 1}, {"items": {"minLength": -1}}],
    7: [{"minLength": 1, "required": ["a"]}, {"items": {"minLength": -1}}],
}


ACC, REJ, BOTH = (0,), (1,), (0, 1)


def t_configs(tier):
    """((draft, which of its two candidates), ...) per thread, granularity, preemption bound."""
    if tier == "quick":
        return [(((4, ACC), (7, REJ)), "call", 2), (((3, REJ), (6, ACC)), "call", 2),
                (((4, BOTH), (7, BOTH)), "call", 1), (((6, BOTH), (3, BOTH)), "call", 1)]
    out = []
    for a, b in itertools.permutations(_e1.DRAFTS, 2):
        out.append((((a, ACC), (b, REJ)), "call", 2))
        out.append((((a, BOTH), (b, BOTH)), "call", 1))
    out += [(((4, ACC), (7, ACC)), "call", 2), (((6, REJ), (3, REJ)), "call", 2),
            (((4, ACC), (6, REJ), (7, ACC)), "call", 1), (((7, ACC), (4, REJ)), "line", 1)]
    return out


def t_bodies(threads_):
    def mk(d, which):
        cls = _e1.CLS[d]

        def body():
            return tuple(t_outcome(cls, copy.deepcopy(T_CANDS[d][i])) for i in which)
        return body
    return [mk(d, which) for d, which in threads_]


SCHED = "SCHEDULER: prefix not replayable"


def t_outcome(cls, c):
    """outcome(), but an exception thrown by the baton scheduler itself (its trace function refuses a schedule
    prefix that the run no longer follows) is told apart from an exception of the code under test."""
    try:
        cls.check_schema(c)
        return True
    except exceptions.SchemaError:
        return False
    except Exception as e:
        tb = e.__traceback__
        while tb.tb_next is not None:
            tb = tb.tb_next
        if os.path.abspath(tb.tb_frame.f_code.co_filename) == os.path.abspath(threads.__file__):
            return SCHED
        return "EXC " + type(e).__name__


def t_expected(ctx, d, which=BOTH):
    M = meta(d, ctx.repo)
    return tuple(not spec.errs(d, M, T_CANDS[d][i]) for i in which)


def t_check(ctx, threads_):
    exp = [t_expected(ctx, d, which) for d, which in threads_]

    def check(results):
        for i, (d, which) in enumerate(threads_):
            if results[i] != exp[i]:
                return {"thread": i, "draft": d, "candidates": [T_CANDS[d][j] for j in which],
                        "got": results[i], "expected": exp[i]}
        return None
    return check


def t_warm(threads_):
    """Run the bodies sequentially twice, so that whatever the first call of a kind builds lazily exists before the
    root run and before every explored schedule alike (cold start is C18's part D)."""
    for _ in range(2):
        for b in t_bodies(threads_):
            b()


def t_name(threads_):
    return "+".join("d%d:%s" % (d, "".join("ar"[i] for i in which)) for d, which in threads_)


# ---- plan / run ---------------------------------------------------------------------------------------
def plan(ctx):
    global _base_snap
    cands = candidates(ctx)
    n = 32 if ctx.tier == "quick" else 96
    units = [(d, i, n) for d in _e1.DRAFTS for i in range(n)]
    units += [("meta", 0, 1)]
    probe_table(ctx)
    _base_snap = reg_snapshot()
    nh = sum(len(OPS) ** k for k in range(1, hist_depth(ctx) + 1))
    hs = 48 if ctx.tier == "quick" else 256
    units += [("hist", i, hs) for i in range(hs)]
    sizes = {}
    for ci, (thr, gran, bound) in enumerate(t_configs(ctx.tier)):
        for d, which in thr:
            e = t_expected(ctx, d)
            assert e == (True, False), (d, e)
        t_warm(thr)
        npts = None
        for _ in range(5):          # the scheduler's wall-clock stall monitor can misfire on a busy machine
            sc = threads.Sched(t_bodies(thr), [], PKG, gran)
            try:
                _, pts = sc.run()
            except threads.Deadlock:
                continue
            if not sc.stalls:
                npts = len(pts)
                break
        if npts is None:
            raise RuntimeError("C11 harness: no undisturbed root run of the thread bodies in 5 attempts")
        sizes["thread_points_%s_%s_bound%d" % (t_name(thr), gran, bound)] = npts
        chunk = max(1, npts // (32 if bound >= 2 else 4))
        for lo in range(0, npts, chunk):
            units.append(("thr", ci, lo, lo + chunk if lo + chunk < npts else 10 ** 9))
    fam = {}
    for f, _, _, _ in cands:
        fam[f] = fam.get(f, 0) + 1
    return {
        "units": units,
        "rule": ("part E: every value of W, every {keyword: w} for 50 keyword names (all drafts' keywords, annotations, "
                 "unknown names) x W, sibling products for exclusive*/required/dependencies/type/items, each placed "
                 "at every subschema position of the wrap table [base]; the same for the non-finite numbers "
                 "json.loads produces (inf, -inf, nan: bare, in arrays, in objects, in nested subschemas) "
                 "[nonfinite]; every ordered tuple of length 2-3 (4 over a reduced alphabet in thorough) over 16 "
                 "entries (type names, equal-but-differently-written objects: member order, 1 / 1.0; bool-vs-number "
                 "look-alikes; objects sorting between them) as the value of type, disallow, required, enum, "
                 "extends, dependencies/a [unions]; type confusions of every valid keyword value of the schema "
                 "grammar of every draft (string <-> list of characters / [s] / {s: ..}, x <-> [x], int <-> float "
                 "<-> bool <-> numeral, null <-> 0 / false / 'null', array <-> object, object <-> list of pairs / "
                 "keys / values, one level inside arrays and objects too) at 4 positions [confusion]; "
                 "de-duplicated by JSON text; x 4 drafts; plus each bundled metaschema against every class; "
                 "check_schema outcome vs the reference evaluator applied to the draft's metaschema file (for "
                 "candidates with non-finite numbers: the same evaluator over the extended reals; where the verdict "
                 "depends on the meaning of a comparison with NaN only 'nothing but SchemaError escapes' is "
                 "demanded).  part H: every sequence of <= depth registrations over 8 dialect kinds x 4 bundled "
                 "drafts (create/extend with a version or the validates decorator: same id + one-keyword table, "
                 "same id + stricter content, same id + content replaced on the extended class, same id + type "
                 "checker redefining integer/number resp. string/object, same id + empty table, other id, plain "
                 "copy), each replayed on the restored registries, a mini check after every non-final step and "
                 "the full probe differential for all four draft classes after the last; registries restored "
                 "and the restoration verified after every history.  part T: check_schema of two (three) "
                 "different draft classes in real threads, one accepted and one rejected candidate each, every "
                 "schedule with <= bound preemptions at call granularity.  non-trivial = candidates the reference "
                 "decides (all distinct) + probe evaluations in registry states + schedules with a preemption"),
        "bounds": dict(sizes, candidates_per_draft=len(cands), W=len(W), keywords=len(KW),
                       positions=len(WRAP if ctx.thorough else WRAP[:16]), tier=ctx.tier,
                       history_depth=hist_depth(ctx), history_ops=len(OPS), histories=nh, probes=len(_probes),
                       thread_configs=["%s %s bound=%d" % (t_name(c[0]), c[1], c[2]) for c in t_configs(ctx.tier)],
                       **{"family_" + k: v for k, v in fam.items()}),
        "assumptions": ["reference evaluator mc/ref/spec.py (handles $ref '#' and '#/definitions/...', draft 3 "
                        "extends/type unions); format is inert as check_schema passes no format checker",
                        "inf / -inf are ordered above / below every finite number and equal to themselves; a "
                        "non-finite number is a number and not an integer (mc/ref/nonfinite.py)",
                        "part H: expected verdicts of the draft classes do not depend on the registry state (the "
                        "property ties them to the bundled metaschema); dialect classes themselves are not judged",
                        "part T: preemption only at Python call boundaries inside the package"],
    }


def outcome(cls, c):
    try:
        cls.check_schema(c)
        return True
    except exceptions.SchemaError:
        return False
    except Exception as e:
        return "EXC " + type(e).__name__


def reference(d, M, c):
    """True / False, or 'no-crash' when only the exception clause can be demanded; raises Unsupported."""
    if nonfinite.contains_nonfinite(c):
        try:
            return nonfinite.verdict(d, M, c)
        except nonfinite.Ambiguous:
            return "no-crash"
    return not spec.errs(d, M, c)


def disagreement(d, M, cls, c):
    """None, or (kind, got, expected)."""
    exp = reference(d, M, c)
    got = outcome(cls, c)
    if exp == "no-crash":
        if isinstance(got, str):
            return ("crash-" + got[4:], got, exp)
        return None
    if got != exp:
        return (kind_of(got, exp), got, exp)
    return None


def run_unit(unit, ctx):
    d, shard, n = unit[0], unit[1], unit[2]
    viol, samples, outcomes = [], [], {}
    ev = nt = 0
    if d == "meta":
        for dm in _e1.DRAFTS:
            M = meta(dm, ctx.repo)
            for dc in _e1.DRAFTS:
                ev += 1
                nt += 1
                got = outcome(_e1.CLS[dc], M)
                try:
                    exp = not spec.errs(dc, meta(dc, ctx.repo), M)
                except spec.Unsupported:
                    continue
                if dm == dc and got is not True:
                    viol.append({"signature": "C11|own-metaschema-rejected|d%d" % dm, "size": 1,
                                 "case": {"draft": dc, "candidate": "metaschema-of-draft-%d" % dm}, "detail": {"got": got}})
                elif got != exp:
                    viol.append({"signature": "C11|metaschema-cross|d%d-under-d%d" % (dm, dc), "size": 1,
                                 "case": {"draft": dc, "candidate": "metaschema-of-draft-%d" % dm},
                                 "detail": {"got": got, "expected": exp}})
            if _e1.CLS[dm].META_SCHEMA != M:
                viol.append({"signature": "C11|class-metaschema-differs-from-file|d%d" % dm, "size": 1,
                             "case": {"draft": dm, "candidate": "META_SCHEMA attribute"}, "detail": {}})
        return {"evaluations": ev, "nontrivial": nt, "violations": viol, "samples": [], "outcomes": {}, "counters": {}}
    if d == "hist":
        return run_hist_unit(unit, ctx)
    if d == "thr":
        return run_thr_unit(unit, ctx)
    cands = candidates(ctx)
    M = meta(d, ctx.repo)
    cls = _e1.CLS[d]
    for i in range(shard, len(cands), n):
        fam, wname, c, inner = cands[i]
        try:
            exp = reference(d, M, c)
        except spec.Unsupported:
            outcomes["outside-oracle"] = outcomes.get("outside-oracle", 0) + 1
            continue
        ev += 1
        got = outcome(cls, c)
        key = fam + ":" + ("nan-ambiguous:only-no-crash-demanded" if exp == "no-crash" else
                           "accepted" if exp else "rejected")
        outcomes[key] = outcomes.get(key, 0) + 1
        nt += 1
        bad = None
        if exp == "no-crash":
            if isinstance(got, str):
                bad = ("crash-" + got[4:], got, exp)
        elif got != exp:
            bad = (kind_of(got, exp), got, exp)
        if bad:
            rc = c
            if inner is not None:
                # shrink: the same candidate without the position wrapper, if that disagrees in the same way
                try:
                    b2 = disagreement(d, M, cls, inner)
                except spec.Unsupported:
                    b2 = None
                if b2 and b2[0] == bad[0]:
                    rc, bad = inner, b2
            sig = "C11|%s|%s" % (bad[0], shape(rc))
            viol.append({"signature": sig, "size": len(json.dumps(rc)),
                         "case": {"draft": d, "candidate": rc},
                         "detail": {"check_schema": bad[1], "reference": bad[2], "family": fam,
                                    "found_at_position": wname}})
        if len(samples) < 2 and i % 997 == 5:
            samples.append({"draft": d, "family": fam, "candidate": c, "reference": exp})
    return {"evaluations": ev, "nontrivial": nt, "violations": viol, "samples": samples, "outcomes": outcomes,
            "counters": {}}


def run_hist_unit(unit, ctx):
    _, shard, n = unit
    viol, samples, outcomes = [], [], {}
    ev = states = 0
    probe_table(ctx)
    if not reg_same(_base_snap):
        raise RuntimeError("C11 harness: registries differ from the initial snapshot at the start of a unit")
    for i, h in enumerate(histories(ctx)):
        if i % n != shard:
            continue
        ops = [OPS[j] for j in h]
        e, bad, early = run_history(ctx, ops)
        ev += e
        states += len(ops)
        key = "history-depth-%d:%s" % (len(ops), "DISAGREE" if bad else "agree")
        outcomes[key] = outcomes.get(key, 0) + 1
        outcomes["registries-restored-and-verified"] = outcomes.get("registries-restored-and-verified", 0) + 1
        if bad:
            viol += hist_violation(ctx, ops, bad)
        if len(samples) < 1 and i % 211 == 7:
            samples.append({"part": "H", "history": [list(o) for o in ops], "probes_per_class": len(_probes)})
    return {"evaluations": ev, "nontrivial": ev, "violations": viol, "samples": samples, "outcomes": outcomes,
            "counters": {"registry_states_checked": states}}


def run_thr_unit(unit, ctx):
    _, ci, lo, hi = unit
    thr, gran, bound = t_configs(ctx.tier)[ci]
    viol, samples = [], []
    t_warm(thr)
    check = t_check(ctx, thr)
    try:
        r = threads.explore(lambda: t_bodies(thr), check, PKG, gran, bound, (lo, hi))
    except threads.Deadlock:
        # no thread finished within the scheduler's wall-clock limit: an overloaded machine, or code that blocks
        # while another thread holds the baton -- an artefact of serialising the threads, not a verdict
        return {"evaluations": 0, "nontrivial": 0, "samples": [], "violations": [], "counters": {},
                "outcomes": {"threads:unit-abandoned-after-scheduler-timeout": 1}}
    extra = {}
    for choices, bad in r["problems"]:
        if "got" not in bad:
            # the scheduler's wall-clock stall monitor gave up on the schedule ('deadlock'): check_schema takes no
            # locks; waits and deadlocks are C18's business, and on a busy machine the monitor misfires
            extra["threads:scheduler-stall-or-deadlock(not judged here)"] = extra.get(
                "threads:scheduler-stall-or-deadlock(not judged here)", 0) + 1
            continue
        got = bad["got"]
        # a problem counts only if the identical schedule shows it again, twice (DESIGN 3.3: an observation that
        # does not repeat under the same schedule is harness / interpreter nondeterminism, never a VIOLATION)
        if isinstance(got, tuple) and SCHED in got:
            extra["threads:run-left-its-schedule-prefix(dropped)"] = extra.get(
                "threads:run-left-its-schedule-prefix(dropped)", 0) + 1
            continue
        again = []
        for _ in range(2):
            try:
                res, _pts = threads.Sched(t_bodies(thr), choices, PKG, gran).run()
                again.append(check(res))
            except threads.Deadlock:
                again.append(None)
        if any(a is None or a["got"] != got or a["thread"] != bad["thread"] for a in again):
            extra["threads:problem-not-repeated-under-the-same-schedule(dropped)"] = extra.get(
                "threads:problem-not-repeated-under-the-same-schedule(dropped)", 0) + 1
            continue
        what = "crash-" + "+".join(sorted({g[4:] for g in got if isinstance(g, str)})) if (
            isinstance(got, tuple) and any(isinstance(g, str) for g in got)) else (
            "wrong-verdict" if isinstance(got, tuple) and got[:1] != ("EXC",) else "thread-died")
        viol.append({"signature": "C11|threads-check_schema|%s|%s" % (gran, what), "size": len(choices),
                     "case": {"part": "T", "threads": [[d, list(w)] for d, w in thr], "granularity": gran,
                              "choices": choices},
                     "detail": bad})
    outcomes = {"threads:preemptions=%d" % k: v for k, v in r["by_preemptions"].items()}
    outcomes.update(extra)
    if r.get("diverged"):
        outcomes["threads:replay-diverged-from-its-prefix(left unjudged by the scheduler)"] = r["diverged"]
    nt = sum(v for k, v in r["by_preemptions"].items() if k > 0)
    if lo == 0:
        samples.append({"part": "T", "threads": t_name(thr), "granularity": gran, "bound": bound,
                        "scheduling_points_in_deviation_free_run": r["points_root"]})
    return {"evaluations": r["schedules"], "nontrivial": nt, "violations": viol, "samples": samples,
            "outcomes": outcomes, "counters": {"thread_schedules": r["schedules"], "thread_steps": r["steps"]}}


def shape(c, depth=0):
    """Keyword skeleton of a candidate (values abstracted to their JSON type)."""
    if isinstance(c, dict) and depth < 3:
        return "{" + ",".join("%s:%s" % (k, shape(v, depth + 1)) for k, v in sorted(c.items())) + "}"
    if isinstance(c, list):
        return "[" + ",".join(sorted({shape(e, depth + 1) for e in c})) + "]"
    if nonfinite.nonfinite(c):
        return "nan" if c != c else "inf"
    return spec.jtype(c) if not isinstance(c, (dict,)) else "object"


def replay(case, ctx):
    part = case.get("part")
    if part == "T":
        thr = tuple((d, tuple(w)) for d, w in case["threads"])
        t_warm(thr)
        sc = threads.Sched(t_bodies(thr), case["choices"], PKG, case["granularity"])
        try:
            results, points = sc.run()
        except threads.Deadlock as e:
            return {"reproduced": False, "scheduler": str(e)}
        bad = t_check(ctx, thr)(results)
        return {"reproduced": bad is not None, "problem": bad}
    d, c = case["draft"], case["candidate"]
    if part == "H":
        global _base_snap
        probe_table(ctx)
        if _base_snap is None:
            _base_snap = reg_snapshot()
        if isinstance(c, str) and c.startswith("metaschema-of-draft-"):
            what = "own-metaschema"
        else:
            P = probe_table(ctx)
            what = [json.dumps(p) for p in P].index(json.dumps(c))
        _, bad, _ = run_history(ctx, [tuple(o) for o in case["history"]], only=(d, what))
        return {"reproduced": bool(bad), "mismatches": [list(b) for b in bad]}
    if isinstance(c, str) and c.startswith("metaschema-of-draft-"):
        c = meta(int(c.rsplit("-", 1)[1]), ctx.repo)
        exp = not spec.errs(d, meta(d, ctx.repo), c)
        got = outcome(_e1.CLS[d], c)
        return {"reproduced": got != exp, "check_schema": got, "reference": exp}
    bad = disagreement(d, meta(d, ctx.repo), _e1.CLS[d], c)
    return {"reproduced": bad is not None, "disagreement": list(bad) if bad else None}
