"""C11 — check_schema accepts exactly what the draft's bundled metaschema allows.

Candidates: every JSON value of the hostile universe W, every {keyword: w},
sibling products the metaschemas constrain, each placed at every subschema
position; the four metaschemas themselves.  Oracle: the reference evaluator
applied to the metaschema *file* of the draft.
"""
import itertools
import json
import os

from jsonschema import exceptions

from mc.enum import jsonvals
from mc.props import _e1
from mc.ref import spec

ID = "C11"
LEVEL = "exploration"

KW = ["$ref", "additionalItems", "additionalProperties", "allOf", "anyOf", "const", "contains", "dependencies",
      "disallow", "divisibleBy", "enum", "exclusiveMaximum", "exclusiveMinimum", "extends", "format", "if", "then",
      "else", "items", "maxItems", "maxLength", "maxProperties", "maximum", "minItems", "minLength", "minProperties",
      "minimum", "multipleOf", "not", "oneOf", "pattern", "patternProperties", "properties", "propertyNames",
      "required", "type", "uniqueItems", "id", "$id", "definitions", "default", "$schema", "title", "description",
      "examples", "$comment", "readOnly", "contentEncoding", "maxDecimal", "foo"]
W = jsonvals.W + [-0.5, 2 ** 53, "ipv4", ["a", 1], [None], {"a": None}, {"a": "integer"}, [{"type": "foo"}],
                  {"a": ["a", "a"]}, {"a": [1]}, ["integer", "foo"], "http://["]

WRAP = [
    ("", lambda s: s),
    ("properties/x", lambda s: {"properties": {"x": s}}),
    ("items", lambda s: {"items": s}),
    ("items/0", lambda s: {"items": [s]}),
    ("items/1", lambda s: {"items": [{}, s]}),
    ("not", lambda s: {"not": s}),
    ("allOf/0", lambda s: {"allOf": [s]}),
    ("anyOf/1", lambda s: {"anyOf": [{}, s]}),
    ("oneOf/0", lambda s: {"oneOf": [s]}),
    ("definitions/x", lambda s: {"definitions": {"x": s}}),
    ("dependencies/x", lambda s: {"dependencies": {"x": s}}),
    ("additionalProperties", lambda s: {"additionalProperties": s}),
    ("additionalItems", lambda s: {"additionalItems": s}),
    ("patternProperties/a", lambda s: {"patternProperties": {"a": s}}),
    ("type/0", lambda s: {"type": [s]}),
    ("disallow/0", lambda s: {"disallow": [s]}),
    ("extends", lambda s: {"extends": s}),
    ("extends/0", lambda s: {"extends": [s]}),
    ("if", lambda s: {"if": s}),
    ("then", lambda s: {"then": s}),
    ("contains", lambda s: {"contains": s}),
    ("propertyNames", lambda s: {"propertyNames": s}),
    ("properties/x/items", lambda s: {"properties": {"x": {"items": s}}}),
    ("allOf/0/not", lambda s: {"allOf": [{"not": s}]}),
]

_meta = {}


def meta(d, repo):
    if d not in _meta:
        with open(os.path.join(repo, "jsonschema", "schemas", "draft%d.json" % d)) as f:
            _meta[d] = json.load(f)
    return _meta[d]


def base_candidates():
    c = list(W)
    c += [{k: w} for k in KW for w in W]
    for a, b in (("minimum", "exclusiveMinimum"), ("maximum", "exclusiveMaximum")):
        c += [{a: 1, b: w} for w in W] + [{b: w, a: 0} for w in W]
    c += [{"properties": {"a": {"required": w}}} for w in W]
    c += [{"dependencies": {"a": w}} for w in W]
    c += [{"type": ["string", w]} for w in W]
    c += [{"items": [{}, w]} for w in W]
    return c


_cands = None


def candidates(ctx):
    global _cands
    if _cands is None:
        base = base_candidates()
        wraps = WRAP if ctx.thorough else WRAP[:16]
        out = []
        seen = set()
        for wname, wr in wraps:
            for c in base:
                s = wr(c)
                t = json.dumps(s)
                if t not in seen:
                    seen.add(t)
                    out.append(s)
        if ctx.thorough:
            # ordered pairs of keyword candidates over a reduced W at the top level
            small = [None, True, 0, -1, 1.5, "", "a", [], ["a"], [{}], {}, {"a": {}}, {"a": []}]
            for (k1, k2) in itertools.permutations(KW[:42], 2):
                for w1, w2 in ((w1, w2) for w1 in small[:6] for w2 in small[6:]):
                    s = {k1: w1, k2: w2}
                    t = json.dumps(s)
                    if t not in seen:
                        seen.add(t)
                        out.append(s)
        _cands = out
    return _cands


def plan(ctx):
    cands = candidates(ctx)
    n = 16 if ctx.tier == "quick" else 48
    units = [(d, i, n) for d in _e1.DRAFTS for i in range(n)]
    units += [("meta", 0, 1)]
    return {
        "units": units,
        "rule": ("every value of W, every {keyword: w} for 50 keyword names (all drafts' keywords, annotations, "
                 "unknown names) x W, sibling products for exclusive*/required/dependencies/type/items, each placed "
                 "at every subschema position of the wrap table; de-duplicated by JSON text; x 4 drafts; plus each "
                 "bundled metaschema against every class; check_schema outcome vs the reference evaluator applied "
                 "to the draft's metaschema file; non-trivial = candidates the reference rejects or accepts with at "
                 "least one known keyword present (all candidates are distinct)"),
        "bounds": {"candidates_per_draft": len(cands), "W": len(W), "keywords": len(KW),
                   "positions": len(WRAP if ctx.thorough else WRAP[:16]), "tier": ctx.tier},
        "assumptions": ["reference evaluator mc/ref/spec.py (handles $ref '#' and '#/definitions/...', draft 3 "
                        "extends/type unions); format is inert as check_schema passes no format checker"],
    }


def outcome(cls, c):
    try:
        cls.check_schema(c)
        return True
    except exceptions.SchemaError:
        return False
    except Exception as e:
        return "EXC " + type(e).__name__


def run_unit(unit, ctx):
    d, shard, n = unit
    viol, samples, outcomes = [], [], {}
    ev = nt = 0
    if d == "meta":
        for dm in _e1.DRAFTS:
            M = meta(dm, ctx.repo)
            for dc in _e1.DRAFTS:
                ev += 1
                nt += 1
                got = outcome(_e1.CLS[dc], M)
                try:
                    exp = not spec.errs(dc, meta(dc, ctx.repo), M)
                except spec.Unsupported:
                    continue
                if dm == dc and got is not True:
                    viol.append({"signature": "C11|own-metaschema-rejected|d%d" % dm, "size": 1,
                                 "case": {"draft": dc, "candidate": "metaschema-of-draft-%d" % dm}, "detail": {"got": got}})
                elif got != exp:
                    viol.append({"signature": "C11|metaschema-cross|d%d-under-d%d" % (dm, dc), "size": 1,
                                 "case": {"draft": dc, "candidate": "metaschema-of-draft-%d" % dm},
                                 "detail": {"got": got, "expected": exp}})
            if _e1.CLS[dm].META_SCHEMA != M:
                viol.append({"signature": "C11|class-metaschema-differs-from-file|d%d" % dm, "size": 1,
                             "case": {"draft": dm, "candidate": "META_SCHEMA attribute"}, "detail": {}})
        return {"evaluations": ev, "nontrivial": nt, "violations": viol, "samples": [], "outcomes": {}, "counters": {}}
    cands = candidates(ctx)
    M = meta(d, ctx.repo)
    cls = _e1.CLS[d]
    for i in range(shard, len(cands), n):
        c = cands[i]
        try:
            exp = not spec.errs(d, M, c)
        except spec.Unsupported:
            outcomes["outside-oracle"] = outcomes.get("outside-oracle", 0) + 1
            continue
        ev += 1
        got = outcome(cls, c)
        key = "accepted" if exp else "rejected"
        outcomes[key] = outcomes.get(key, 0) + 1
        nt += 1
        if got != exp:
            kind = "crash-" + got[4:] if isinstance(got, str) else ("accepts-invalid" if got else "rejects-valid")
            sig = "C11|%s|%s" % (kind, shape(c))
            viol.append({"signature": sig, "size": len(json.dumps(c)),
                         "case": {"draft": d, "candidate": c}, "detail": {"check_schema": got, "reference": exp}})
        if len(samples) < 2 and i % 997 == 5:
            samples.append({"draft": d, "candidate": c, "accepted": exp})
    return {"evaluations": ev, "nontrivial": nt, "violations": viol, "samples": samples, "outcomes": outcomes,
            "counters": {}}


def shape(c, depth=0):
    """Keyword skeleton of a candidate (values abstracted to their JSON type)."""
    if isinstance(c, dict) and depth < 3:
        return "{" + ",".join("%s:%s" % (k, shape(v, depth + 1)) for k, v in sorted(c.items())) + "}"
    if isinstance(c, list):
        return "[" + ",".join(sorted({shape(e, depth + 1) for e in c})) + "]"
    return spec.jtype(c) if not isinstance(c, (dict,)) else "object"


def replay(case, ctx):
    d, c = case["draft"], case["candidate"]
    if isinstance(c, str) and c.startswith("metaschema-of-draft-"):
        c = meta(int(c.rsplit("-", 1)[1]), ctx.repo)
    exp = not spec.errs(d, meta(d, ctx.repo), c)
    got = outcome(_e1.CLS[d], c)
    return {"reproduced": got != exp, "check_schema": got, "reference": exp}
